"""C05 — isotherm identity is determined by content, and only by content.

Lean: Props/C05.lean (the identifier is a function of the key-sorted content: invariant under the order in which metadata
was given, injective on contents up to that order — unless the uninterpreted hash collides) and Props/C05/Labels.lean over
Model/Identity.lean (a `Content` = material, adsorbate, temperature, the SEVEN unit labels, metadata, payload; `Content.toIso` =
constructor + `to_dict`: every label is stored for every pressure mode / loading basis / material basis, only the pressure unit of a
relative mode is cleared; same identifier <=> same stored content; one theorem per label).
Tie (driver Drv/Identity.lean): for every real isotherm of a family (a content, all its construction routes, all its single-field
edits) (1) `canon (Content.toIso description)` — computed from what the isotherm was BUILT from — equals `canon` of what is OBSERVED
(`to_dict()` + rounded rows / model dictionary), and (2) equal identifiers <=> equal canonical forms for every pair of the family.
Failing-input search on the real code:
  * routes: every content is built by the fixed routes (lists, tuples, numpy arrays, tables with different row labels / column
    orders, shorthands, Material objects, from_isotherm, JSON re-parse), by RANDOM representations of EVERY column (pressure,
    loading, each extra column, the branch marks: python ints / floats / mixed, tuples, numpy int8..int64 / uint8 / float32 /
    float64, numpy scalars, Series, pandas nullable Int64 / Float64, text as object / string / categorical), container
    (arrays / table), row labelling (10 kinds), column order, branch handed over as argument / column / keyword, temperature as
    float / int / text / numpy scalar, and in a second process with another PYTHONHASHSEED — all identifiers must coincide;
  * read-only calls must not change it; a pressure unit handed over in a relative mode is not content;
  * edits: EVERY unit label is changed to EVERY other admissible value in the content's configuration (all pressure modes, all
    loading / material bases incl. fraction / percent where the unit labels are free text: None, '' ...), every metadata entry by
    type, material properties, every data column (numeric above / below the 8-decimal threshold, text), branch marks, rows added /
    removed / cells swapped, every extra column removed / renamed, every model parameter, rmse, each range end, model name and branch —
    each must change the identifier, and two different edits must not share one.
Regions added by the triage T-C05 (each was a reproduced defect of the identifier; S45-C05a..f repaired in the repository, S46 / S47 recorded in
known_findings.json and reported as KNOWN-FINDING): float32 / float16 / object-typed columns, negative zero and magnitudes below the threshold
of either sign, extra-column names on both sides of 'branch' in the sort order, twin columns (same cells, other name), model numbers as python /
numpy integers, float32, ndarray ranges; edit "two points swapped" (S46-C05: the order of the points is not hashed) and a metadata entry named
`data_hash` (S47-C05: overwritten by the hashing function).  A member whose failing case matches a known finding is left out of the pairwise
comparison with the Lean model (Props/C05/Findings.lean states both deviations).
Round 8 triage (T3-C05): branch marks handed over as ONE pandas Series whose labels are / are not those of the points (`_marks_series_section`);
the unchanged tree aligns such a Series on row labels (S63-C05, recorded; Props/C05/Findings.lean `alignMarks…`), matched only when the stored marks
are exactly the label-aligned ones.
"""
import copy
import json
import math
import os
import subprocess
import sys

from pgv import isogen
from pgv.core import REPO, import_pygaps

ROUTES = ["default", "arrays", "tuples", "numpy", "index-shift", "index-str", "index-shuffled-labels", "column-order", "branch-column", "shorthand", "material-object"]

FRAC = ("fraction", "percent")
PMODES = ["absolute", "relative", "relative%"]
LBASES = ["molar", "mass", "volume_gas", "volume_liquid", "fraction", "percent"]
MBASES = ["mass", "volume", "molar"]
# fraction / percent loading: the constructor validates neither the loading unit nor the material unit -> free text, None, ''
FREE_UNITS = [None, "", "mmol", "mol", "g", "kg", "cm3", "wt%"]
# extra data columns.  Names on BOTH sides of 'branch' in the sort order (capitals, digits, 'a…' sort before it): a table that carries its own
# 'branch' column used to be laid out [pressure, loading, sorted(others incl. 'branch')] while marks given as an argument gave
# [pressure, loading, 'branch', sorted(others)] -> two identifiers for one content (finding S45-C05c, repaired in the repository).
EXTRA_NUM = ["time", "uptake rate", "enthalpy_2", "ünï col", "z", "alpha", "Temperature cell", "2nd loading", "a"]
EXTRA_TXT = ["phase_2", "remark", "zone", "Zone", "annotation", "0 flag"]
# the entry that `isotherm_to_hash` writes into the dictionary it hashes (`raw_dict["data_hash"] = ...`, point and model isotherms)
HASH_ENTRY = "data_hash"
INDEX_KINDS = ["default", "shift", "str", "reversed", "float", "datetime", "duplicate", "multi", "negative", "named"]


# ---------------------------------------------------------------------------------------------------------------- contents
def widen(rng, c):
    """Regions of the property's domain that isogen.content leaves out (kept here: isogen is shared with C06/C07)."""
    u = c["units"]
    if u["loading_basis"] in FRAC:
        u["loading_unit"] = rng.choice(FREE_UNITS)
        if rng.random() < 0.4:
            u["material_unit"] = rng.choice([None, ""] + isogen.MAT[u["material_basis"]])
    if c["kind"] == "point":
        n = len(c["pressure"])
        if rng.random() < 0.3:
            # whole numbers everywhere: the int-literal and float-literal routes must coincide (for every column)
            c["pressure"] = [float(k + 1) for k in range(n)]
            c["loading"] = [float(2 * k) for k in range(n)]
        elif rng.random() < 0.25:
            # dyadic values: exactly representable in float32 as well
            den = rng.choice([2, 4, 8])
            c["pressure"] = [float(k + 1) / den for k in range(n)]
            c["loading"] = [rng.randint(0, 40) / den for _ in range(n)]
        if rng.random() < 0.4:
            c["extra"][rng.choice(EXTRA_NUM)] = [float(rng.randint(0, 200)) for _ in range(n)]          # whole-number floats
        if rng.random() < 0.2:
            # signed decimals with 0-10 digits; negative zero included (round(-0.3, 0) = -0.0: the same datum as 0.0 — it used to hash differently:
            # finding S45-C05b, repaired in the repository)
            c["extra"][rng.choice(EXTRA_NUM)] = [round(rng.uniform(-5, 5), rng.randint(0, 10)) for _ in range(n)]
        if rng.random() < 0.15:
            # values at and around zero in a data column: 0.0, -0.0 and magnitudes below the rounding threshold of either sign
            col = rng.choice(["loading"] + list(c["extra"]))
            tgt = c[col] if col == "loading" else c["extra"][col]
            if not isinstance(tgt[0], str):
                for r in rng.sample(range(n), min(n, rng.randint(1, 2))):
                    tgt[r] = rng.choice([0.0, -0.0, 4e-9, -4e-9, -1e-12])
        if rng.random() < 0.2:
            c["extra"][rng.choice(EXTRA_TXT)] = [rng.choice(["a", "b", "ads", "Ü", "1", "x y"]) for _ in range(n)]
        if rng.random() < 0.12:
            # two columns with the same cells under different names: only the NAME tells which quantity was recorded
            k = rng.choice(sorted(c["extra"])) if c["extra"] else None
            if k is not None:
                twin = rng.choice([x for x in (EXTRA_TXT if isinstance(c["extra"][k][0], str) else EXTRA_NUM) if x not in c["extra"]])
                c["extra"][twin] = list(c["extra"][k])
    if c["kind"] == "model" and rng.random() < 0.4:
        # model numbers that integer literals and narrower floats represent exactly (whole numbers / dyadic fractions): the int-literal,
        # numpy-integer and float32 routes must give the identifier of the float route
        m = c["model"]
        den = rng.choice([1, 1, 2, 8])
        dy = lambda x: (max(1, round(abs(x) * den)) / den) * (-1.0 if x < 0 else 1.0)          # noqa
        m["params"] = {k: dy(v) for k, v in m["params"].items()}
        m["pressure_range"] = [float(round(m["pressure_range"][0] * den)) / den, dy(m["pressure_range"][1]) + 1.0]
        m["loading_range"] = [float(round(m["loading_range"][0] * den)) / den, dy(m["loading_range"][1]) + 1.0]
        m["rmse"] = rng.choice([0.0, 1.0, 0.5, 0.125, m["rmse"]])
    if c["kind"] != "base" and rng.random() < 0.08:
        # a metadata entry under the very name the hashing function uses for the data / model entry of the hashed dictionary
        c["meta"]["data_hash"] = rng.choice(["x", "", 0, 1.5, None, True])
    return c


def _narrow_safe(np, vals, dtype):
    """Is every value exactly representable in the narrower float type?  Then the column in that type is the same content.  (The library
    used to round to 8 decimals in the column's own precision before normalising to float64: float32 31.5 hashed as 31.50000191, float16
    data as inf — findings S45-C05a, repaired in the repository.)"""
    with np.errstate(all="ignore"):
        return all(math.isfinite(float(dtype(v))) and float(dtype(v)) == float(v) for v in vals)


def _reprs(np, vals):
    """Representations in which one column of a content can be handed over without changing the content."""
    if any(isinstance(v, str) for v in vals):
        return ["list", "tuple", "np.object", "pd.string", "pd.categorical"]
    out = ["list", "tuple", "np.float64", "series", "pd.Float64", "np-scalars", "np.object"]
    if all(float(v).is_integer() for v in vals):
        out += ["list-int", "np.int64", "np.int32", "pd.Int64", "mixed", "series-int", "np.object-int"]
        if all(0 <= v < 256 for v in vals):
            out += ["np.uint8"]
        if all(abs(v) < 32000 for v in vals):
            out += ["np.int16"]
    if _narrow_safe(np, vals, np.float32):
        out += ["np.float32"]
    if _narrow_safe(np, vals, np.float16):
        out += ["np.float16"]
    return out


def _column(np, pd, how, vals):
    if how in ("list", "tuple") and any(isinstance(v, str) for v in vals):
        return list(vals) if how == "list" else tuple(vals)
    if how == "np.object" and any(isinstance(v, str) for v in vals):
        return np.array(list(vals), dtype=object)
    if how == "np.object":
        return np.array([float(v) for v in vals], dtype=object)          # python floats in an object-typed array
    if how == "np.object-int":
        return np.array([int(v) for v in vals], dtype=object)
    if how == "pd.string":
        return pd.array(list(vals), dtype="string")
    if how == "pd.categorical":
        return pd.Categorical(list(vals))
    fl = [float(v) for v in vals]
    if how == "list":
        return fl
    if how == "tuple":
        return tuple(fl)
    if how == "np-scalars":
        return [np.float64(v) for v in fl]
    if how == "series":
        return pd.Series(fl)
    if how == "pd.Float64":
        return pd.array(fl, dtype="Float64")
    if how.startswith("np.float"):
        return np.array(fl, dtype=how[3:])
    it = [int(v) for v in vals]
    if how == "list-int":
        return it
    if how == "mixed":
        return [it[i] if i % 2 else fl[i] for i in range(len(it))]
    if how == "series-int":
        return pd.Series(it)
    if how == "pd.Int64":
        return pd.array(it, dtype="Int64")
    if how.startswith("np."):
        return np.array(it, dtype=how[3:])
    raise ValueError(how)


def _num_reprs(np, vals):
    """Numeric types in which the numbers of a model can be handed over without changing them."""
    out = ["float", "np.float64"]
    if all(float(x).is_integer() and abs(x) < 2 ** 31 for x in vals):
        out += ["int", "np.int64", "np.int32", "int", "np.int64"]
    if _narrow_safe(np, vals, np.float32):
        out += ["np.float32"]
    return out


def _num(np, how, x):
    if how in ("int", "np.int64", "np.int32"):
        return {"int": int, "np.int64": np.int64, "np.int32": np.int32}[how](int(x))
    return {"float": float, "np.float64": np.float64, "np.float32": np.float32}[how](float(x))


def variant(rng, np, c):
    """A random way of handing the SAME content to the constructor (plain description, goes into the replay file)."""
    t = float(c["temperature"])
    v = {"shorthand": rng.random() < 0.3, "material": rng.choice(["as-is", "object"]),
         "temperature": rng.choice(["float", "text", "np.float64"] + (["int", "np.int64"] if t.is_integer() else []))}
    if c["kind"] == "model":
        # every number of the model (parameters, fit error, range ends) in any numeric type that holds it exactly: 2, numpy.int64(2), numpy.float32(2)
        # and 2.0 are one value (they used to give other identifiers or `TypeError: not JSON serializable`: finding S45-C05e, repaired in the repository)
        m = c["model"]
        v["params"] = rng.choice(_num_reprs(np, list(m["params"].values())))
        v["rmse"] = rng.choice(_num_reprs(np, [m["rmse"]]))
        v["range_values"] = rng.choice(_num_reprs(np, list(m["pressure_range"]) + list(m["loading_range"])))
        v["ranges"] = rng.choice(["list", "tuple", "ndarray"])
        v["param_order"] = rng.random() < 0.5
    if c["kind"] == "point":
        names = ["pressure", "loading"] + list(c["extra"])
        v["columns"] = {k: rng.choice(_reprs(np, c[k] if k in c else c["extra"][k])) for k in names}
        br = c["branch"]
        # booleans are the documented type of `branch` (they used to give another identifier than 0/1: finding S44, repaired in the repository)
        hows = ["list", "np.int8", "np.int64", "np.uint8", "np.int32", "list-float", "np.float64", "list-bool", "np.bool_"]
        if len(set(br)) == 1:
            hows += ["keyword", "keyword"]
        v["branch"] = rng.choice(hows)
        v["container"] = "arrays" if (not c["extra"] and rng.random() < 0.35) else "table"
        if v["container"] == "table":
            v["index"] = rng.choice(INDEX_KINDS)
            order = list(names)
            rng.shuffle(order)
            if v["branch"] != "keyword" and rng.random() < 0.4:
                order.insert(rng.randrange(len(order) + 1), "branch")          # the table carries the marks itself
            v["order"] = order
    return v


def build_variant(pg, c, v):
    import numpy as np
    import pandas as pd
    from pygaps.core.baseisotherm import BaseIsotherm
    mat = c["material"] if not c["material_props"] else {"name": c["material"], **c["material_props"]}
    if v["material"] == "object":
        mat = pg.Material(c["material"], **c["material_props"])
    t = float(c["temperature"])
    t = {"float": t, "text": repr(t), "np.float64": np.float64(t), "int": int(t) if t.is_integer() else t, "np.int64": np.int64(int(t)) if t.is_integer() else t}[v["temperature"]]
    common = dict(material=mat, adsorbate=c["adsorbate"], temperature=t, **c["units"], **c["meta"])
    if v["shorthand"]:
        common["m"], common["a"], common["t"] = common.pop("material"), common.pop("adsorbate"), common.pop("temperature")
    if c["kind"] == "base":
        return BaseIsotherm(**common)
    if c["kind"] == "model":
        from pygaps.modelling import get_isotherm_model
        m = c["model"]
        keys = list(m["params"])
        if v["param_order"]:
            keys = keys[::-1]
        rv = v.get("range_values", "float")
        if v["ranges"] == "ndarray":
            seq = lambda xs: np.array([float(x) for x in xs], dtype={"int": "int64", "float": "float64"}.get(rv, rv[3:]))          # noqa
        else:
            seq = lambda xs: (tuple if v["ranges"] == "tuple" else list)(_num(np, rv, x) for x in xs)          # noqa
        model = get_isotherm_model(m["name"], parameters={k: _num(np, v["params"], m["params"][k]) for k in keys}, rmse=_num(np, v.get("rmse", "float"), m["rmse"]),
                                   pressure_range=seq(m["pressure_range"]), loading_range=seq(m["loading_range"]))
        return pg.ModelIsotherm(model=model, branch=c["model_branch"], **common)
    br = c["branch"]
    if v["branch"] == "keyword":
        branch = "ads" if br[0] == 0 else "des"
    elif v["branch"] == "list":
        branch = [int(b) for b in br]
    elif v["branch"] == "list-float":
        branch = [float(b) for b in br]
    elif v["branch"] == "list-bool":
        branch = [bool(b) for b in br]
    else:
        branch = np.array(br, dtype=v["branch"][3:])
    col = lambda k: _column(np, pd, v["columns"][k], c[k] if k in c else c["extra"][k])          # noqa
    if v["container"] == "arrays":
        return pg.PointIsotherm(pressure=col("pressure"), loading=col("loading"), branch=branch, **common)
    df = pd.DataFrame({k: (branch if k == "branch" else col(k)) for k in v["order"]})
    n = len(br)
    kind = v["index"]
    if kind == "shift":
        df.index = range(7, 7 + n)
    elif kind == "str":
        df.index = [f"r{i}" for i in range(n)]
    elif kind == "reversed":
        df.index = list(reversed(range(n)))
    elif kind == "float":
        df.index = [0.5 + i for i in range(n)]
    elif kind == "datetime":
        df.index = pd.date_range("2020-01-01", periods=n)
    elif kind == "duplicate":
        df.index = [i // 2 for i in range(n)]
    elif kind == "multi":
        df.index = pd.MultiIndex.from_tuples([(i // 2, "ab"[i % 2]) for i in range(n)])
    elif kind == "negative":
        df.index = [-i for i in range(n)]
    elif kind == "named":
        df.index = pd.Index(range(n), name="point")
    if "branch" in v["order"]:
        return pg.PointIsotherm(isotherm_data=df, pressure_key="pressure", loading_key="loading", **common)
    return pg.PointIsotherm(isotherm_data=df, pressure_key="pressure", loading_key="loading", branch=branch, **common)


# row labellings of a table WITHOUT branch marks (the marks are then guessed from the pressures): the kinds of build_variant plus tables that got
# their labels through an operation (rows cut out of a longer table, every second row, two runs concatenated, rows dropped, a sort)
GUESS_LABEL_KINDS = ["shift", "str", "reversed", "float", "datetime", "duplicate", "multi", "negative", "named", "one-based", "overlap-shift", "cut-out-of-a-log",
                     "every-second-row", "concat-of-two-runs", "permuted-labels", "all-equal", "after-dropna", "categorical"]


def _relabel(pd, rng, df, kind):
    """The same rows in the same order under other row labels."""
    n = len(df)
    df = df.copy()
    if kind == "shift":
        df.index = range(7, 7 + n)
    elif kind == "str":
        df.index = [f"r{i}" for i in range(n)]
    elif kind == "reversed":
        df.index = list(reversed(range(n)))
    elif kind == "float":
        df.index = [0.5 + i for i in range(n)]
    elif kind == "datetime":
        df.index = pd.date_range("2020-01-01", periods=n)
    elif kind == "duplicate":
        df.index = [i // 2 for i in range(n)]
    elif kind == "multi":
        df.index = pd.MultiIndex.from_tuples([(i // 2, "ab"[i % 2]) for i in range(n)])
    elif kind == "negative":
        df.index = [-i for i in range(n)]
    elif kind == "named":
        df.index = pd.Index(range(n), name="point")
    elif kind == "one-based":
        df.index = range(1, n + 1)
    elif kind == "overlap-shift":
        k = rng.randrange(1, max(2, n))
        df.index = range(k, k + n)
    elif kind == "cut-out-of-a-log":
        # rows of another sample in front of / behind ours; ours selected with a boolean mask: the labels of the log stay
        a, b = rng.randrange(1, 6), rng.randrange(0, 4)
        other = pd.concat([df.iloc[[0] * a], df, df.iloc[[n - 1] * b]], ignore_index=True)
        mask = [False] * a + [True] * n + [False] * b
        df = other.loc[mask]
    elif kind == "every-second-row":
        other = df.iloc[[j // 2 for j in range(2 * n)]].reset_index(drop=True)
        df = other.iloc[::2]
    elif kind == "concat-of-two-runs":
        m = rng.randrange(1, n) if n > 1 else 0
        df = pd.concat([df.iloc[:m].reset_index(drop=True), df.iloc[m:].reset_index(drop=True)])
    elif kind == "permuted-labels":
        lab = list(range(n))
        rng.shuffle(lab)
        df.index = lab
    elif kind == "all-equal":
        df.index = [0] * n
    elif kind == "after-dropna":
        # a row with a gap in a helper column in front / in the middle, removed by dropna(): the labels keep the hole
        pos = rng.randrange(0, n + 1)
        other = pd.concat([df.iloc[:pos], df.iloc[[0]], df.iloc[pos:]], ignore_index=True)
        other["__helper"] = [float("nan") if j == pos else 1.0 for j in range(n + 1)]
        df = other.dropna(subset=["__helper"]).drop(columns="__helper")
    elif kind == "categorical":
        df.index = pd.CategoricalIndex([f"c{i}" for i in range(n)])
    else:
        raise ValueError(kind)
    assert len(df) == n
    return df


def _marks_of(pd, iso):
    return [None if pd.isna(b) else (int(b) if float(b).is_integer() else float(b)) for b in iso.data_raw["branch"].tolist()]


MARK_SERIES_LABELS = ["same as the points", "default", "shift", "str", "permuted", "overlap-shift"]


def _marks_series_section(ck, pg, pd, rng, i, gsig, base, cols, marks, common, kw, ref, idr, detail):
    """The branch marks handed over as ONE pandas Series (list-like, "iterable" in the constructor's documentation) beside a table / two point Series /
    two lists: the same marks in the same order are the same content whatever row labels the Series or the points carry (clause "any row labelling",
    "lists, arrays or tables").  Reference: the same marks as a list (tied to the guessing route by the caller).
    Finding S63-C05 (unchanged tree): `self.data_raw['branch'] = <Series>` aligns the Series on row labels; the signature gets
    `cause = "marks Series aligned on the row labels of the points"` ONLY when the stored marks are exactly what that alignment gives
    (prediction: the marks Series assigned into an empty frame with the labels of the points); anything else stays a violation."""
    import numpy as np
    n = len(marks)
    for rep in range(3):
        tkind = rng.choice(["default", "default"] + GUESS_LABEL_KINDS)
        skind = rng.choice(MARK_SERIES_LABELS)
        dtype = rng.choice(["int64", "float64", "bool", "int8"])
        points = rng.choice(["table", "table", "two Series", "lists"])
        df = base if tkind == "default" else _relabel(pd, rng, base, tkind)
        if points == "lists":
            tkind, df = "default", base
        if skind == "same as the points":
            sidx = df.index
        elif skind == "default":
            sidx = pd.RangeIndex(n)
        elif skind == "shift":
            sidx = pd.RangeIndex(7, 7 + n)
        elif skind == "str":
            sidx = pd.Index([f"r{j}" for j in range(n)])
        elif skind == "permuted":
            lab = list(range(n))
            rng.shuffle(lab)
            sidx = pd.Index(lab)
        else:
            k = rng.randrange(1, max(2, n))
            sidx = pd.RangeIndex(k, k + n)
        vals = [bool(m) for m in marks] if dtype == "bool" else [int(m) for m in marks]
        ser = pd.Series(np.array(vals, dtype=dtype), index=sidx)
        ssig = {**gsig, "route": "branch marks handed over as a pandas Series", "labels": tkind, "mark_labels": skind, "container": points + " + marks Series"}
        sdet = lambda **k: detail(row_labels=[str(x) for x in df.index.tolist()][:40], mark_labels=[str(x) for x in sidx.tolist()][:40], mark_dtype=dtype, **k)          # noqa
        # what an alignment on labels would store (classification of the known finding only)
        try:
            tmp = pd.DataFrame(index=(df.index if points != "lists" else pd.RangeIndex(n)))
            tmp["branch"] = ser
            aligned = [None if pd.isna(b) else int(b) for b in tmp["branch"].tolist()]
        except Exception:  # noqa
            aligned = None
        try:
            if points == "table":
                other = pg.PointIsotherm(isotherm_data=df, branch=ser, **kw, **common)
            elif points == "two Series":
                if list(base.columns) != ["pressure", "loading"]:
                    continue
                other = pg.PointIsotherm(pressure=df["pressure"], loading=df["loading"], branch=ser, **common)
            else:
                if list(base.columns) != ["pressure", "loading"]:
                    continue
                other = pg.PointIsotherm(pressure=list(cols["pressure"]), loading=list(cols["loading"]), branch=ser, **common)
            oid, om = other.iso_id, _marks_of(pd, other)
            eq = (other == ref) and (ref == other)
        except Exception as e:  # noqa
            ck.fail_case({**ssig, "clause": "route refused"}, sdet(error=repr(e)[:300]))
            continue
        ck.count(("marks-series", tkind, skind, points, i, rep), bucket="route:marks as a pandas Series:" + ("its labels = the labels of the points" if list(sidx) == list(df.index) else "other labels than the points"))
        if list(ser.index) != list(sidx) or ser.tolist() != vals:
            ck.fail_case({**ssig, "clause": "the caller's marks Series is unchanged"}, sdet())
        if oid != idr or not eq or om != marks:
            if aligned is not None and om == aligned and aligned != marks:
                ssig["cause"] = "marks Series aligned on the row labels of the points"
            ck.fail_case({**ssig, "clause": "same content, different identifier" if oid != idr else ("same identifier, but == says different" if not eq else "same points, other marks stored")},
                         sdet(ids=[idr, oid], marks_handed_over=vals, marks_stored=om, marks_if_aligned_on_labels=aligned))


def _guessed_marks_section(ck, pg, c, i, sig):
    """Clause "any row labelling" for inputs WITHOUT branch marks (round 8, C05-m2: all routes above hand the marks over — as argument, column or keyword —
    so the guessing path `PointIsotherm(branch='guess')` (the default) / `ModelIsotherm(isotherm_data=<no branch column>)` never met a table whose
    row labels are not 0..n-1).  The marks are a function of the SEQUENCE of pressures; the reference is the same tree on plain lists / the table with
    default labels, tied to the explicit-marks routes by `explicit marks = the guessed ones -> same identifier`."""
    # Marks handed over as a pandas Series: see `_marks_series_section` (finding S63-C05: a Series whose labels differ from the table's is aligned on labels).
    import pandas as pd
    rng = ck.rng
    mat = c["material"] if not c["material_props"] else {"name": c["material"], **c["material_props"]}
    common = dict(material=mat, adsorbate=c["adsorbate"], temperature=c["temperature"], **c["units"], **c["meta"])
    names = ["pressure", "loading"] + list(c["extra"])
    cols = {k: list(c[k] if k in c else c["extra"][k]) for k in names}
    n = len(cols["pressure"])
    order = list(range(n))
    layout = "as generated"
    r = rng.random()
    if r < 0.2 and n > 2:
        # the pressure maximum anywhere (also first / last / repeated): rows permuted jointly
        rng.shuffle(order)
        layout = "rows permuted"
    elif r < 0.3 and n > 2:
        k = rng.randrange(1, n)
        order = order[k:] + order[:k]
        layout = "rows rotated"
    elif r < 0.75 and n > 2:
        # a measured loop: up to the pressure maximum, then some of the points on the way down
        fin = lambda j: cols["pressure"][j] if cols["pressure"][j] == cols["pressure"][j] else -1.0          # noqa
        up = sorted(order, key=fin)
        tail = sorted(rng.sample(up[:-1], rng.randrange(1, n - 1)), key=fin, reverse=True)
        order = [j for j in up if j not in tail] + tail
        layout = "rows up then down"
    cols = {k: [v[j] for j in order] for k, v in cols.items()}
    base = pd.DataFrame(cols)
    kw = dict(pressure_key="pressure", loading_key="loading")
    gsig = {**sig, "route": "branch marks guessed"}
    try:
        ref = pg.PointIsotherm(isotherm_data=base, **kw, **common)
        idr = ref.iso_id
        marks = _marks_of(pd, ref)
    except Exception as e:  # noqa
        ck.fail_case({**gsig, "clause": "route refused", "labels": "default"}, {"error": repr(e)[:300], "pressure": cols["pressure"], "content": c6full(c)})
        return
    ck.count(("guess-ref", i), bucket="route:guessed marks:reference (" + layout + "; " + ("both branches" if len(set(marks)) > 1 else "one branch") + ")")
    detail = lambda **k: {"pressure": cols["pressure"], "loading": cols["loading"], "marks_with_default_labels": marks, "content": c6full(c), **k}          # noqa
    if any(m not in (0, 1) for m in marks):
        ck.fail_case({**gsig, "clause": "guessed marks are 0 / 1 for every point", "labels": "default"}, detail())
        return
    # explicit marks equal to the guessed ones: one content
    try:
        ex = pg.PointIsotherm(isotherm_data=base, branch=list(marks), **kw, **common)
        ck.count(("guess-explicit", i), bucket="route:guessed marks = the same marks handed over")
        if ex.iso_id != idr or not (ex == ref):
            ck.fail_case({**gsig, "clause": "same content, different identifier", "labels": "default", "against": "the same marks handed over as a list"}, detail(ids=[idr, ex.iso_id], marks=_marks_of(pd, ex)))
    except Exception as e:  # noqa
        ck.fail_case({**gsig, "clause": "route refused", "labels": "default", "against": "the same marks handed over as a list"}, detail(error=repr(e)[:300]))

    _marks_series_section(ck, pg, pd, rng, i, gsig, base, cols, marks, common, kw, ref, idr, detail)

    def same(other, labels, container, lab=None, ref=ref, idr=idr):
        try:
            oid, om = other.iso_id, _marks_of(pd, other)
            eq = (other == ref) and (ref == other)
        except Exception as e:  # noqa
            ck.fail_case({**gsig, "clause": "route refused", "labels": labels, "container": container, "step": "identifier / =="}, detail(error=repr(e)[:300], row_labels=lab))
            return
        if oid != idr or not eq or om != marks:
            ck.fail_case({**gsig, "clause": "same content, different identifier" if oid != idr else ("same identifier, but == says different" if not eq else "same points, other guessed marks"),
                          "labels": labels, "container": container}, detail(ids=[idr, oid], marks=om, row_labels=lab))

    # the two point columns alone (lists): reference of the containers that cannot carry extra columns
    try:
        ref2 = pg.PointIsotherm(pressure=list(cols["pressure"]), loading=list(cols["loading"]), **common)
        id2 = ref2.iso_id
        if _marks_of(pd, ref2) != marks or (not c["extra"] and id2 != idr):
            ck.fail_case({**gsig, "clause": "same points, other guessed marks" if c["extra"] else "same content, different identifier", "labels": "none", "container": "lists"}, detail(ids=[idr, id2], marks=_marks_of(pd, ref2)))
            ref2 = None
    except Exception as e:  # noqa
        ck.fail_case({**gsig, "clause": "route refused", "labels": "none", "container": "lists"}, detail(error=repr(e)[:300]))
        ref2 = None
    kinds = GUESS_LABEL_KINDS if ck.tier == "thorough" or i % 4 == 0 else rng.sample(GUESS_LABEL_KINDS, 6)
    for kind in kinds:
        df = _relabel(pd, rng, base, kind)
        lab = [str(x) for x in df.index.tolist()][:40]
        how = rng.choice(["default", "keyword guess", "from_isotherm", "column order"])
        try:
            if how == "from_isotherm":
                other = pg.PointIsotherm.from_isotherm(ref, isotherm_data=df, **kw)
            elif how == "column order":
                other = pg.PointIsotherm(isotherm_data=df[list(reversed(df.columns))], **kw, **common)
            elif how == "keyword guess":
                other = pg.PointIsotherm(isotherm_data=df, branch="guess", **kw, **common)
            else:
                other = pg.PointIsotherm(isotherm_data=df, **kw, **common)
        except Exception as e:  # noqa
            ck.fail_case({**gsig, "clause": "route refused", "labels": kind, "container": "table/" + how}, detail(error=repr(e)[:300], row_labels=lab))
            continue
        ck.count(("guess-table", kind, how, i), bucket="route:guessed marks:table labels " + kind)
        same(other, kind, "table/" + how, lab)
        # the caller's table is not touched (no branch column written into it)
        if "branch" in df.columns:
            ck.fail_case({**gsig, "clause": "the caller's table is unchanged", "labels": kind, "container": "table/" + how}, detail(row_labels=lab))
        if ref2 is not None and rng.random() < 0.5:
            # pressure / loading as pandas Series that carry the labels
            try:
                other = pg.PointIsotherm(pressure=df["pressure"], loading=df["loading"], **common)
            except Exception as e:  # noqa
                ck.fail_case({**gsig, "clause": "route refused", "labels": kind, "container": "two Series"}, detail(error=repr(e)[:300], row_labels=lab))
                continue
            ck.count(("guess-series", kind, i), bucket="route:guessed marks:Series labels " + kind)
            same(other, kind, "two Series", lab, ref2, id2)
    if ref2 is not None:
        for cont, mk in (("tuples", tuple), ("ndarrays", lambda xs: __import__("numpy").array(xs, dtype=float))):
            try:
                other = pg.PointIsotherm(pressure=mk(cols["pressure"]), loading=mk(cols["loading"]), **common)
            except Exception as e:  # noqa
                ck.fail_case({**gsig, "clause": "route refused", "labels": "none", "container": cont}, detail(error=repr(e)[:300]))
                continue
            ck.count(("guess-arrays", cont, i), bucket="route:guessed marks:" + cont)
            same(other, "none", cont, None, ref2, id2)
    # model isotherms fitted to one guessed branch of such a table: the same points -> the same fit -> the same identifier
    if i % 2 == 0 and not any(x != x for x in cols["pressure"] + cols["loading"]):
        for mb in (["ads"] if 0 in marks else []) + (["des"] if 1 in marks else []):
            try:
                mref = pg.ModelIsotherm(isotherm_data=base, model="Henry", branch=mb, **kw, **common)
                mid, mpar = mref.iso_id, dict(mref.model.params)
            except Exception:  # noqa
                ck.count(("guess-model-refused", i, mb), nontrivial=False, bucket="route:guessed marks:model fit refused on the default labels")
                continue
            for kind in rng.sample(GUESS_LABEL_KINDS, 3):
                df = _relabel(pd, rng, base, kind)
                lab = [str(x) for x in df.index.tolist()][:40]
                msig = {**gsig, "class": "model", "labels": kind, "container": "table -> ModelIsotherm(Henry, " + mb + ")"}
                try:
                    other = pg.ModelIsotherm(isotherm_data=df, model="Henry", branch=mb, **kw, **common)
                    oid, opar = other.iso_id, dict(other.model.params)
                except Exception as e:  # noqa
                    ck.fail_case({**msig, "clause": "route refused"}, detail(error=repr(e)[:300], row_labels=lab, model_on_default_labels=mpar))
                    continue
                ck.count(("guess-model", kind, mb, i), bucket="route:guessed marks:model fitted from a table, labels " + kind)
                if oid != mid or repr(opar) != repr(mpar) or not (other == mref):
                    ck.fail_case({**msig, "clause": "same content, different identifier"}, detail(ids=[mid, oid], row_labels=lab, params=[mpar, opar]))


def shrink_variant(pg, c, v, id0):
    """Reset one component of a failing representation after the other to the plain one (python float lists, 0/1 int list as argument,
    default row labels, natural column order ...) as long as the identifier still differs: what is left is what matters."""
    v = json.loads(json.dumps(v))
    names = ["pressure", "loading"] + list(c.get("extra", {}))
    plain = [("shorthand", False), ("material", "as-is"), ("temperature", "float"), ("params", "float"), ("rmse", "float"), ("range_values", "float"), ("ranges", "list"), ("param_order", False),
             ("index", "default"), ("order", names), ("branch", "list"), ("container", "table")]

    def differs(w):
        try:
            return build_variant(pg, c, w).iso_id != id0
        except Exception:
            return False
    for key, val in plain:
        if key in v and v[key] != val:
            w = dict(v, **{key: val})
            if key == "container":
                w.setdefault("index", "default")
                w.setdefault("order", names)
            if key == "branch" and "branch" in w.get("order", []) and val == "keyword":
                continue
            if differs(w):
                v = w
    for col in list(v.get("columns", {})):
        if v["columns"][col] != "list":
            w = dict(v, columns=dict(v["columns"], **{col: "list"}))
            if differs(w):
                v = w
    out = {k: val for k, val in v.items() if k != "columns" and dict(plain).get(k, None) != val}
    out["columns"] = {k: h for k, h in v.get("columns", {}).items() if h != "list"}
    return out


# ---------------------------------------------------------------------------------------------------------------- edits
def _up(x):
    """The next float above x (a one-ulp change)."""
    return math.nextafter(float(x), math.inf)


def _unit_for(rng, pool, current):
    return current if current in pool else rng.choice(pool)


def label_edits(rng, c):
    """Every label -> every other admissible value in this configuration (the constructor must accept the result)."""
    u = c["units"]
    out = []

    def put(name, **kw):
        out.append((name, kw))
    frac = u["loading_basis"] in FRAC
    # pressure mode / unit
    for m in PMODES:
        if m != u["pressure_mode"]:
            if m == "absolute":
                put(f"pressure_mode -> {m}", pressure_mode=m, pressure_unit=rng.choice(isogen.PA))
            else:
                put(f"pressure_mode -> {m}", pressure_mode=m)
    if u["pressure_mode"] == "absolute":
        for x in isogen.PA:
            if x != u["pressure_unit"]:
                put(f"pressure_unit -> {x}", pressure_unit=x)
    # loading basis / unit
    for b in LBASES:
        if b != u["loading_basis"]:
            if b in FRAC:
                put(f"loading_basis -> {b}", loading_basis=b)                      # the unit label stays: a single-label edit
            else:
                kw = dict(loading_basis=b, loading_unit=_unit_for(rng, isogen.LOAD[b], u["loading_unit"]))
                if frac:
                    kw["material_unit"] = _unit_for(rng, isogen.MAT[u["material_basis"]], u["material_unit"])
                put(f"loading_basis -> {b}", **kw)
    for x in (FREE_UNITS if frac else isogen.LOAD[u["loading_basis"]]):
        if x != u["loading_unit"]:
            put(f"loading_unit -> {x!r}", loading_unit=x)
    # material basis / unit
    for b in MBASES:
        if b != u["material_basis"]:
            put(f"material_basis -> {b}", material_basis=b, material_unit=u["material_unit"] if frac else _unit_for(rng, isogen.MAT[b], u["material_unit"]))
    for x in (isogen.MAT[u["material_basis"]] + ([None, ""] if frac else [])):
        if x != u["material_unit"]:
            put(f"material_unit -> {x!r}", material_unit=x)
    put("temperature_unit", temperature_unit="K" if u["temperature_unit"] != "K" else "°C")
    return out


def value_edits(v):
    """Minimal changes of one metadata value, by type: [(name, new value)]."""
    if isinstance(v, bool):
        return [("bool flipped", not v), ("bool -> int", int(v)), ("bool -> text", str(v))]
    if isinstance(v, int):
        return [("int + 1", v + 1), ("int -> text", str(v)), ("int negated", -v if v else 1)]
    if isinstance(v, float):
        out = [("float -> text", repr(v))]
        if math.isfinite(v) and v < 1e308:
            out.append(("float + 1 ulp", _up(v)))
        if v != 0:
            out.append(("float x (1+1e-9)", v * (1 + 1e-9)) if abs(v) < 1e308 and abs(v) > 1e-300 else ("float -> 1.0", 1.0 if v != 1.0 else 2.0))
        return out
    if v is None:
        return [("None -> 'None'", "None"), ("None -> False", False), ("None -> 0", 0), ("None -> ''", "")]
    if isinstance(v, str):
        out = [("text + blank", v + " "), ("text -> other", "changed" if v != "changed" else "changed2")]
        if v.swapcase() != v:
            out.append(("text case", v.swapcase()))
        if v:
            out.append(("text -> ''", ""))
        return out
    if isinstance(v, list):
        out = [("list + element", v + [0]), ("list -> None", None)]
        if v:
            out.append(("list - element", v[:-1]))
            out.append(("list first element", ["zz" if v[0] != "zz" else "zy"] + v[1:]))
            if v[::-1] != v:
                out.append(("list reversed", v[::-1]))
        return out
    return [("value -> text", "changed")]


def edits(rng, c, quick=True):
    """Single-field edits of a content, each of which must change the identifier: [(name, edited content)]."""
    out = []

    def ed(name, f, **tag):
        d = copy.deepcopy(c)
        f(d)
        out.append((name, d, tag))
    ed("temperature", lambda d: d.__setitem__("temperature", d["temperature"] + 0.5))
    ed("temperature + 1 ulp", lambda d: d.__setitem__("temperature", _up(d["temperature"])))
    for gas in ["helium", "methane", "pgv_other_gas"][: (1 if quick else 3)]:
        ed("adsorbate", lambda d: d.__setitem__("adsorbate", gas))
    ed("material", lambda d: d.__setitem__("material", d["material"] + "_b"))
    ed("material case", lambda d: d.__setitem__("material", d["material"].swapcase()))
    if c["material_props"]:
        ed("material property value", lambda d: d["material_props"].__setitem__("density", _up(d["material_props"]["density"])))
        ed("material property text", lambda d: d["material_props"].__setitem__("batch", d["material_props"]["batch"] + "x"))
        ed("material property removed", lambda d: d["material_props"].pop("batch"))
    ed("material property added", lambda d: d["material_props"].__setitem__("pgv_prop", 1.5))
    for name, kw in label_edits(rng, c):
        ed("label: " + name, lambda d: d["units"].update(kw))
    ed("metadata added", lambda d: d["meta"].__setitem__("extra_key_zz", 1))
    ed("metadata added (None)", lambda d: d["meta"].__setitem__("extra_key_zz", None))
    if HASH_ENTRY not in c["meta"] and rng.random() < 0.25:
        ed("metadata added", lambda d: d["meta"].__setitem__(HASH_ENTRY, "x"), **({"metadata_key": HASH_ENTRY} if c["kind"] != "base" else {}))
    for k in sorted(c["meta"], key=str):
        v = c["meta"][k]
        # the key goes into the signature where it is the name of the hashing function's own entry (an input class of its own: known finding S47-C05)
        tag = {"metadata_key": k} if (k == HASH_ENTRY and c["kind"] != "base") else {}          # (a metadata-only isotherm has no data entry: nothing is overwritten there)
        for name, w in value_edits(v):
            ed(f"metadata value ({type(v).__name__}): {name}", lambda d: d["meta"].__setitem__(k, w), **tag)
        ed("metadata removed", lambda d: d["meta"].pop(k), **tag)
        if k + "_" not in c["meta"] and k + "_" not in isogen.RESERVED:
            ed("metadata key renamed", lambda d: d["meta"].__setitem__(k + "_", d["meta"].pop(k)))
    if c["kind"] == "point":
        n = len(c["pressure"])
        i = rng.randrange(n)
        ed("datum +2e-8", lambda d: d["loading"].__setitem__(i, d["loading"][i] + 2e-8 * max(1.0, abs(d["loading"][i]))))
        ed("datum -2e-8", lambda d: d["loading"].__setitem__(i, d["loading"][i] - 2e-8 * max(1.0, abs(d["loading"][i]))))
        ed("pressure +1e-6", lambda d: d["pressure"].__setitem__(i, d["pressure"][i] * (1 + 1e-6) + 1e-7))
        ed("pressure +2e-8", lambda d: d["pressure"].__setitem__(i, d["pressure"][i] + 2e-8 * max(1.0, abs(d["pressure"][i]))))
        ed("branch mark", lambda d: d["branch"].__setitem__(i, 1 - d["branch"][i]))
        if n > 1:
            ed("point removed", lambda d: [d[k].pop() for k in ("pressure", "loading", "branch")] + [v.pop() for v in d["extra"].values()])
            j = rng.randrange(n)
            if c["loading"][i] != c["loading"][j]:
                ed("two loadings swapped", lambda d: (d["loading"].__setitem__(i, c["loading"][j]), d["loading"].__setitem__(j, c["loading"][i])))
        ed("point repeated", lambda d: [d[k].append(d[k][-1]) for k in ("pressure", "loading", "branch")] + [v.append(v[-1]) for v in d["extra"].values()])
        for k in sorted(c["extra"]):
            r = rng.randrange(n)
            if isinstance(c["extra"][k][r], str):
                ed("extra column value (text)", lambda d: d["extra"][k].__setitem__(r, d["extra"][k][r] + "z"))
                ed("extra column value (text case)", lambda d: d["extra"][k].__setitem__(r, d["extra"][k][r].swapcase() if d["extra"][k][r].swapcase() != d["extra"][k][r] else "Q"))
            else:
                ed("extra column value +1", lambda d: d["extra"][k].__setitem__(r, d["extra"][k][r] + 1))
                ed("extra column value +2e-8", lambda d: d["extra"][k].__setitem__(r, float(d["extra"][k][r]) + 2e-8 * max(1.0, abs(d["extra"][k][r]))))
        for kdel in sorted(c["extra"]):
            # the NAME of an extra column is content (which quantity was recorded): every column is removed in turn — two of them may hold the same
            # cells — and renamed (the names used not to be part of the identifier: finding S45-C05d, repaired in the repository)
            ed("extra column removed", lambda d: d["extra"].pop(kdel))
            knew = kdel + " (2)" if rng.random() < 0.5 else ("A " + kdel)
            if knew not in c["extra"]:
                ed("extra column renamed", lambda d: d["extra"].__setitem__(knew, d["extra"].pop(kdel)))
        if n > 1:
            # the ORDER of the points is content (`pressure()`, `loading()`, `data()` return them in it): two whole points exchanged
            a, b = rng.sample(range(n), 2)
            row = lambda d, r: [d["pressure"][r], d["loading"][r], d["branch"][r]] + [d["extra"][k][r] for k in sorted(d["extra"])]          # noqa
            if row(c, a) != row(c, b):
                def swap(d):
                    for col in [d["pressure"], d["loading"], d["branch"]] + list(d["extra"].values()):
                        col[a], col[b] = col[b], col[a]
                ed("two points swapped", swap)
        if "pgv_col" not in c["extra"]:
            ed("extra column added", lambda d: d["extra"].__setitem__("pgv_col", [0.0] * n))
    if c["kind"] == "model":
        for p in sorted(c["model"]["params"]):
            ed("model parameter", lambda d: d["model"]["params"].__setitem__(p, d["model"]["params"][p] * (1 + 1e-9) + 1e-12))
            ed("model parameter + 1 ulp", lambda d: d["model"]["params"].__setitem__(p, _up(d["model"]["params"][p])))
        p0 = sorted(c["model"]["params"])[0]
        ed("model parameter (small magnitude)", lambda d: d["model"]["params"].__setitem__(p0, 2e-9 if d["model"]["params"][p0] != 2e-9 else 4e-9))
        ed("model rmse", lambda d: d["model"].__setitem__("rmse", d["model"]["rmse"] + 1e-6))
        ed("model rmse + 1 ulp", lambda d: d["model"].__setitem__("rmse", _up(d["model"]["rmse"])))
        for rk in ("pressure_range", "loading_range"):
            for e in (0, 1):
                ed(f"model {rk}[{e}]", lambda d: d["model"][rk].__setitem__(e, d["model"][rk][e] + 0.01))
                ed(f"model {rk}[{e}] + 1 ulp", lambda d: d["model"][rk].__setitem__(e, _up(d["model"][rk][e])))
        ed("model name", lambda d: d["model"].__setitem__("name", "Henry" if d["model"]["name"] != "Henry" else "Langmuir") or d["model"].__setitem__("params", {"K": 1.0} if d["model"]["name"] == "Henry" else {"K": 1.0, "n_m": 1.0}))
        ed("model branch", lambda d: d.__setitem__("model_branch", "des" if d["model_branch"] == "ads" else "ads"))
    return out


def _really_changes_rounded(c, d):
    """For edits near the rounding threshold: does the edit change a value as rounded to 8 decimals (numpy's rounding)?"""
    import numpy as np
    for k in ["pressure", "loading"]:
        if len(c[k]) != len(d[k]) or any(float(np.round(a, 8)) != float(np.round(b, 8)) for a, b in zip(c[k], d[k])):
            return True
    if set(c["extra"]) != set(d["extra"]) or c["branch"] != d["branch"]:
        return True
    for k in c["extra"]:
        for a, b in zip(c["extra"][k], d["extra"][k]):
            if isinstance(a, str) or isinstance(b, str):
                if a != b:
                    return True
            elif float(np.round(float(a), 8)) != float(np.round(float(b), 8)):
                return True
    return False


# ---------------------------------------------------------------------------------------------------------------- the check
def run(ck):
    pg = import_pygaps()
    import numpy as np
    from pygaps.parsing.json import isotherm_from_json, isotherm_to_json
    rng = ck.rng
    quick = ck.tier != "thorough"
    n = ck.n(90, 600)
    n_var = ck.n(6, 12)
    # at most three replay files per signature (a systematic defect otherwise writes hundreds of equal ones); every further one is counted
    _fail, _per_sig = ck.fail_case, {}

    def fail_case(sig, detail):
        key = json.dumps(sig, sort_keys=True, default=str)
        _per_sig[key] = _per_sig.get(key, 0) + 1
        if _per_sig[key] <= 3:
            return _fail(sig, detail)
        return False
    ck.fail_case = fail_case
    n_shrunk = [0]
    lines, plan = [], []          # driver requests; plan[k] = (identifier, family, member name, has_description)
    second = []                   # (content json, id) to be rebuilt in another process

    def member(iso, iid, i, name, desc=None):
        lines.append("canon " + json.dumps(_canon_input(pg, iso)))
        if desc is not None:
            lines.append("canonc " + json.dumps(_content_input(pg, desc, iso)))
        plan.append((iid, i, name, desc is not None))

    for i in range(n):
        c = widen(rng, isogen.content(rng))
        try:
            iso = isogen.build(pg, c)
        except Exception:
            ck.count(("build-refused", i), nontrivial=False, bucket="construction refused")
            continue
        id0 = iso.iso_id
        sig = {"class": c["kind"]}
        cfg = {"pressure_mode": c["units"]["pressure_mode"], "loading_basis": c["units"]["loading_basis"], "material_basis": c["units"]["material_basis"]}
        # ---------------------------------------------------------------- routes
        for route in ROUTES:
            if c["kind"] != "point" and route not in ("default", "shorthand", "material-object"):
                continue
            try:
                other = isogen.build(pg, c, route)
            except Exception as e:  # noqa
                ck.fail_case({**sig, "clause": "route refused", "route": route}, {"error": repr(e)[:200]})
                continue
            ck.count(("route", route, i), bucket="route:" + route, sample={"route": route, "id": id0, "content": c6short(c)} if (i % 37 == 0 and route == "index-shift") else None)
            if other.iso_id != id0 or not (other == iso):
                ck.fail_case({**sig, "clause": "same content, different identifier", "route": route}, {"ids": [id0, other.iso_id], "content": c6short(c)})
        if c["kind"] == "point" and all(float(x).is_integer() for x in c["pressure"] + c["loading"]):
            ci = copy.deepcopy(c)
            ci["pressure"] = [int(x) for x in c["pressure"]]
            ci["loading"] = [int(x) for x in c["loading"]]
            for route in ("default", "numpy", "arrays"):
                other = isogen.build(pg, ci, route)
                ck.count(("int-literals", route, i), bucket="route:int-literals")
                if other.iso_id != id0:
                    ck.fail_case({**sig, "clause": "same content, different identifier", "route": "integer literals/" + route}, {"ids": [id0, other.iso_id]})
        # random representation of every column / container / row labels / column order / branch hand-over / temperature type
        for k in range(n_var):
            v = variant(rng, np, c)
            try:
                other = build_variant(pg, c, v)
            except Exception as e:  # noqa
                ck.fail_case({**sig, "clause": "route refused", "route": "representation"}, {"error": repr(e)[:300], "representation": v, "content": c6full(c)})
                continue
            ck.count(("variant", i, k, json.dumps(v, sort_keys=True, default=str)), bucket="route:random representation")
            for col, how in (v.get("columns") or {}).items():
                ck.count(("variant-col", how, col in ("pressure", "loading")), nontrivial=False,
                         bucket="representation:" + ("point column" if col in ("pressure", "loading") else "extra column") + ":" + how)
            if "branch" in v:
                ck.count(("variant-branch", v["branch"]), nontrivial=False, bucket="representation:branch:" + v["branch"] + ("/in table" if "branch" in v.get("order", []) else ""))
            try:
                oid = other.iso_id
                _ = other == iso
            except Exception as e:  # noqa
                ck.fail_case({**sig, "clause": "route refused", "route": "representation", "step": "identifier / =="}, {"error": repr(e)[:300], "representation": v, "content": c6full(c)})
                continue
            # `==` costs two more identifier computations: always for the cheap classes, for the first representations of a point isotherm
            if oid != id0 or ((c["kind"] != "point" or k < 2) and (not (other == iso) or not (iso == other))):
                sg = {**sig, "clause": "same content, different identifier", "route": "representation"}
                small = None
                if n_shrunk[0] < 12:
                    # the first failures of a run are reduced to the components that matter; these name the cause in the signature
                    n_shrunk[0] += 1
                    small = shrink_variant(pg, c, v, id0)
                    sg["differs_through"] = sorted([("point column:" if col in ("pressure", "loading") else "extra column:") + how for col, how in small["columns"].items()]
                                                   + [f"{key}:{val}" for key, val in small.items() if key not in ("columns", "order")] + (["column order"] if "order" in small else []))
                    if not sg["differs_through"]:
                        sg["differs_through"] = ["plain float lists vs the default route (integer literals of the content kept as integers)"]
                ck.fail_case(sg, {"ids": [id0, oid], "representation": v, "smallest_representation_that_still_differs_from_plain_float_lists": small, "content": c6full(c)})
            if k < 2:
                member(other, oid, i, "representation " + json.dumps(v, sort_keys=True, default=str)[:200])
        # a parent isotherm as template
        if c["kind"] == "point":
            try:
                import pandas as pd
                from pygaps.core.baseisotherm import BaseIsotherm
                base = BaseIsotherm(material=c["material"] if not c["material_props"] else {"name": c["material"], **c["material_props"]},
                                    adsorbate=c["adsorbate"], temperature=c["temperature"], **c["units"], **c["meta"])
                df = pd.DataFrame({"pressure": c["pressure"], "loading": c["loading"], **c["extra"], "branch": c["branch"]})
                other = pg.PointIsotherm.from_isotherm(base, isotherm_data=df, pressure_key="pressure", loading_key="loading")
                ck.count(("from_isotherm", i), bucket="route:from_isotherm")
                if other.iso_id != id0:
                    ck.fail_case({**sig, "clause": "same content, different identifier", "route": "from_isotherm"}, {"ids": [id0, other.iso_id], "content": c6full(c)})
            except Exception as e:  # noqa
                ck.fail_case({**sig, "clause": "route refused", "route": "from_isotherm"}, {"error": repr(e)[:200], "content": c6full(c)})
        # the branch marks are GUESSED (no marks handed over): the same points under any row labelling, container, slicing history; models fitted from such tables
        if c["kind"] == "point":
            _guessed_marks_section(ck, pg, c, i, sig)
        # a pressure unit handed over in a relative mode is not stored, hence not content (Props/C05/Labels.pressure_unit_not_stored_when_relative)
        if c["units"]["pressure_mode"] != "absolute":
            d = copy.deepcopy(c)
            d["units"]["pressure_unit"] = rng.choice(isogen.PA)
            try:
                other = isogen.build(pg, d)
                ck.count(("relative-punit", i), bucket="route:pressure unit given in a relative mode")
                if other.iso_id != id0:
                    ck.fail_case({**sig, "clause": "same content, different identifier", "route": "pressure unit given in a relative mode"}, {"ids": [id0, other.iso_id], "units": d["units"]})
            except Exception as e:  # noqa
                ck.fail_case({**sig, "clause": "route refused", "route": "pressure unit given in a relative mode"}, {"error": repr(e)[:200]})
        # JSON re-parse
        try:
            rj = isotherm_from_json(isotherm_to_json(iso))
            ck.count(("json", i), bucket="route:json")
            gd = False
            if c["kind"] == "point" and not any(c["branch"]):
                gd = any(b > a for a, b in zip(c["pressure"][1:], c["pressure"][:-1]))
            if rj.iso_id != id0:
                ck.fail_case({**sig, "clause": "same content, different identifier", "route": "parse of an export", "all_ads_marks_but_guess_differs": gd}, {"ids": [id0, rj.iso_id], "content": c6full(c)})
            elif not (rj == iso) or not (iso == rj) or (rj != iso):
                # `==` is the identifier comparison and nothing finer (round 6, C05-m11: a dictionary comparison put in front of it
                # separates a tuple from the list it is exported as, and one NaN object from another)
                ck.fail_case({**sig, "clause": "same identifier, but == says different", "route": "parse of an export"}, {"ids": [id0, rj.iso_id], "content": c6full(c)})
            # metadata values whose Python comparison is finer than their exported text: a tuple (exported as a list) and NaN
            # (every NaN object differs from every other); built twice from the same literals and re-parsed
            if i % 4 == 0:
                for label, mk in (("tuple", lambda: (1, 2.5, "x")), ("nan", lambda: float("nan")), ("nested tuple", lambda: [(1, 2), 3])):
                    a = isogen.build(pg, c); b = isogen.build(pg, c)
                    a.properties = dict(a.properties, odd_value=mk())
                    b.properties = dict(b.properties, odd_value=mk())
                    ck.count(("odd-meta", label, i), bucket="route:metadata value finer than its export (" + label + ")")
                    try:
                        rb = isotherm_from_json(isotherm_to_json(a))
                        same = [a.iso_id == b.iso_id, a == b, b == a, rb.iso_id == a.iso_id, rb == a, a == rb]
                    except Exception as e:  # noqa
                        ck.fail_case({**sig, "clause": "route refused", "route": "metadata value " + label}, {"error": repr(e)[:200]})
                        continue
                    if not (same[0] == same[1] == same[2]) or not (same[3] == same[4] == same[5]):
                        ck.fail_case({**sig, "clause": "same identifier, but == says different", "route": "metadata value " + label},
                                     {"[id a=b, a==b, b==a, id parse=a, parse==a, a==parse]": same, "content": c6short(c)})
        except Exception as e:  # noqa
            ck.fail_case({**sig, "clause": "route refused", "route": "json"}, {"error": repr(e)[:200]})
        # ---------------------------------------------------------------- reads do not change it
        try:
            if c["kind"] == "point":
                iso.pressure(); iso.loading(branch="ads"); iso.data()
                if len(c["pressure"]) > 1 and len(set(c["branch"])) == 1:
                    try:
                        iso.loading_at((c["pressure"][0] + c["pressure"][1]) / 2, branch=None)
                    except Exception:
                        pass
                for k in c["extra"]:
                    iso.other_data(k)
            iso.to_dict(); str(iso); isotherm_to_json(iso)
            _ = iso.units, iso.to_json(), iso.temperature, repr(iso), iso in [iso]
            if c["kind"] == "model":
                _ = repr(iso.model), str(iso.model), iso.model.to_dict()
                try:
                    pr = c["model"]["pressure_range"]
                    iso.loading_at((pr[0] + pr[1]) / 2)
                    iso.pressure(5)
                except Exception:
                    pass
        except Exception:
            pass
        if iso.iso_id != id0:
            ck.fail_case({**sig, "clause": "identifier changed by read-only calls"}, {"ids": [id0, iso.iso_id], "content": c6full(c)})
        # ---------------------------------------------------------------- content changed IN PLACE after the identifier has been read: the next read reflects it
        try:
            victim = isogen.build(pg, c)
            _ = victim.iso_id, victim == iso, repr(victim)
            how = None
            if c["kind"] == "point":
                victim.data_raw.loc[victim.data_raw.index[0], victim.loading_key] = float(victim.data_raw[victim.loading_key].iloc[0]) + 0.5
                how = "data value (data_raw.loc)"
                fresh_same = pg.PointIsotherm(isotherm_data=victim.data_raw.copy(), pressure_key=victim.pressure_key, loading_key=victim.loading_key, **victim.to_dict())
            elif c["kind"] == "model":
                k0 = sorted(victim.model.params)[0]
                victim.model.params[k0] = victim.model.params[k0] * 1.5
                how = "model parameter (model.params[...])"
                fresh_same = None
            elif isinstance(getattr(victim, "properties", None), dict):
                victim.properties["pgv_added"] = "x"
                how = "metadata (properties[...])"
                fresh_same = None
            if how:
                ck.count(("in-place", how, i), bucket="in-place edit:" + how)
                if victim.iso_id == id0:
                    ck.fail_case({**sig, "clause": "different content, same identifier", "edit": "in place after the identifier was read: " + how}, {"content": c6short(c)})
                elif fresh_same is not None and fresh_same.iso_id != victim.iso_id:
                    ck.fail_case({**sig, "clause": "same content, different identifier", "route": "fresh object with the content of an object edited in place"}, {"ids": [victim.iso_id, fresh_same.iso_id]})
            # a label changed in place (attribute assignment) is a changed content as well
            victim = isogen.build(pg, c)
            _ = victim.iso_id
            lab = rng.choice(["loading_unit", "material_unit", "temperature_unit"] + (["pressure_unit"] if c["units"]["pressure_mode"] == "absolute" else []))
            setattr(victim, lab, "pgv_unit" if getattr(victim, lab) != "pgv_unit" else "pgv_unit2")
            ck.count(("in-place-label", lab, i), bucket="in-place edit:label attribute")
            if victim.iso_id == id0:
                ck.fail_case({**sig, "clause": "different content, same identifier", "edit": "in place after the identifier was read: label attribute", "label": lab, **cfg}, {"content": c6full(c)})
        except Exception as e:  # noqa
            ck.count(("in-place-skip", i), nontrivial=False, bucket="in-place edit skipped: " + type(e).__name__)
        # ---------------------------------------------------------------- every single-field edit changes it
        ids_seen = {id0: ("original", json.dumps(c, sort_keys=True, default=str))}
        all_edits = edits(rng, c, quick)
        eq_checked = set(range(len(all_edits))) if c["kind"] != "point" else set(rng.sample(range(len(all_edits)), min(8, len(all_edits))))
        for ne, (name, d, tag) in enumerate(all_edits):
            try:
                e = isogen.build(pg, d)
            except Exception as ex:
                ck.count(("edit-refused", name, i), nontrivial=False, bucket="edit refused by the constructor:" + name.split(" ->")[0] + ":" + type(ex).__name__)
                continue
            if c["kind"] == "point" and any(c[k] != d[k] for k in ("pressure", "loading", "branch", "extra")) and not _really_changes_rounded(c, d):
                continue          # a data edit that the rounding to 8 decimals absorbs (+2e-8 next to a tie, 4e-9 exchanged with -4e-9): the content is unchanged
            ck.count(("edit", name, i), bucket="edit:" + name.split(" ->")[0])
            if name.startswith("label: "):
                ck.count(("edit-cfg", name.split(" ->")[0], tuple(cfg.values())), nontrivial=False,
                         bucket="label edit in configuration:" + name.split(" ->")[0][7:] + ":" + "/".join(cfg.values()) + ":" + c["kind"])
            eid = e.iso_id
            dj = json.dumps(d, sort_keys=True, default=str)
            edit_class = name.split(" ->")[0]
            if eid == id0 or (ne in eq_checked and ((e == iso) or (iso == e))):
                sg = {**sig, "clause": "different content, same identifier", "edit": edit_class, **(cfg if name.startswith("label: ") else {}), **tag}
                ck.fail_case(sg, {"edit": name, "id": id0, "content": c6full(c), "edited_content": c6full(d)})
                if ck.match_known(sg) is not None:
                    # a recorded deviation of the real identifier from the model (known_findings.json): reported above as KNOWN-FINDING; the member is
                    # kept out of the pairwise comparison with the full-strength model below, which would only repeat it without an input
                    ck.count(("known-deviation", name, i), nontrivial=False, bucket="known finding reproduced:" + edit_class)
                    continue
            elif eid in ids_seen and ids_seen[eid][1] != dj:
                ck.fail_case({**sig, "clause": "different content, same identifier", "edit": "two different edits: " + edit_class + " / " + ids_seen[eid][0].split(" ->")[0]},
                             {"edits": [name, ids_seen[eid][0]], "id": eid, "content": c6full(c), "edited_content": c6full(d)})
            ids_seen.setdefault(eid, (name, dj))
            member(e, eid, i, name, d)
        # below the rounding threshold nothing changes (every numeric column)
        if c["kind"] == "point":
            for col in ["loading", "pressure"] + [k for k in sorted(c["extra"]) if not isinstance(c["extra"][k][0], str)]:
                d = copy.deepcopy(c)
                tgt = d[col] if col in d else d["extra"][col]
                r = 0 if col == "loading" else rng.randrange(len(tgt))
                old = float(tgt[r])
                tgt[r] = old + 2e-10
                if float(np.round(tgt[r], 8)) == float(np.round(old, 8)) and tgt[r] != old:
                    e = isogen.build(pg, d)
                    ck.count(("below-threshold", col, i), bucket="edit:below threshold")
                    if e.iso_id != id0:
                        ck.fail_case({**sig, "clause": "identifier changed below the 8-decimal threshold"}, {"column": col, "row": r, "value": old, "content": c6full(c)})
            # zero has neither a sign nor digits below the threshold: 0.0, -0.0, +-4e-9 in one cell are one content
            col = rng.choice(["loading"] + [k for k in sorted(c["extra"]) if not isinstance(c["extra"][k][0], str)])
            r = rng.randrange(len(c["loading"]))
            zid = {}
            for z in (0.0, -0.0, 4e-9, -4e-9):
                d = copy.deepcopy(c)
                (d[col] if col in d else d["extra"][col])[r] = z
                zid[repr(z)] = isogen.build(pg, d).iso_id
            ck.count(("around-zero", col, i), bucket="edit:below threshold around zero")
            if len(set(zid.values())) > 1:
                ck.fail_case({**sig, "clause": "identifier changed below the 8-decimal threshold", "around": "zero"}, {"column": col, "row": r, "ids_by_value": zid, "content": c6full(c)})
        member(iso, id0, i, "original", c)
        if i % 3 == 0:
            second.append((c, id0))
    # ------------------------------------------------------------------ another process, another PYTHONHASHSEED
    payload = json.dumps([c for c, _ in second])
    code = ("import sys, json; sys.path.insert(0, %r); sys.path.insert(0, %r); import warnings; warnings.filterwarnings('ignore');\n"
            "from pgv.core import import_pygaps; from pgv import isogen; pg = import_pygaps()\n"
            "cs = json.loads(sys.stdin.read()); out = []\n"
            "for c in cs:\n"
            "    try: out.append(isogen.build(pg, c).iso_id)\n"
            "    except Exception as e: out.append('EXC ' + repr(e)[:80])\n"
            "print(json.dumps(out))\n") % (str(REPO / "src"), os.path.join(os.path.dirname(os.path.dirname(os.path.abspath(__file__)))))
    env = dict(os.environ, PYTHONHASHSEED=str(1 + ck.seed % 1000), PGV_REPO=str(REPO))
    p = subprocess.run([sys.executable, "-c", code], input=payload, capture_output=True, text=True, env=env, timeout=900)
    try:
        ids2 = json.loads(p.stdout.strip().splitlines()[-1])
    except Exception:
        ids2 = None
        ck.broken.append({"step": "second process", "what": (p.stdout + p.stderr)[-500:]})
    if ids2:
        for (c, id0), id2 in zip(second, ids2):
            ck.count(("second-process", id0), bucket="route:second process")
            if id2 != id0:
                ck.fail_case({"class": c["kind"], "clause": "same content, different identifier", "route": "another process / PYTHONHASHSEED"}, {"ids": [id0, id2], "content": c6short(c)})
    # ------------------------------------------------------------------ correspondence with the Lean model (within one content family)
    #   (1) canon (Content.toIso <what it was built from>) == canon <what is observed>     (constructor + to_dict store every label, for every configuration)
    #   (2) equal identifiers <=> equal canonical forms                                     (the identifier is an injective function of the canonical form, and only of it)
    import time
    t_drv = time.time()
    ck.cov["timing"] = {"search_s": round(t_drv - ck.t0, 1), "driver_requests": len(lines), "driver_bytes": sum(map(len, lines))}
    try:
        replies = ck.drive("Identity", lines)
    except Exception as e:
        replies = None
        ck.broken.append({"step": "driver Identity", "what": str(e)[:500]})
    ck.cov["timing"]["driver_s"] = round(time.time() - t_drv, 1)
    n_dis = n_desc = 0
    if replies:
        it = iter(replies)
        fam = {}
        for (iid, i, name, has_desc) in plan:
            obs = next(it)
            if obs in ("none", "bad-op"):
                ck.broken.append({"step": "driver Identity", "what": f"request not understood for {name}"})
                continue
            if has_desc:
                built = next(it)
                ck.count(("corr-desc", i, name), nontrivial=False, bucket="correspondence: built-from vs observed")
                if built != obs:
                    n_desc += 1
                    if n_desc <= 3:
                        ck.broken.append({"step": "correspondence Model/Identity.Content.toIso vs constructor + to_dict", "what": {"member": name, "model_from_description": built[:400], "model_from_observation": obs[:400]}})
            fam.setdefault(i, []).append((iid, name, obs))
        for i, members in fam.items():
            for a in range(len(members)):
                for b in range(a + 1, len(members)):
                    ck.count(("corr", i, a, b), nontrivial=False, bucket="correspondence")
                    if (members[a][0] == members[b][0]) != (members[a][2] == members[b][2]):
                        n_dis += 1
                        if n_dis <= 3:
                            ck.broken.append({"step": "correspondence Model/Json.canon vs iso_id", "what": {"a": members[a][1], "b": members[b][1], "ids_equal": members[a][0] == members[b][0],
                                                                                                                  "canon_a": members[a][2][:300], "canon_b": members[b][2][:300]}})
    ck.fail_case = _fail
    ck.cov["failing_inputs_per_signature"] = {k: v for k, v in sorted(_per_sig.items(), key=lambda kv: -kv[1])[:40]}
    ck.cov["correspondence_disagreements"] = n_dis
    ck.cov["description_vs_observation_disagreements"] = n_desc
    ck.cov["rule"] = ("seeded contents (metadata-only / point / model; all pressure modes and loading / material bases, free-text / None / '' unit labels on fraction / percent; numeric and text extra columns) x construction routes "
                      "{lists, tuples, numpy arrays, tables with shifted / string / reversed row labels, reversed column order, explicit branch column, shorthand keywords, Material object, integer literals, from_isotherm, "
                      "random representation of EVERY column (python int / float / mixed, numpy int8..64 / uint8 / float32 / float64, numpy scalars, Series, pandas Int64 / Float64, text as object / string / categorical) x container x 10 row "
                      "labellings x column order x branch hand-over x temperature type, parse of a JSON export, a second process with another PYTHONHASHSEED}; read-only calls in between; every single-field edit (temperature, adsorbate, "
                      "material and its properties, EVERY unit label to EVERY other admissible value in the content's configuration, every metadata entry by type / added / removed / renamed, every data column above and below the "
                      "8-decimal threshold and around zero (0.0, -0.0, +-4e-9), branch mark, point removed / repeated, cells swapped, two points swapped, every extra column removed / renamed, one added, every model parameter / rmse / range end / name / branch); "
                      "representations also: float16 / float32 where exact, object-typed numeric columns, model numbers as python / numpy integers and float32, ndarray ranges; distinct = distinct (content, route or edit)")
    ck.assumptions += ["md5 and pandas.util.hash_pandas_object are collision-free on the explored contents (uninterpreted H in the theorems)"]
    _construct_section(ck, pg)          # E17 (new block below)


# ---------------------------------------------------------------------------------------------------- E17: NEW BLOCK (begin)
def _construct_section(ck, pg):
    """The content <- constructor-arguments map: Spec-driven oracles on the real constructors and the correspondence of
    `Model/Construct.lean` (driver `Construct`, generated tables `Gen/IsoParams`) with BaseIsotherm / PointIsotherm / ModelIsotherm.
    Everything lives in harness/pgv/constructlib.py."""
    from pgv import constructlib
    constructlib.run_section(ck, pg)
# ---------------------------------------------------------------------------------------------------- E17: NEW BLOCK (end)


def c6short(c):
    d = {k: v for k, v in c.items() if k not in ("pressure", "loading", "extra")}
    if "pressure" in c:
        d["n_points"] = len(c["pressure"])
    return json.loads(json.dumps(d, default=str))


def c6full(c):
    """The whole content (a replay must be a concrete input), long columns cut to the first 12 rows with the length noted."""
    d = json.loads(json.dumps(c, default=str))
    if "pressure" in d and len(d["pressure"]) > 12:
        d["n_points"] = len(d["pressure"])
        for k in ("pressure", "loading", "branch"):
            d[k] = d[k][:12]
        d["extra"] = {k: v[:12] for k, v in d["extra"].items()}
        d["note"] = "columns cut to 12 rows; regenerate from the seed for the full content"
    return d


def _canon_input(pg, iso):
    """Observable content in the shape the Lean driver speaks; data rounded to 8 decimals exactly as the library hashes them."""
    obs = isogen.observe(pg, iso)
    out = {"core": json.loads(json.dumps(obs["dict"], default=float))}
    if "columns" in obs:
        import numpy as np
        raw = iso.data_raw
        names = [c for c in raw.columns if c != "branch"]
        # the data "to 8 decimals": every number as a float64, rounded, zero unsigned — whatever type the column has (stated here, not copied from the library)
        cols = {k: [v if isinstance(v, str) else float(np.round(np.float64(v), 8)) + 0.0 for v in raw[k].tolist()] for k in names}
        marks = [int(b) for b in raw["branch"].tolist()]
        rows = [{**{k: cols[k][i] for k in names}, "branch": marks[i]} for i in range(len(marks))]
        out["rows"] = rows
    elif "model" in obs:
        out["model"] = json.loads(json.dumps(obs["model"], default=float))
    return out


def _content_input(pg, c, iso):
    """What the isotherm was BUILT from, in the shape of Model/Identity.Content (driver request `canonc`).  Nothing is read from the
    isotherm but the resolved adsorbate name (alias resolution is C20's subject)."""
    import numpy as np
    meta = dict(c["meta"])
    if c["kind"] == "model":
        meta["branch"] = c["model_branch"]          # ModelIsotherm keeps its branch as an ordinary attribute
    out = {"material": c["material"] if not c["material_props"] else {"name": c["material"], **c["material_props"]},
           "adsorbate": str(iso.adsorbate), "temperature": float(c["temperature"]),
           "labels": {k: c["units"][k] for k in ("pressure_mode", "pressure_unit", "loading_basis", "loading_unit", "material_basis", "material_unit", "temperature_unit")},
           "meta": json.loads(json.dumps(meta, default=float))}
    if c["kind"] == "point":
        rows = []
        for i in range(len(c["pressure"])):
            r = {"pressure": float(np.round(np.float64(c["pressure"][i]), 8)) + 0.0, "loading": float(np.round(np.float64(c["loading"][i]), 8)) + 0.0, "branch": int(c["branch"][i])}
            for k, col in c["extra"].items():
                r[k] = col[i] if isinstance(col[i], str) else float(np.round(np.float64(col[i]), 8)) + 0.0
            rows.append(r)
        out["rows"] = rows
    elif c["kind"] == "model":
        m = c["model"]
        out["model"] = {"name": m["name"], "rmse": float(m["rmse"]), "parameters": {k: float(v) for k, v in m["params"].items()},
                        "pressure_range": [float(x) for x in m["pressure_range"]], "loading_range": [float(x) for x in m["loading_range"]]}
    return out
