"""C04 — read-only queries and analyses are pure and independent of query history.

Lean: Props/C04.lean about Model/Cache.lean — cache transparency for the three kinds of hidden state of the library:
  * interpolator caches of a point isotherm (key = branch, kind, fill): `query_outcome_history_free`, `cache_key_sound`;
  * the thermodynamic state of an adsorbate (`_state`, created lazily by `backend`, re-`update`d by every accessor):
    `thermo_query_history_free` under the invariant `FullUpdate` (witness `fullUpdate_necessary`); the defect class "accessor
    memoises into the public dictionary": `memo_changes_adsorbate`, `memo_changes_outcome_kind`;
  * module-level caches of loaded reference curves / DFT kernels (`_LOADED`): `loaded_history_free` under `KeyDetermines`
    (witness `keyDetermines_necessary`);
  * all three side by side: `session_history_free` (instance of the generic `history_free_of_invariant`);
  * defect classes with their exact transparency condition and a witness: a cache keyed on a COARSENED argument (`keyDetermines_iff_history_free`,
    `coarsenedKey_not_transparent`; in the accessor setting `keyed_history_free` under `CoarseDetermines`, witness `coarseKey_necessary`), a cached
    interpolator whose fill is changed IN PLACE (`retarget_history_free` under `FillSeparable`, witness `fillSeparable_necessary` with an
    interpolator like scipy's); the fill of a key is a `Fill` (one value | (below, above) pair | 'extrapolate').
Tie: driver Drv/Cache.lean runs the model on the trace of modelled calls recorded here (loading_at / pressure_at /
spreading_pressure_at keys, accessor flashes, curve / kernel requests); its prediction of the hidden state after every call
(which interpolator key is cached, which flash the CoolProp state holds, which names are in `_LOADED`) and of the KIND of
outcome of every accessor is compared with the real objects.
Failing-input search (the same runs): seeded sequences of read-only calls on real objects — measured N2 isotherms and
synthetic isotherms of adsorbates with / without a backend and with / without stored thermodynamic keys, built-in and
user-defined, with materials that carry properties — where (a) a deep snapshot of every object passed in (identifier, labels,
every data cell, metadata, adsorbate and material `properties` (exact, ordered) and `to_dict()`, argument lists and arrays)
is compared before and after each call and (b) the outcome (value to 1e-10, or the error class) is compared with the same call
issued FIRST on identical fresh objects (fresh registry objects, module caches cleared).  One sweep per world issues every
entry of the catalogue at least once (every function exported by pygaps.characterisation — checked by introspection —, every
public thermodynamic accessor with calculate True / False, model-isotherm queries, exports, fitting, IAST); targeted pairs
cover cache keys that differ in one component, every ordered pair of accessors on every class of adsorbate, and every ordered
pair of reference curves / kernel files (including two files of the same name).
Option kinds (3b): chains of loading_at / pressure_at / spreading_pressure_at calls on one isotherm in which every component of the call —
function, branch, every scipy interpolation kind, fill (none, numbers, (below, above) pairs, 'extrapolate', arrays; two values of every kind
and near-duplicates), unit arguments, inside / above / below the range, late digits and precision of the abscissa — runs through all its
values along an Euler circuit (every ORDERED pair once); (3d) the same calls before / after IAST calculations.
Near-duplicate arguments (3c, 5): the same queries on the same isotherm at T and at T' = T +- 1e-3 ... 5e-2 K / T in single precision, sharing
ONE adsorbate object, in both orders; every flash accessor at T' then T; near-duplicate pressures of the enthalpy accessors; isotherms that
live for one query only (recycled addresses).  `fresh` also puts every module-level / class-level container of the package back to its
content after import and clears every memoising wrapper (found by introspection).  A difference met in a long history is shrunk to a
short one that reproduces it on fresh objects.
Stored representation (round 7): the synthetic worlds keep the SAME physical isotherm in every stored representation — temperature in K / °C (alternating
over the worlds of a run), absolute pressure in every unit / relative / relative%, loading molar (mmol, mol, cm3(STP)) / mass / volume_liquid / volume_gas /
percent / fraction, material per mass (g, kg, mg) / volume / mole; model isotherms follow the temperature unit.  Read-only paths branch on these labels
(`BaseIsotherm.temperature` converts at every read when the unit is not K): a memo bound there was out of reach of worlds kept in K, bar, mmol/g.
Complete observation: the per-call snapshot also holds the public names bound on the instance, the labels and the stored temperature; after EVERY history
(and every option-kind chain) each isotherm that took part is compared with an identical fresh twin: iso_id, to_dict (values and key order), to_json / to_csv /
to_aif text, str, public instance names, and `==` between the two (`twin_observation`).  Lean: `bound_name_invisible_iff` (a name bound by a query is invisible
in to_dict iff it is reserved), `readTemperature_kelvin_untouched`, `memo_leaks_into_export` (witness) about Model/Cache.lean `Export`.
"""
import contextlib
import copy
import io
import itertools
import math
import os
import shutil
import tempfile

from pgv.core import REPO, err_class, import_pygaps

DATA = REPO / "docs" / "examples" / "data"
SAMPLES = ["MCM-41 N2 77.355.json", "NaY N2 77.355.json", "SiO2 N2 77.355.json", "Takeda 5A N2 77.355.json", "UiO-66(Zr) N2 77.355.json"]

# dictionary keys read by the thermodynamic accessors of Adsorbate
CONST_KEYS = ["p_triple", "t_triple", "p_critical", "t_critical"]
THERMO_KEYS = CONST_KEYS + ["molar_mass", "saturation_pressure", "surface_tension", "liquid_density", "liquid_molar_density", "gas_density",
                            "gas_molar_density", "enthalpy_vaporisation", "enthalpy_liquefaction"]


def canon(x, depth=0):
    """Canonical, hashable form of an outcome (floats to 10 significant digits)."""
    import numpy as np
    if x is None or isinstance(x, (bool, str)):
        return x
    if isinstance(x, (int,)):
        return x
    if isinstance(x, (float, np.floating)):
        if math.isnan(x):
            return "nan"
        return float(f"{float(x):.10g}")
    if isinstance(x, np.ndarray):
        return ("arr", x.shape, tuple(canon(v) for v in x.ravel().tolist()[:400]))
    if isinstance(x, (list, tuple)):
        return tuple(canon(v, depth + 1) for v in list(x)[:400])
    if isinstance(x, dict):
        return tuple(sorted((str(k), canon(v, depth + 1)) for k, v in x.items() if k not in ("limits",) or True))
    if _is_isotherm(x):
        return ("iso", x.iso_id)
    if hasattr(x, "to_dict") and depth < 2:
        try:
            return canon(x.to_dict(), depth + 1)
        except Exception:
            return str(type(x))
    try:
        import pandas as pd
        if isinstance(x, (pd.Series, pd.DataFrame)):
            return canon(x.values)
    except Exception:
        pass
    return str(type(x).__name__)


def _is_isotherm(x):
    return any(c.__name__ == "BaseIsotherm" for c in type(x).__mro__)


def exact(d):
    """Exact, ORDERED image of a properties dictionary (nothing may write there: no tolerance, key order and value types included)."""
    return tuple((str(k), type(v).__name__, repr(v)) for k, v in d.items())


def snap_ads(a):
    return {"name": a.name, "alias": tuple(a.alias), "properties": exact(a.properties), "to_dict": canon(a.to_dict()),
            "public_attributes": tuple(sorted(k for k in vars(a) if not k.startswith("_")))}


def snap_mat(m):
    return {"name": m.name, "properties": exact(m.properties), "to_dict": canon(m.to_dict()),
            "public_attributes": tuple(sorted(k for k in vars(m) if not k.startswith("_")))}


def _or_error(f):
    """Value of an observation, or the error it raises (an identifier or an export that starts raising after a read-only call is a change too)."""
    try:
        return f()
    except Exception as e:  # noqa
        return ("raises", err_class(e))


def snapshot(pg, iso, with_id=True):
    d = {"id": _or_error(lambda: iso.iso_id) if with_id else None, "dict": _or_error(lambda: canon(iso.to_dict())), "ads": canon(dict(iso.adsorbate.properties)), "ads_alias": tuple(iso.adsorbate.alias),
         "mat": canon(dict(iso.material.properties)), "adsorbate": snap_ads(iso.adsorbate), "material": snap_mat(iso.material),
         "metadata": exact(iso.properties) if isinstance(getattr(iso, "properties", None), dict) else None,
         # the instance dictionary itself: every attribute of an isotherm is bound by its constructor; a PUBLIC name that appears (or goes) during a read-only call is
         # a change whoever reads it (to_dict, the exporters, a user); names with a leading underscore are the library's own business as long as nothing shows them
         # (to_dict / identifier / exports are compared too) — they are listed in the coverage record only
         "public_attributes": tuple(sorted(k for k in vars(iso) if not k.startswith("_"))),
         "labels": tuple((k, repr(getattr(iso, k, None))) for k in ("pressure_mode", "pressure_unit", "loading_basis", "loading_unit", "material_basis", "material_unit", "temperature_unit")),
         "stored_temperature": repr(getattr(iso, "_temperature", None))}
    if isinstance(iso, pg.PointIsotherm):
        raw = iso.data_raw
        d["cols"] = tuple(raw.columns)
        d["cells"] = tuple(tuple(canon(v) for v in raw[c].tolist()) for c in raw.columns)
        d["index"] = tuple(raw.index.tolist())
        d["dtypes"] = tuple(str(t) for t in raw.dtypes) + (str(raw.index.dtype),)
    elif isinstance(iso, pg.ModelIsotherm):
        d["model"] = canon(iso.model.to_dict())
        d["model_bounds"] = canon(iso.model.param_bounds)
    return d


def snap_any(pg, v, with_id=True):
    """Snapshot of one entry of the object dictionary handed to a query."""
    import numpy as np
    if v is None:
        return None
    if isinstance(v, (list, tuple)):
        return {"order": tuple(id(x) for x in v), "items": [snap_any(pg, x, with_id) for x in v]}
    if isinstance(v, dict):
        return {k: snap_any(pg, x, with_id) for k, x in v.items()}
    if isinstance(v, np.ndarray):
        return ("arr", v.shape, str(v.dtype), tuple(v.ravel().tolist()))
    if _is_isotherm(v):
        return snapshot(pg, v, with_id)
    if isinstance(v, pg.Adsorbate):
        return snap_ads(v)
    if isinstance(v, pg.Material):
        return snap_mat(v)
    return repr(v)


def clear_module_caches(pg):
    import pygaps.characterisation.models_thickness as mt
    import pygaps.characterisation.psd_kernel as pk
    mt._LOADED.clear()
    pk._LOADED.clear()


def _ccopy(v):
    """Copy of the CONTAINER structure of a value (dict / list / set, recursively); the leaves stay the same objects."""
    import collections
    if type(v) in (dict, collections.OrderedDict):
        return type(v)((k, _ccopy(x)) for k, x in v.items())
    if type(v) is collections.defaultdict:
        d = collections.defaultdict(v.default_factory)
        d.update((k, _ccopy(x)) for k, x in v.items())
        return d
    if type(v) in (list, collections.deque):
        return type(v)(_ccopy(x) for x in v)
    if type(v) is set:
        return set(v)
    return v


def module_state(skip=()):
    """Every mutable container bound at module level or class level anywhere in the package (`_LOADED` and whatever else holds state
    between calls), with its content right after import, and every memoising wrapper (anything with `cache_clear`).  `fresh`
    means: a fresh interpreter — these go back to that content, found by introspection, never by name."""
    import collections
    import sys
    slots, clears, seen = [], [], {id(x) for x in skip}
    kinds = (dict, list, set, collections.deque)

    def consider(label, owner, attr, v):
        if isinstance(v, kinds):
            if id(v) not in seen:
                seen.add(id(v))
                slots.append({"label": label, "owner": owner, "attr": attr, "obj": v, "pristine": _ccopy(v)})
        elif callable(getattr(v, "cache_clear", None)) and id(v) not in seen and str(getattr(v, "__module__", "")).startswith("pygaps"):
            seen.add(id(v))
            clears.append((label, v))
    for name, mod in sorted(sys.modules.items()):
        if mod is None or not (name == "pygaps" or name.startswith("pygaps.")):
            continue
        for k, v in list(vars(mod).items()):
            if k.startswith("__"):
                continue
            consider(f"{name}.{k}", mod, k, v)
            if isinstance(v, type) and str(getattr(v, "__module__", "")).startswith("pygaps"):
                for ck_, cv in list(vars(v).items()):
                    if ck_.startswith("__"):
                        continue
                    consider(f"{v.__module__}.{v.__name__}.{ck_}", v, ck_, cv)
                    for inner in (getattr(cv, "fget", None), getattr(cv, "__func__", None), getattr(cv, "func", None)):
                        if inner is not None:
                            consider(f"{v.__module__}.{v.__name__}.{ck_}", None, None, inner)
    return slots, clears


def restore_module_state(slots, clears, touched):
    for sl in slots:
        c, pristine = sl["obj"], sl["pristine"]
        if sl["owner"] is not None:
            try:
                if getattr(sl["owner"], sl["attr"], None) is not c:          # the name was bound to another container
                    setattr(sl["owner"], sl["attr"], c)
                    touched.add(sl["label"])
            except Exception:
                pass
        try:
            same = bool(c == pristine)
        except Exception:
            same = False
        if same:
            continue
        touched.add(sl["label"])
        new = _ccopy(pristine)
        if isinstance(c, dict):
            c.clear()
            c.update(new)
        elif isinstance(c, list):
            c[:] = new
        elif isinstance(c, set):
            c.clear()
            c.update(new)
        else:
            c.clear()
            c.extend(new)
    for _label, f in clears:
        try:
            f.cache_clear()
        except Exception:
            pass


def shrink_history(prefix, reproduces, budget_s=15.0):
    """A short history that still shows the difference on fresh objects: the shortest suffix (up to 4 calls), else ONE earlier call, else TWO
    of the recent ones (in their order), else the whole prefix.  `reproduces(history) -> bool` replays on fresh objects."""
    import time
    t0, n = time.time(), len(prefix)
    for m in range(1, min(n, 4) + 1):
        if reproduces(prefix[n - m:]):
            return prefix[n - m:]
    distinct = []
    for h in reversed(prefix):
        if h not in distinct:
            distinct.append(h)
    for h in distinct[:40]:
        if time.time() - t0 > budget_s:
            return prefix
        if reproduces([h]):
            return [h]
    recent = distinct[:10][::-1]
    for i in range(len(recent)):
        for j in range(i + 1, len(recent)):
            if time.time() - t0 > budget_s:
                return prefix
            if reproduces([recent[i], recent[j]]):
                return [recent[i], recent[j]]
    return prefix


def euler_circuit(n, rng):
    """A closed walk over 0..n-1 that uses every ordered pair (i, j), i != j, exactly once (Hierholzer on the complete digraph)."""
    if n < 2:
        return list(range(n))
    out = {i: [j for j in range(n) if j != i] for i in range(n)}
    for i in out:
        rng.shuffle(out[i])
    start = rng.randrange(n)
    stack, path = [start], []
    while stack:
        v = stack[-1]
        if out[v]:
            stack.append(out[v].pop())
        else:
            path.append(stack.pop())
    return path[::-1]


def fill_tok(fill):
    """A fill value as one protocol token (no blanks, no commas)."""
    return "~" if fill is None else repr(fill).replace(" ", "").replace(",", ":").replace("'", "")


def run(ck):
    pg = import_pygaps()
    import matplotlib
    matplotlib.use("Agg")
    import CoolProp as CP
    import numpy as np
    import pandas as pd
    import pygaps.characterisation as pgc
    import pygaps.characterisation.models_thickness as mt
    import pygaps.characterisation.psd_kernel as pk
    import pygaps.iast as pgi
    import pygaps.modelling as pgm
    from pygaps.modelling.base_model import IsothermBaseModel
    from pygaps.parsing.json import isotherm_from_json
    from pygaps.utilities.coolprop_utilities import thermodynamic_backend
    rng = ck.rng
    thorough = ck.tier == "thorough"

    def load(name):
        return isotherm_from_json(str(DATA / "characterisation" / name))

    def load_iast():
        return [isotherm_from_json(str(DATA / "iast" / f)) for f in ("MOF-5(Zn) - IAST - CH4.json", "MOF-5(Zn) - IAST - C2H6.json") if (DATA / "iast" / f).exists()]

    iast_ok = len(load_iast()) == 2

    # ================================================================== the registry as it is before any query (what a fresh interpreter sees)
    PRISTINE = [copy.deepcopy(a.to_dict()) for a in pg.ADSORBATE_LIST]
    PRISTINE_EXACT = {d["name"]: exact({k: v for k, v in d.items() if k not in ("name", "alias")}) for d in PRISTINE}
    USER_ADS = []          # dictionaries of the user-defined adsorbates of this run (registered by reset_registry)

    def mk_ads(d):
        d = {k: (v if isinstance(v, (str, int, float, bool, type(None))) else copy.deepcopy(v)) for k, v in d.items()}
        return pg.Adsorbate(d.pop("name"), **d)

    MODULE_SLOTS, MODULE_CLEARS = module_state(skip=[pg.ADSORBATE_LIST])
    MODULE_TOUCHED = set()
    ck.cov["module_state"] = {"containers_watched": len(MODULE_SLOTS), "memoising_wrappers": [l for l, _ in MODULE_CLEARS]}

    def reset_registry():
        """Every registered adsorbate becomes a NEW object built from its pristine dictionary (no thermodynamic state, untouched
        properties), the user-defined adsorbates of the run are registered again, module caches are emptied — and every other
        module-level / class-level container of the package goes back to its content after import, every memoising wrapper is
        cleared (a memo the harness does not know by name must not make the reference outcome as stale as the one under test)."""
        pg.ADSORBATE_LIST[:] = [mk_ads(d) for d in PRISTINE] + [mk_ads(d) for d in USER_ADS]
        clear_module_caches(pg)
        restore_module_state(MODULE_SLOTS, MODULE_CLEARS, MODULE_TOUCHED)

    def registry_changes():
        out = []
        for a in pg.ADSORBATE_LIST:
            want = PRISTINE_EXACT.get(a.name)
            if want is None:
                want = next((exact({k: v for k, v in d.items() if k not in ("name", "alias")}) for d in USER_ADS if d["name"] == a.name), None)
            if want is not None and exact(a.properties) != want:
                out.append({"adsorbate": a.name, "before": [x for x in want if x not in exact(a.properties)][:4], "after": [x for x in exact(a.properties) if x not in want][:4]})
        return out

    # ------------------------------------------------------------------ CoolProp asked directly (never through an Adsorbate object)
    def cp_const(backend_name, what):
        try:
            v = CP.CoolProp.PropsSI(what, backend_name)
            return v if math.isfinite(v) else None
        except Exception:
            return None

    def cp_read(backend_name, pair, v1, v2, name):
        """Does a brand-new CoolProp state answer `name` after update(pair, v1, v2)?  (the residue F of the Lean model)"""
        if backend_name is None:
            return None
        try:
            st = CP.AbstractState(thermodynamic_backend(), backend_name)
            st.update(getattr(CP, pair + "_INPUTS"), v1, v2)
            v = getattr(st, name)()
            return v
        except BaseException:
            return None

    # ------------------------------------------------------------------ classes of adsorbates (chosen by their content, never by name)
    builtin = {d["name"]: d for d in PRISTINE}

    def usable_backend(d):
        b = d.get("backend_name")
        return b is not None and cp_const(b, "Ttriple") is not None and cp_const(b, "Tcrit") is not None

    with_backend = sorted(n for n, d in builtin.items() if usable_backend(d))
    ads_classes = {
        "built-in, backend, every constant stored": [n for n in with_backend if all(k in builtin[n] for k in CONST_KEYS)],
        "built-in, backend, a constant not stored": [n for n in with_backend if any(k not in builtin[n] for k in CONST_KEYS)],
        "built-in, no backend": sorted(n for n, d in builtin.items() if "backend_name" not in d),
    }

    def temps_of(backend_name):
        """Three temperatures of a fluid: two inside the saturation range, one above the critical point."""
        tt, tc = cp_const(backend_name, "Ttriple"), cp_const(backend_name, "Tcrit")
        t1 = tt + rng.uniform(0.30, 0.55) * (tc - tt)
        t2 = tt + rng.uniform(0.60, 0.80) * (tc - tt)
        return round(t1, 2), round(t2, 2), round(tc * rng.uniform(1.05, 1.3), 2)

    def user_defined(kind, idx):
        """Dictionary of a user-defined adsorbate."""
        if kind == "user-defined, backend, nothing stored":
            return {"name": f"pgv-gas-{idx}", "backend_name": builtin[rng.choice(with_backend)]["backend_name"]}
        if kind == "user-defined, backend, some keys stored":
            d = {"name": f"pgv-gas-{idx}", "alias": [f"pgv-alias-{idx}"], "backend_name": builtin[rng.choice(with_backend)]["backend_name"], "formula": "X2"}
            for k in rng.sample(THERMO_KEYS, rng.randint(2, 6)):
                d[k] = round(rng.uniform(0.5, 50.0), 4)          # deliberately NOT the backend's value: the two paths are distinguishable
            return d
        d = {"name": f"pgv-gas-{idx}", "molar_mass": round(rng.uniform(10, 120), 3), "saturation_pressure": round(rng.uniform(5e4, 5e5), 1)}
        for k in rng.sample([k for k in THERMO_KEYS if k not in d], rng.randint(2, 7)):
            d[k] = round(rng.uniform(0.5, 50.0), 4)
        return d

    user_kinds = ["user-defined, backend, nothing stored", "user-defined, backend, some keys stored", "user-defined, no backend, some keys stored"]
    pool = []              # (class label, adsorbate name)
    for label, names in ads_classes.items():
        for n in rng.sample(names, min(len(names), ck.n(1, 3))):
            pool.append((label, n))
    for i, kind in enumerate(user_kinds * ck.n(1, 2)):
        d = user_defined(kind, i)
        USER_ADS.append(d)
        pool.append((kind, d["name"]))
    all_defs = dict(builtin)
    all_defs.update({d["name"]: d for d in USER_ADS})
    reset_registry()

    # ================================================================== worlds: descriptions from which identical fresh objects are built
    # stored representations: factor = stored number / number in the base representation (bar, mmol, g).  Mass / volume bases of the loading and the volume / molar
    # bases of the material are RELABELLED numbers (any magnitude is a valid isotherm; the physical twin would need the adsorbate / material constants).
    P_UNITS = {"bar": 1.0, "Pa": 1e5, "kPa": 100.0, "MPa": 0.1, "mbar": 1000.0, "atm": 1 / 1.01325, "torr": 1e5 / 133.322, "mmHg": 1e5 / 133.322}
    L_REPS = [("molar", "mmol", 1.0), ("molar", "mol", 1e-3), ("molar", "cm3(STP)", 1e-3 / 4.461e-5), ("mass", "mg", 10.0), ("mass", "g", 0.01),
              ("volume_liquid", "cm3", 0.03), ("volume_gas", "cm3", 24.0), ("percent", None, 1.0), ("fraction", None, 0.01)]
    REP_PHASE = rng.randrange(2)

    def t_store(unit, T_kelvin):
        return T_kelvin if unit == "K" else T_kelvin - 273.15

    def stored_representation(idx, rel, mat):
        """Stratified: the temperature unit alternates over the worlds of a run (°C in every second one), the pressure unit / the loading representation /
        the material representation are the library defaults in about a third of the worlds and drawn from all the others otherwise."""
        tu = "°C" if (idx + REP_PHASE) % 2 == 0 else "K"
        if rel:
            mode, pu, pf = ("relative", None, 1.0) if rng.random() < 0.6 else ("relative%", None, 100.0)
        else:
            pu = "bar" if rng.random() < 0.35 else rng.choice(sorted(k for k in P_UNITS if k != "bar"))
            mode, pf = "absolute", P_UNITS[pu]
        lb, lu, lf = L_REPS[0] if rng.random() < 0.35 else rng.choice(L_REPS[1:])
        m_reps = [("mass", "g", 1.0), ("mass", "kg", 1e3), ("mass", "mg", 1e-3)]
        if "density" in mat:
            m_reps.append(("volume", "cm3", 1.0))
        if "molar_mass" in mat:
            m_reps.append(("molar", "mmol", 1.0))
        mb, mu, mf = m_reps[0] if rng.random() < 0.35 else rng.choice(m_reps[1:])
        units = {"pressure_mode": mode, "pressure_unit": pu, "loading_basis": lb, "loading_unit": lu, "material_basis": mb, "material_unit": mu, "temperature_unit": tu}
        return {"units": units, "p_factor": pf, "l_factor": lf * mf, "text": f"{mode}{'' if pu is None else ' ' + pu}, {lb} {lu} / {mb} {mu}, {tu}"}

    def synthetic_world(label, ads_name, idx):
        d = all_defs[ads_name]
        b = d.get("backend_name")
        if b is not None:
            t1, t2, t3 = temps_of(b)
            T, T2 = (t1, t2) if rng.random() < 0.8 else (t3, t1)       # sometimes above the critical point: the backend refuses, the dictionary is consulted
            psat = cp_read(b, "QT", 0.0, T, "p")
        else:
            T, T2, psat = 298.15, 323.15, d.get("saturation_pressure")
        rel = psat is not None and rng.random() < 0.4
        top = 0.95 if rel else (min(0.9 * psat / 1e5, 20.0) if psat else rng.uniform(1.0, 20.0))
        n = rng.randint(18, 30)
        ps = sorted({round(top * (10 ** rng.uniform(-3.5, 0)), 9) for _ in range(n)} | {top})
        nm, K, tt = rng.uniform(3, 12), rng.uniform(2, 30) / top, rng.uniform(0.6, 1.0)
        ads_l = [nm * K * p / (1 + (K * p) ** tt) ** (1 / tt) for p in ps]
        k = rng.randint(6, 9)
        des_p = sorted(rng.sample(ps[2:-1], k), reverse=True)
        des_l = [nm * K * p / (1 + (K * p) ** tt) ** (1 / tt) * (1 + 0.15 * (1 - p / top)) for p in des_p]
        pressure, loading = ps + des_p, ads_l + des_l
        mat = {"name": f"pgv-solid-{idx}"}
        if rng.random() < 0.75:
            mat.update({"density": round(rng.uniform(0.4, 3.0), 3), "molar_mass": round(rng.uniform(60, 900), 2), "batch": "b" + str(idx)})
        # ---- the STORED representation (the same physical isotherm: the numbers above are bar | p/p0, mmol/g, kelvin).  The property quantifies over every isotherm,
        #      whatever the units it keeps its data in; read-only paths branch on them (a temperature stored in °C is converted at every read, an absolute
        #      pressure in another unit / a loading on another basis goes through another converter): every dimension takes its non-default values in every run.
        rep = stored_representation(idx, rel, mat)
        pressure = [p * rep["p_factor"] for p in pressure]
        loading = [l * rep["l_factor"] for l in loading]
        return {"kind": "synthetic", "name": f"synthetic#{idx} [{label}] {ads_name} {T} K, stored as {rep['text']}", "class": label, "adsorbate": ads_name, "T": T, "T2": T2,
                "units": rep["units"], "stored_temperature": t_store(rep["units"]["temperature_unit"], T),
                "pressure": pressure, "loading": loading, "branch": [0] * len(ps) + [1] * len(des_p),
                "enthalpy": [round(40 - 20 * l / nm + rng.uniform(-0.5, 0.5), 4) for l in loading], "material": mat, "meta": {"user": "pgv", "run": idx},
                "miso": {"model": rng.choice(["Langmuir", "Toth"]), "n_m": nm, "K": K / 1e5 if not rel else K, "t": tt, "top": top * 1e5 if not rel else top},
                "miso2": {"model": rng.choice(["Henry", "DSLangmuir", "Freundlich", "Quadratic", "TemkinApprox", "JensenSeaton", "BET", "GAB"])}}

    def build_point(w, temperature=None, scale=1.0):
        """`temperature` in KELVIN (like w["T"]); the isotherm keeps it in the unit of the world."""
        df = pd.DataFrame({"pressure": list(w["pressure"]), "loading": [l * scale for l in w["loading"]], "enthalpy": list(w["enthalpy"])})
        return pg.PointIsotherm(isotherm_data=df, pressure_key="pressure", loading_key="loading", branch=list(w["branch"]), material=dict(w["material"]),
                                adsorbate=w["adsorbate"], temperature=t_store(w["units"]["temperature_unit"], w["T"] if temperature is None else temperature),
                                **w["units"], **w["meta"])

    def build_model(adsorbate, T, spec, material, in_pa=True, temperature_unit="K"):
        name = spec["model"]
        if name in ("Langmuir", "Toth"):
            params = {"n_m": spec["n_m"], "K": spec["K"]}
            if name == "Toth":
                params["t"] = spec["t"]
            pr = (spec["top"] * 1e-3, spec["top"])
        else:
            from pgv.models import sample_params
            import random
            params = sample_params(name, random.Random(f"{name}/{ck.seed}"))
            pr = (0.01, 0.9)
        model = pgm.get_isotherm_model(name, parameters={k: np.float64(v) for k, v in params.items()}, pressure_range=pr, loading_range=(0.0, 5.0), rmse=0.01)
        units = {"pressure_mode": "absolute", "pressure_unit": "Pa" if in_pa else "bar", "loading_basis": "molar", "loading_unit": "mmol", "material_basis": "mass",
                 "material_unit": "g", "temperature_unit": temperature_unit}
        return pg.ModelIsotherm(model=model, branch="ads", material=material, adsorbate=adsorbate, temperature=t_store(temperature_unit, T), **units)

    class Objs(dict):
        """The objects of a world, built on first use (identical every time); `snaps` holds the snapshot taken when each was built /
        after the last call."""

        def __init__(self, w):
            super().__init__()
            self.w = w
            self.snaps = {}
            self.ids = "all"          # "all": the identifier of every object is recomputed after every call; "iso": of the isotherm under test only
            self.first_ids = {}       # (the others then at the end of the history: hashing dominates the cost of a long history)
            self.light = False        # True: no snapshots at all (sections that compare outcomes only)
            self["T_other"] = w.get("T2", 87.3)
            self["kernel"] = KERNEL_FILES

        def __missing__(self, key):
            v = self.make(key)
            self[key] = v
            if key not in ("T_other", "kernel") and not self.light:
                self.snaps[key] = snap_any(pg, v, self.ids == "all" or key == "iso")
                self.first_ids[key] = _ids_of(v)
            return v

        def make(self, key):
            w = self.w
            measured = w["kind"] == "measured"
            if key == "iso":
                return load(w["file"]) if measured else build_point(w)
            if key == "ref":
                return load("SiO2 N2 77.355.json") if measured else build_point(w, scale=0.37)
            if key == "cold":
                if measured:
                    cold = load(w["file"])
                    cold._temperature = 87.3          # same adsorbate, other temperature (constructed before any query is issued)
                    return cold
                return build_point(w, temperature=w["T2"])
            if key.startswith("near"):          # the same isotherm at a NEAR-DUPLICATE temperature (same shared adsorbate object): see near_temps
                T_near = near_of(w)[int(key[4:])]
                if measured:
                    near = load(w["file"])
                    near._temperature = T_near
                    return near
                return build_point(w, temperature=T_near)
            if key == "pair":
                if measured:
                    return load_iast() if iast_ok else None
                return [build_point(w, scale=0.8), build_point(w, scale=1.7)]
            if key == "miso":
                if measured:
                    return build_model("nitrogen", 77.355, w["miso"], "pgv-model-solid")
                spec = w["miso"] if w["units"]["pressure_mode"] == "absolute" else dict(w["miso"], K=w["miso"]["K"] / 1e5, top=w["miso"]["top"] * 1e5)
                return build_model(w["adsorbate"], w["T"], spec, dict(w["material"]), in_pa=True, temperature_unit=w["units"]["temperature_unit"])
            if key == "miso2":
                if measured:
                    return build_model("nitrogen", 77.355, w["miso2"], "pgv-model-solid", in_pa=False)
                return build_model(w["adsorbate"], w["T"], w["miso2"], dict(w["material"]), in_pa=False, temperature_unit=w["units"]["temperature_unit"])
            if key == "arrays":
                src = load(w["file"]) if measured else build_point(w)      # a separate object: the isotherm under test is not touched
                p, l = src.pressure(branch="ads"), src.loading(branch="ads")
                return {"pressure": np.array(p, dtype=float), "loading": np.array(l, dtype=float), "ref_loading": np.array(l, dtype=float) * 0.4}
            if key == "ref_same":                          # a reference isotherm over a slightly WIDER pressure range than `iso` (alpha_s reads it at the pressures of `iso`)
                src = load(w["file"]) if measured else build_point(w, scale=0.61)
                p, l = [float(x) for x in src.pressure(branch="ads")], [float(x) for x in src.loading(branch="ads")]
                if p[0] > 0:
                    p, l = [p[0] * 0.1, p[0] * 0.5] + p, [l[0] * 0.1, l[0] * 0.5] + l
                return pg.PointIsotherm.from_isotherm(src, pressure=p + [p[-1] * 1.0001], loading=l + [l[-1]])
            if key == "opts":                              # option containers handed over by the caller: they are arguments too
                return {"kernel_units": {"loading_basis": "molar", "loading_unit": "mmol", "material_basis": "mass", "material_unit": "g", "pressure_mode": "relative"},
                        "optimization_params": {"max_nfev": 2000}, "param_guess": {"K": 5.0, "n_m": 10.0}, "param_bounds": {"n_m": (0.0, 500.0)},
                        "p_limits": [0.05, 0.3], "t_limits": [0.3, 0.8], "loading_points": [1.0, 1.5, 2.0]}
            if key in ("temps_up", "temps_down"):         # the caller's LIST is an argument too: one in ascending, one in descending temperature order
                return sorted([self["iso"], self["cold"]], key=lambda x: x.temperature, reverse=key == "temps_down")
            raise KeyError(key)

    def clean_state():
        """Module caches emptied and every module-level / class-level container of the package put back (for references and histories that
        build their own adsorbate object instead of a whole world)."""
        clear_module_caches(pg)
        restore_module_state(MODULE_SLOTS, MODULE_CLEARS, MODULE_TOUCHED)

    def fresh(w, light=False):
        """Identical fresh objects of a world, on a fresh registry with empty module caches."""
        reset_registry()
        o = Objs(w)
        o.light = light
        return o

    def near_temps(T):
        """Near-duplicates of a temperature: a cache keyed on a COARSENED argument (rounded, truncated, printed with a few digits,
        converted to single precision) cannot tell them from T, the thermodynamic functions can (p0 of N2: ~1 % per 0.1 K)."""
        sg = lambda: rng.choice((-1.0, 1.0))  # noqa: E731
        t32 = float(np.float32(T))
        return [round(T + sg() * 10 ** rng.uniform(-3.0, -2.3), 6), round(T + sg() * 10 ** rng.uniform(-2.0, -1.3), 6),
                t32 if t32 != T else T * (1 + sg() * 6e-8)]

    def near_of(w):
        if "near_T" not in w:
            w["near_T"] = near_temps(float(w["T"]) if w["kind"] != "measured" else float(load(w["file"]).temperature))
        return w["near_T"]

    def measured_world(f):
        return {"kind": "measured", "name": f, "file": f, "class": "built-in, backend, every constant stored", "adsorbate": "nitrogen",
                "miso": {"model": rng.choice(["Langmuir", "Toth"]), "n_m": rng.uniform(3, 12), "K": rng.uniform(1e-5, 1e-3), "t": rng.uniform(0.6, 1.0), "top": 9e4},
                "miso2": {"model": rng.choice(["Henry", "DSLangmuir", "Freundlich", "Quadratic", "TemkinApprox", "JensenSeaton", "BET", "GAB"])}}

    # user kernel files: a thinned copy of the internal kernel (fast), a second file of the SAME NAME with other content in another directory, a third name
    tmp = tempfile.mkdtemp(prefix="pgv-c04-")
    KERNEL_FILES = {}
    try:
        kin = pd.read_csv(str(pg.data.KERNELS["DFT-N2-77K-carbon-slit"]), index_col=0)
        thin = kin.iloc[:, ::6]
        for sub, fname, factor in (("a", "kernel.csv", 1.0), ("b", "kernel.csv", 0.55), ("a", "other.csv", 1.9)):
            os.makedirs(os.path.join(tmp, sub), exist_ok=True)
            path = os.path.join(tmp, sub, fname)
            (thin * factor).to_csv(path)
            KERNEL_FILES[f"{sub}/{fname}"] = path
        _run_body(ck, locals())
    finally:
        shutil.rmtree(tmp, ignore_errors=True)


def _run_body(ck, env):
    """The checks proper (split from `run` only to keep the temporary kernel directory in a try/finally)."""
    g = dict(env)
    pg, rng, np, pd, CP = g["pg"], g["rng"], g["np"], g["pd"], g["CP"]
    pgc, pgi, pgm, mt, pk = g["pgc"], g["pgi"], g["pgm"], g["mt"], g["pk"]
    IsothermBaseModel, thermodynamic_backend = g["IsothermBaseModel"], g["thermodynamic_backend"]
    fresh, reset_registry, registry_changes, mk_ads, all_defs, pool = g["fresh"], g["reset_registry"], g["registry_changes"], g["mk_ads"], g["all_defs"], g["pool"]
    cp_read, cp_const, temps_of = g["cp_read"], g["cp_const"], g["temps_of"]
    synthetic_world, measured_world, iast_ok, thorough, KERNEL_FILES = g["synthetic_world"], g["measured_world"], g["iast_ok"], g["thorough"], g["KERNEL_FILES"]
    load, near_of, near_temps, build_point, MODULE_TOUCHED, clean_state = g["load"], g["near_of"], g["near_temps"], g["build_point"], g["MODULE_TOUCHED"], g["clean_state"]

    def new_ads(d):
        """A new adsorbate object on a clean module state: the start of a reference call / of a history on the adsorbate alone."""
        clean_state()
        return mk_ads(d)

    def quiet(f):
        """Outcome of a call that prints / plots: the printed text is part of the outcome."""
        import matplotlib.pyplot as plt
        buf = io.StringIO()
        try:
            with contextlib.redirect_stdout(buf):
                r = f()
        finally:
            plt.close("all")
        return (canon(r) if not hasattr(r, "figure") else "axes", buf.getvalue())

    # ------------------------------------------------------------------ thermodynamic accessors: how to call them and what the Lean model says they do
    def accessors():
        A = {}

        def const(name, attr, cpname, via):
            for c in (True, False):
                A[f"{name}(calculate={c})"] = dict(call=lambda a, T, c=c, attr=attr: getattr(a, attr)(calculate=c), calc=c, key=name, kind="const", cp=cpname, via=via, keys=[name])
        const("molar_mass", "molar_mass", "molar_mass", True)
        const("p_triple", "p_triple", "PTRIPLE", False)
        const("t_triple", "t_triple", "Ttriple", True)
        const("p_critical", "p_critical", "p_critical", True)
        const("t_critical", "t_critical", "T_critical", True)

        def flash(label, call, key, steps, keys=None):
            for c in (True, False):
                A[f"{label}(calculate={c})"] = dict(call=lambda a, T, c=c, call=call: call(a, T, c), calc=c, key=key, kind="flash", steps=steps, keys=keys or [key])
        flash("saturation_pressure", lambda a, T, c: a.saturation_pressure(T, calculate=c), "saturation_pressure", lambda T: [("QT", 0.0, T, "p")])
        flash("pressure_saturation[bar]", lambda a, T, c: a.pressure_saturation(T, unit="bar", calculate=c), "saturation_pressure", lambda T: [("QT", 0.0, T, "p")])
        flash("surface_tension", lambda a, T, c: a.surface_tension(T, calculate=c), "surface_tension", lambda T: [("QT", 0.0, T, "surface_tension")])
        flash("liquid_density", lambda a, T, c: a.liquid_density(T, calculate=c), "liquid_density", lambda T: [("QT", 0.0, T, "rhomass")])
        flash("liquid_molar_density", lambda a, T, c: a.liquid_molar_density(T, calculate=c), "liquid_molar_density", lambda T: [("QT", 0.0, T, "rhomolar")])
        flash("gas_density", lambda a, T, c: a.gas_density(T, calculate=c), "gas_density", lambda T: [("QT", 1.0, T, "rhomass")])
        flash("gas_molar_density", lambda a, T, c: a.gas_molar_density(T, calculate=c), "gas_molar_density", lambda T: [("QT", 1.0, T, "rhomolar")])
        ek = ["enthalpy_liquefaction", "enthalpy_vaporisation"]
        flash("enthalpy_vaporisation[temp]", lambda a, T, c: a.enthalpy_vaporisation(temp=T, calculate=c), "enthalpy_liquefaction",
              lambda T: [("QT", 0.0, T, "hmolar"), ("QT", 1.0, T, "hmolar")], ek)
        flash("enthalpy_liquefaction[temp]", lambda a, T, c: a.enthalpy_liquefaction(temp=T, calculate=c), "enthalpy_liquefaction",
              lambda T: [("QT", 0.0, T, "hmolar"), ("QT", 1.0, T, "hmolar")], ek)
        flash("enthalpy_vaporisation[press]", lambda a, T, c: a.enthalpy_vaporisation(press=1.5e5, calculate=c), "enthalpy_liquefaction",
              lambda T: [("PQ", 1.5e5, 0.0, "hmolar"), ("PQ", 1.5e5, 1.0, "hmolar")], ek)
        return A

    ACC = accessors()

    def ads_misc(a):
        """Everything else that is public on an adsorbate."""
        out = [a.to_dict(), str(a), repr(a), hash(a) == hash(a.name), a.formula, a == a.name, a == "no-such-gas-pgv", "x-" + a, a + "-x", quiet(a.print_info)[1]]
        for k in ("backend_name", "molar_mass", "no-such-key"):
            try:
                out.append(a.get_prop(k))
            except Exception as e:  # noqa
                out.append(err_class(e))
        try:
            out.append(a.backend_name)
        except Exception as e:  # noqa
            out.append(err_class(e))
        return out

    def mat_misc(m):
        out = [m.to_dict(), str(m), repr(m), m.density, m.molar_mass, m == m.name, quiet(m.print_info)[1]]
        for k in ("density", "no-such-key"):
            try:
                out.append(m.get_prop(k))
            except Exception as e:  # noqa
                out.append(err_class(e))
        return out

    # ------------------------------------------------------------------ temperature-dependent queries of one isotherm of a world
    def other_mode(iso):
        return {"pressure_mode": "relative"} if iso.pressure_mode == "absolute" else {"pressure_mode": "absolute", "pressure_unit": "Pa"}

    def TDEP(which):
        def q_pressure(o):
            return o[which].pressure(**other_mode(o[which]))

        def q_loading_at(o):
            i = o[which]
            m = other_mode(i)
            return i.loading_at(float(np.median(i.pressure(branch="ads", **m))), **m)

        def q_pressure_at(o):
            i = o[which]
            return i.pressure_at(float(np.median(i.loading(branch="ads"))), **other_mode(i))

        def q_spreading(o):
            i = o[which]
            m = other_mode(i)
            return i.spreading_pressure_at(float(np.median(i.pressure(branch="ads", **m))), **m)
        return [(f"{which}.pressure(other mode)", q_pressure), (f"{which}.loading_at(other mode)", q_loading_at), (f"{which}.pressure_at(other mode)", q_pressure_at),
                (f"{which}.spreading_pressure_at(other mode)", q_spreading),
                (f"{which}.loading(volume_liquid)", lambda o: o[which].loading(loading_basis="volume_liquid", loading_unit="cm3")),
                (f"{which}.loading(volume_gas)", lambda o: o[which].loading(loading_basis="volume_gas", loading_unit="cm3"))]

    def transient_query(o, scale):
        """Queries on an isotherm that exists only during this call (other content than `iso`: loadings scaled)."""
        w = o.w
        if w["kind"] == "measured":
            src = load(w["file"])
            t = pg.PointIsotherm.from_isotherm(src, pressure=[float(x) for x in src.pressure(branch="ads")], loading=[float(x) * scale for x in src.loading(branch="ads")])
        else:
            t = build_point(w, scale=scale)
        m = other_mode(t)
        # the SAME arguments whatever the scale (a cache that tells the objects apart by their address only sees identical calls)
        x, y = float(np.median(t.pressure(branch="ads"))), float(t.loading(branch="ads").max()) * 0.75 / scale
        out = [_or_error(lambda: canon(t.loading_at(x))), _or_error(lambda: canon(t.pressure_at(y))), _or_error(lambda: canon(t.spreading_pressure_at(x))),
               _or_error(lambda: canon(t.loading_at(x * 1.01, interp_fill=(0.0, 3.0))))]
        for f in (lambda: t.pressure(**m)[:4], lambda: t.loading(loading_basis="volume_liquid", loading_unit="cm3")[:4]):
            try:
                out.append(f())
            except Exception as e:  # noqa
                out.append(err_class(e))
        return out

    # ------------------------------------------------------------------ guess fits: data of several shapes in the units of the world's isotherm
    GUESS_SHAPES = ("strictly linear", "type I with origin", "exact Langmuir", "saturating, top-heavy grid")

    def guess_data(o, shape):
        """Pressure / loading lists of a given shape over the pressure range of the world's isotherm (its units: bar, Pa, relative ... as the world has them)."""
        iso = o["iso"]
        pmax, lmax = float(iso.pressure(branch="ads").max()), float(iso.loading(branch="ads").max())
        if shape == "strictly linear":
            x = np.linspace(0.05, 1.0, 10)
            y = x
        elif shape == "type I with origin":
            x = np.array([0.0, 0.05, 0.25, 0.5, 1.0])
            y = np.array([0.0, 1.0, 2.0, 2.5, 2.7]) / 2.7
        elif shape == "exact Langmuir":
            x = np.linspace(0.04, 1.0, 9)
            y = 6.0 * x / (1.0 + 6.0 * x)
        else:
            x = np.array([0.01, 0.3, 0.5, 0.7, 0.8, 0.9, 0.95, 1.0])
            y = 1.0 - np.exp(-9.0 * x)
        return [float(v) for v in x * pmax], [float(v) for v in y * lmax]

    def guess_outcome(m):
        return (m.model.name, float(m.model.rmse), dict(m.model.params))

    def guess_query(o, shape, entry):
        """One `model='guess'` fit through one entry point; the data isotherm lives for this call only."""
        iso = o["iso"]
        if shape == "the isotherm itself":
            t = iso
        else:
            pp, ll = guess_data(o, shape)
            t = pg.PointIsotherm.from_isotherm(iso, pressure=pp, loading=ll)
        if entry == "model_iso":
            return guess_outcome(pgm.model_iso(t, model="guess"))
        if entry == "from_pointisotherm":
            return guess_outcome(pg.ModelIsotherm.from_pointisotherm(t, model="guess"))
        meta = dict(material=str(t.material), adsorbate=str(t.adsorbate), temperature=float(t.temperature), **t.units)
        pp, ll = [float(v) for v in t.pressure(branch="ads")], [float(v) for v in t.loading(branch="ads")]
        if entry == "guess(lists)":
            return guess_outcome(pg.ModelIsotherm.guess(pressure=pp, loading=ll, models="guess", **meta))
        return guess_outcome(pg.ModelIsotherm.guess(isotherm_data=pd.DataFrame({"p": pp, "l": ll}), pressure_key="p", loading_key="l", models="guess", **meta))

    GUESS_ENTRIES = ("model_iso", "from_pointisotherm", "guess(lists)", "guess(table)")
    _ge = list(GUESS_ENTRIES)
    rng.shuffle(_ge)
    GUESS_QUERIES = [(f"guess fit [{sh}] via {_ge[i % 4]}", (lambda o, sh=sh, en=_ge[i % 4]: guess_query(o, sh, en)), 0.12)
                     for i, sh in enumerate(GUESS_SHAPES + ("the isotherm itself",))]
    _names0 = sorted(set(pgm._MODELS) | set(pgm._GUESS_MODELS) | set(pgm._IAST_MODELS))

    def model_registry():
        """What the package says about its model names (public functions over module-level lists)."""
        return [(n, pgm.is_model(n), pgm.is_model_guess(n), pgm.is_model_iast(n)) for n in _names0]

    # ------------------------------------------------------------------ query catalogue: name -> f(objs) -> outcome
    def Q():
        qs = []

        def add(name, f, weight=1.0, sweep=True, heavy=False):
            qs.append((name, f, weight, sweep, heavy))
        for branch in (None, "ads", "des", "all"):
            add(f"pressure(branch={branch})", lambda o, b=branch: o["iso"].pressure(branch=b))
            add(f"loading(branch={branch}, mol/kg)", lambda o, b=branch: o["iso"].loading(branch=b, loading_unit="mol", material_unit="kg"))
        add("pressure(relative%)", lambda o: o["iso"].pressure(pressure_mode="relative%"))
        add("pressure(absolute, torr)", lambda o: o["iso"].pressure(pressure_mode="absolute", pressure_unit="torr"))
        add("pressure(limits, indexed)", lambda o: o["iso"].pressure(branch="ads", limits=(0.05, 0.5), indexed=True))
        add("loading(cm3(STP)/g)", lambda o: o["iso"].loading(loading_unit="cm3(STP)"))
        add("loading(percent)", lambda o: o["iso"].loading(loading_basis="percent"))
        add("loading(mass, mg)", lambda o: o["iso"].loading(loading_basis="mass", loading_unit="mg"))
        add("loading(volume_gas)", lambda o: o["iso"].loading(loading_basis="volume_gas", loading_unit="cm3"))
        add("loading(volume_liquid)", lambda o: o["iso"].loading(loading_basis="volume_liquid", loading_unit="cm3"))
        add("loading(material volume)", lambda o: o["iso"].loading(material_basis="volume", material_unit="cm3"))
        add("loading(material molar)", lambda o: o["iso"].loading(material_basis="molar", material_unit="mol"))
        add("loading(fraction)", lambda o: o["iso"].loading(loading_basis="fraction"))
        add("has_branch(des)", lambda o: o["iso"].has_branch("des"))
        add("other_keys", lambda o: o["iso"].other_keys)
        add("other_data(enthalpy)", lambda o: o["iso"].other_data("enthalpy", branch="ads"))
        add("data(ads)", lambda o: o["iso"].data(branch="ads"))
        add("equality", lambda o: (o["iso"] == o["iso"], o["iso"] == o["ref"]))
        for branch in ("ads", "des"):
            for kind in ("linear", "cubic", "slinear", "nearest"):
                for fill in (None, (0.0, 20.0), (0.0, 3.5), "extrapolate"):
                    for x in ("in", "out"):
                        def f(o, b=branch, k=kind, fl=fill, xx=x):
                            iso = o["iso"]
                            p = iso.pressure(branch=b)
                            q = float((p[len(p) // 3] + p[len(p) // 3 + 1]) / 2) if xx == "in" else float(p.max() * 1.2)
                            return iso.loading_at(q, branch=b, interpolation_type=k, interp_fill=fl)
                        add(f"loading_at({x}, {branch}, {kind}, fill={fill})", f, 0.25, sweep=False)
            for kind in ("linear", "slinear"):
                for fill in (None, (0.0, 1.0)):
                    def g(o, b=branch, k=kind, fl=fill):
                        iso = o["iso"]
                        l = iso.loading(branch=b)
                        return iso.pressure_at(float((l[3] + l[4]) / 2), branch=b, interpolation_type=k, interp_fill=fl)
                    add(f"pressure_at({branch}, {kind}, fill={fill})", g, 0.5, sweep=False)
            for fill in (None, (0.0, 25.0), (0.0, 12.0)):
                for where in ("below", "in", "above"):
                    def s(o, b=branch, fl=fill, w=where):
                        iso = o["iso"]
                        p = iso.pressure(branch=b)
                        q = {"below": float(p.min() * 0.5), "in": float(np.median(p)), "above": float(p.max() * 1.3)}[w]
                        return iso.spreading_pressure_at(q, branch=b, interp_fill=fl)
                    add(f"spreading_pressure_at({where}, {branch}, fill={fill})", s, 0.4, sweep=False)
        add("loading_at(units)", lambda o: o["iso"].loading_at(0.2, pressure_mode="relative", loading_unit="mol", material_unit="kg"))
        add("loading_at(kPa)", lambda o: o["iso"].loading_at(20.0, pressure_unit="kPa"))
        add("loading_at(volume_liquid)", lambda o: o["iso"].loading_at(float(np.median(o["iso"].pressure(branch="ads"))), loading_basis="volume_liquid", loading_unit="cm3"))
        add("pressure_at(relative out)", lambda o: o["iso"].pressure_at(float(np.median(o["iso"].loading(branch="ads"))), pressure_mode="relative"))
        add("spreading_pressure_at(in, default)", lambda o: o["iso"].spreading_pressure_at(float(np.median(o["iso"].pressure(branch="ads")))))
        # ---- queries whose value depends on the temperature through the SHARED adsorbate object (mode / basis conversions), on the
        #      isotherm itself and on near-duplicates of it (same adsorbate, temperature 1e-3 ... 5e-2 K away / rounded to single precision)
        for which, wt in (("iso", 0.5), ("near0", 0.4), ("near1", 0.3), ("near2", 0.4)):
            for qn, qf in TDEP(which):         # in the sweep: all of them on the isotherm itself, three on two of the near-duplicates (every object costs a snapshot per call)
                add(qn, qf, wt, sweep=which == "iso" or (which != "near1" and qn.endswith((".pressure(other mode)", ".loading_at(other mode)", ".loading(volume_liquid)"))))
        # ---- objects that live for one query only (their address is free again for the next one: a cache keyed on id() of an object)
        for sc in (0.8, 1.7):
            add(f"transient[{sc}]", lambda o, sc=sc: transient_query(o, sc), 0.4)
        add("to_json", lambda o: o["iso"].to_json())
        add("to_csv", lambda o: o["iso"].to_csv())
        add("to_aif", lambda o: o["iso"].to_aif())
        add("to_dict", lambda o: o["iso"].to_dict())
        add("str", lambda o: str(o["iso"]))
        add("print_info", lambda o: quiet(lambda: o["iso"].print_info())[1], 0.1, heavy=True)
        add("from_isotherm", lambda o: pg.PointIsotherm.from_isotherm(o["iso"], pressure=[1.0, 2.0, 3.0], loading=[1.0, 1.5, 1.7]).to_dict(), 0.3)
        add("from_modelisotherm", lambda o: pg.PointIsotherm.from_modelisotherm(o["miso"], pressure_points=[1e3, 1e4, 5e4]).to_dict(), 0.3)
        add("from_modelisotherm(points of iso)", lambda o: pg.PointIsotherm.from_modelisotherm(o["miso2"], pressure_points=o["iso"]).to_dict(), 0.3)
        # ---- every function exported by pygaps.characterisation
        add("area_BET", lambda o: pgc.area_BET(o["iso"]), 0.8)
        add("area_BET(limits)", lambda o: pgc.area_BET(o["iso"], p_limits=(0.05, 0.3)), 0.5)
        add("area_BET(des)", lambda o: pgc.area_BET(o["iso"], branch="des"), 0.3)
        add("area_BET_raw", lambda o: pgc.area_BET_raw(o["arrays"]["pressure"], o["arrays"]["loading"], 0.162), 0.3)
        add("area_langmuir", lambda o: pgc.area_langmuir(o["iso"]), 0.6)
        add("area_langmuir_raw", lambda o: pgc.area_langmuir_raw(o["arrays"]["pressure"], o["arrays"]["loading"], 0.162, p_limits=(0.05, 0.9)), 0.3)
        add("t_plot", lambda o: pgc.t_plot(o["iso"]), 0.6)
        add("t_plot(Halsey, limits)", lambda o: pgc.t_plot(o["iso"], thickness_model="Halsey", t_limits=(0.3, 0.8)), 0.4)
        add("t_plot(zero thickness)", lambda o: pgc.t_plot(o["iso"], thickness_model="zero thickness"), 0.2)
        add("t_plot(SiO2 ref)", lambda o: pgc.t_plot(o["iso"], thickness_model="SiO2 Jaroniec/Kruk/Olivier"), 0.5)
        add("t_plot(carbon ref)", lambda o: pgc.t_plot(o["iso"], thickness_model="carbon black Kruk/Jaroniec/Gadkaree"), 0.4)
        add("t_plot(reference isotherm)", lambda o: pgc.t_plot(o["iso"], thickness_model=o["ref"]), 0.3)
        add("t_plot_raw", lambda o: pgc.t_plot_raw(o["arrays"]["loading"], o["arrays"]["pressure"], mt.get_thickness_model("Halsey"), 0.8, 28.0), 0.3)
        add("thickness models", lambda o: [mt.get_thickness_model(n)(np.array([0.05, 0.2, 0.6, 0.9])) for n in sorted(mt._THICKNESS_MODELS)], 0.4)
        add("alpha_s", lambda o: pgc.alpha_s(o["iso"], reference_isotherm=o["ref"]), 0.6)
        add("alpha_s(reference area, des ref)", lambda o: pgc.alpha_s(o["iso"], reference_isotherm=o["ref"], reference_area=150.0, branch_ref="des", reducing_pressure=0.3), 0.4)
        add("alpha_s(langmuir area)", lambda o: pgc.alpha_s(o["iso"], reference_isotherm=o["ref"], reference_area="langmuir"), 0.3)
        add("alpha_s_raw", lambda o: pgc.alpha_s_raw(o["arrays"]["loading"], o["arrays"]["ref_loading"], float(o["arrays"]["ref_loading"][len(o["arrays"]["ref_loading"]) // 2]), 120.0, 0.8, 28.0), 0.3)
        add("alpha_s(reference over the same range)", lambda o: pgc.alpha_s(o["iso"], reference_isotherm=o["ref_same"]), 0.5)
        add("alpha_s(same range, caller's limits)", lambda o: pgc.alpha_s(o["iso"], reference_isotherm=o["ref_same"], reference_area=200.0, t_limits=o["opts"]["t_limits"]), 0.3)
        add("area_BET(caller's limit list)", lambda o: pgc.area_BET(o["iso"], p_limits=o["opts"]["p_limits"]), 0.3)
        add("t_plot(caller's limit list)", lambda o: pgc.t_plot(o["iso"], thickness_model="Halsey", t_limits=o["opts"]["t_limits"]), 0.3)
        add("psd_dft(user kernel, caller's kernel_units)", lambda o: pgc.psd_dft(o["iso"], kernel=o["kernel"]["a/other.csv"], kernel_units=o["opts"]["kernel_units"]), 0.2)
        add("initial_henry_virial(caller's optimization_params)", lambda o: pgc.initial_henry_virial(o["iso"], optimization_params=o["opts"]["optimization_params"]), 0.2)
        add("isosteric_enthalpy(caller's loading list)", lambda o: pgc.isosteric_enthalpy(o["temps_up"], loading_points=o["opts"]["loading_points"]), 0.2)
        add("model_iso(Langmuir, caller's guess / bounds / options)", lambda o: pgm.model_iso(o["iso"], model="Langmuir", param_guess=o["opts"]["param_guess"],
                                                                                   param_bounds=o["opts"]["param_bounds"], optimization_params=o["opts"]["optimization_params"]), 0.3)
        add("dr_plot", lambda o: pgc.dr_plot(o["iso"]), 0.5)
        add("da_plot", lambda o: pgc.da_plot(o["iso"], exp=2.3), 0.5)
        add("da_plot(exponent search)", lambda o: pgc.da_plot(o["iso"], p_limits=(0.0, 0.2)), 0.3)
        add("psd_mesoporous(BJH)", lambda o: pgc.psd_mesoporous(o["iso"], psd_model="BJH", pore_geometry="cylinder"), 0.5)
        add("psd_mesoporous(pygaps-DH, des)", lambda o: pgc.psd_mesoporous(o["iso"], psd_model="pygaps-DH", branch="des", pore_geometry="slit"), 0.4)
        add("psd_mesoporous(DH, ads, Halsey, Kelvin-KJS)", lambda o: pgc.psd_mesoporous(o["iso"], psd_model="DH", branch="ads", thickness_model="Halsey", kelvin_model="Kelvin-KJS"), 0.3)
        add("psd_mesoporous(SiO2 thickness)", lambda o: pgc.psd_mesoporous(o["iso"], thickness_model="SiO2 Jaroniec/Kruk/Olivier"), 0.3)
        add("psd_microporous(HK)", lambda o: pgc.psd_microporous(o["iso"], psd_model="HK", pore_geometry="slit"), 0.3)
        add("psd_microporous(HK-CY, cylinder)", lambda o: pgc.psd_microporous(o["iso"], psd_model="HK-CY", pore_geometry="cylinder"), 0.2)
        add("psd_dft(internal kernel)", lambda o: pgc.psd_dft(o["iso"], bspline_order=2), 0.05, heavy=True)
        add("psd_dft(user kernel)", lambda o: pgc.psd_dft(o["iso"], kernel=o["kernel"]["a/kernel.csv"], bspline_order=2), 0.3)
        add("psd_dft(user kernel 2, des)", lambda o: pgc.psd_dft(o["iso"], kernel=o["kernel"]["a/other.csv"], branch="des"), 0.2)
        add("initial_henry_slope", lambda o: pgc.initial_henry_slope(o["iso"], max_adjrms=0.1), 0.5)
        add("initial_henry_virial", lambda o: pgc.initial_henry_virial(o["iso"]), 0.3)
        add("initial_enthalpy_comp", lambda o: pgc.initial_enthalpy_comp(o["iso"], "enthalpy"), 0.3)
        add("initial_enthalpy_point", lambda o: pgc.initial_enthalpy_point(o["iso"], "enthalpy"), 0.3)
        add("isosteric_enthalpy", lambda o: pgc.isosteric_enthalpy(o["temps_up"]), 0.4)
        add("isosteric_enthalpy(points, descending list)", lambda o: pgc.isosteric_enthalpy(o["temps_down"], loading_points=[float(x) for x in np.quantile(o["iso"].loading(branch="ads"), [0.3, 0.5, 0.7])]), 0.3)
        add("isosteric_enthalpy_raw", lambda o: pgc.isosteric_enthalpy_raw(np.array([o["arrays"]["pressure"][2:8], o["arrays"]["pressure"][2:8] * 1.7]), [o["iso"].temperature, o["iso"].temperature + 10.0]), 0.3)
        add("whittaker(Toth)", lambda o: pgc.enthalpy_sorption_whittaker(o["iso"], model="Toth"), 0.3)
        add("whittaker(Langmuir, loadings)", lambda o: pgc.enthalpy_sorption_whittaker(o["iso"], model="Langmuir", loading=[float(x) for x in np.quantile(o["iso"].loading(branch="ads"), [0.2, 0.5, 0.8])]), 0.4)
        add("whittaker(model isotherm)", lambda o: pgc.enthalpy_sorption_whittaker(o["miso"], loading=[0.5, 1.0, 2.0]), 0.4)
        add("whittaker(model isotherm, wrong unit)", lambda o: pgc.enthalpy_sorption_whittaker(o["miso2"]), 0.1)
        add("whittaker raw placeholder", lambda o: pgc.enth_sorp_whittaker.enthalpy_sorption_whittaker_raw(p=1.0, p_sat=2.0, K=1.0, n=1.0, n_m=2.0), 0.05)
        # ---- fitting and model isotherms
        add("model_iso(Langmuir)", lambda o: pgm.model_iso(o["iso"], model="Langmuir"), 0.4)
        add("model_iso(Toth, des)", lambda o: pgm.model_iso(o["iso"], model="Toth", branch="des"), 0.2)
        add("model_iso(guess)", lambda o: pgm.model_iso(o["iso"], model=["Henry", "Langmuir", "Toth"]), 0.2, heavy=True)
        # ---- `model='guess'`: the candidate list is MODULE-LEVEL state shared by every call of the process, and several candidates FAIL inside the
        #      query on ordinary data (strictly linear uptake: six of ten; pressures in Pa: one).  Through every entry point, on data sets of several shapes.
        for gname, gf, gw in GUESS_QUERIES:
            add(gname, gf, gw, heavy=True)
        add("modelling name registry", lambda o: model_registry(), 0.3)
        for which in ("miso", "miso2"):
            add(f"{which}.loading_at", lambda o, w=which: o[w].loading_at(o[w].model.pressure_range[1] * 0.4), 0.3)
            add(f"{which}.pressure_at", lambda o, w=which: o[w].pressure_at(0.7), 0.3)
            add(f"{which}.spreading_pressure_at", lambda o, w=which: o[w].spreading_pressure_at(o[w].model.pressure_range[1] * 0.4), 0.3)
            add(f"{which}.pressure/loading", lambda o, w=which: (o[w].pressure(5), o[w].loading(5)), 0.2)
            add(f"{which}.exports", lambda o, w=which: (o[w].to_dict(), o[w].to_json(), str(o[w]), o[w].model.to_dict(), str(o[w].model), repr(o[w].model)), 0.2)
        add("base model spreading_pressure", lambda o: IsothermBaseModel.spreading_pressure(o["miso"].model, 1.0), 0.1)
        # ---- another isotherm of the same adsorbate at another temperature (shared thermodynamic state), the adsorbate and the material themselves
        add("cold.pressure(relative)", lambda o: o["cold"].pressure(pressure_mode="relative"), 1.0)
        add("cold.loading(volume_liquid)", lambda o: o["cold"].loading(loading_basis="volume_liquid", loading_unit="cm3"), 0.7)
        add("adsorbate.saturation_pressure(T)", lambda o: o["iso"].adsorbate.saturation_pressure(o["iso"].temperature), 1.0)
        add("adsorbate.liquid_density(T)", lambda o: o["iso"].adsorbate.liquid_density(o["iso"].temperature), 0.6)
        add("adsorbate.gas_density(90 K)", lambda o: o["iso"].adsorbate.gas_density(90.0), 0.6)
        add("adsorbate.enthalpy_vaporisation(press)", lambda o: o["iso"].adsorbate.enthalpy_vaporisation(press=2e5), 0.5)
        for an, spec in ACC.items():
            add(f"adsorbate.{an} at T", lambda o, s=spec: s["call"](o["iso"].adsorbate, o["iso"].temperature), 0.12)
            if spec["kind"] == "flash":
                add(f"adsorbate.{an} at another T", lambda o, s=spec: s["call"](o["iso"].adsorbate, o["T_other"]), 0.06)
        add("adsorbate.both intensive variables", lambda o: o["iso"].adsorbate.enthalpy_liquefaction(temp=80.0, press=1e5), 0.1)
        add("adsorbate.no intensive variable", lambda o: o["iso"].adsorbate.enthalpy_liquefaction(), 0.1)
        add("adsorbate.misc", lambda o: ads_misc(o["iso"].adsorbate), 0.3)
        add("material.misc", lambda o: mat_misc(o["iso"].material), 0.3)
        add("Adsorbate.find / Material by name", lambda o: (pg.Adsorbate.find(o["iso"].adsorbate.name).name, pg.Adsorbate.find(o["iso"].adsorbate.alias[0]).name), 0.2)
        if iast_ok:
            add("iast_point", lambda o: pgi.iast_point(o["pair"], partial_pressures=[0.5, 0.5]), 0.3)
            add("iast_point_fraction", lambda o: pgi.iast_point_fraction(o["pair"], gas_mole_fraction=[0.4, 0.6], total_pressure=1.0), 0.2)
            add("iast_point(des, fill)", lambda o: pgi.iast_point(o["pair"], partial_pressures=[0.3, 0.2], branch="des"), 0.2)
            add("iast_binary_vle", lambda o: pgi.iast_binary_vle(o["pair"], total_pressure=1.0, npoints=4), 0.15, heavy=True)
            add("iast_binary_svp", lambda o: pgi.iast_binary_svp(o["pair"], mole_fractions=[0.5, 0.5], pressures=[0.2, 0.8]), 0.15)
            add("reverse_iast", lambda o: pgi.reverse_iast(o["pair"], adsorbed_mole_fractions=[0.3, 0.7], total_pressure=1.0), 0.2)
            add("iast_point(near the top of the range)", lambda o: pgi.iast_point(o["pair"], partial_pressures=[float(i.pressure(branch="ads").max()) * 0.9 for i in o["pair"]]), 0.2)
            add("iast_point(model isotherms)", lambda o: pgi.iast_point([o["miso2"], o["miso2"]], partial_pressures=[0.2, 0.3]), 0.2)
        return qs

    queries = Q()
    weights = [q[2] for q in queries]
    import time as _time
    timing, _t = {}, [_time.time()]

    def lap(name):
        timing[name] = round(timing.get(name, 0.0) + _time.time() - _t[0], 2)
        _t[0] = _time.time()
    ck.cov["section_seconds"] = timing
    # is every function exported by pygaps.characterisation in the catalogue?  (a new export must not stay outside silently)
    exported = sorted(n for n, v in vars(pgc).items() if callable(v) and not n.startswith("_") and getattr(v, "__module__", "").startswith("pygaps.characterisation"))
    reached_exports = set()
    _orig = {}
    for n in exported:
        def wrap(fn, n=n):
            def w(*a, **k):
                reached_exports.add(n)
                return fn(*a, **k)
            w.__wrapped__ = fn
            return w
        _orig[n] = getattr(pgc, n)
        setattr(pgc, n, wrap(_orig[n]))

    def outcome(f, objs):
        try:
            with np.errstate(all="ignore"):
                return ("ok", canon(f(objs)))
        except Exception as e:  # noqa
            return ("err", err_class(e))

    def snap_objs(objs):
        return {k: snap_any(pg, v, objs.ids == "all" or k == "iso") for k, v in list(objs.items()) if k not in ("T_other", "kernel")}

    cache_fresh, shrinks = {}, [0]

    def describe(world):
        """Everything needed to rebuild the objects of a world by hand (goes into the replay file)."""
        if world["kind"] == "measured":
            return {"isotherm": "docs/examples/data/characterisation/" + world["file"], "model isotherms (Pa / bar)": [world["miso"], world["miso2"]],
                    "near-duplicate temperatures (near0..2: the same isotherm, same adsorbate object)": world.get("near_T")}
        return {"adsorbate": all_defs[world["adsorbate"]], "temperature (K)": world["T"], "temperature as stored (in units['temperature_unit'])": world["stored_temperature"], "second temperature (K)": world["T2"],
                "near-duplicate temperatures (near0..2: the same isotherm, same adsorbate object)": world.get("near_T"), "units": world["units"], "material": world["material"],
                "pressure": world["pressure"], "loading": world["loading"], "branch": world["branch"], "model isotherms (Pa / bar)": [world["miso"], world["miso2"]]}

    MODULE_SLOTS = g["MODULE_SLOTS"]
    leads_done = set()

    def _same(a, b):
        try:
            return bool(a == b)
        except Exception:
            return a is b

    def module_dirty():
        """Module-level / class-level containers of the package whose CONTENT differs from the content right after import — other than dictionaries that only
        grew (memo caches: their invisibility is what the comparison with the fresh call tests).  Looked at BEFORE anything is put back."""
        out = []
        for sl in MODULE_SLOTS:
            c, pr = sl["obj"], sl["pristine"]
            if _same(c, pr):
                continue
            if isinstance(c, dict) and isinstance(pr, dict) and all(k in c and _same(c[k], pr[k]) for k in pr):
                continue
            out.append((sl, _ccopy(c)))
        return out

    def _put(c, content):
        new = _ccopy(content)
        if isinstance(c, (dict, set)):
            c.clear()
            c.update(new)
        elif isinstance(c, list):
            c[:] = new
        else:
            c.clear()
            c.extend(new)

    def follow_module_leads(world, seq):
        """A history left a module-level container (a list / set of names, a table of units ...) with another content than a fresh interpreter has.  That is a LEAD,
        not yet a violation: look for a query whose outcome on FRESH objects differs when the containers hold what the history left in them, and shrink the history."""
        dirty = module_dirty()
        if not dirty:
            return
        labels = tuple(sorted(sl["label"] for sl, _ in dirty))
        note = ck.cov["module_state"].setdefault("containers_changed_by_a_history (other than dictionaries that only grew)", {})
        for sl, content in dirty:
            note.setdefault(sl["label"], {"after import": repr(sl["pristine"])[:300], "after the history": repr(content)[:300], "world": world["name"], "history (last calls)": [h[0] for h in seq[-6:]]})
        if labels in leads_done:
            return
        leads_done.add(labels)
        t0, found = _time.time(), 0
        probes = [q for q in queries if q[0].startswith("guess fit") or q[0] == "modelling name registry"] + [q for q in queries if q[3] and not q[4]]
        for name, f, *_ in probes:
            if _time.time() - t0 > 30.0 or found >= 2:
                break
            key = (world["name"], name)
            if key not in cache_fresh:
                cache_fresh[key] = outcome(f, fresh(world))
            ref_out = cache_fresh[key]
            o2 = fresh(world, light=True)
            for sl, content in dirty:
                _put(sl["obj"], content)
            out = outcome(f, o2)
            ck.count((world["name"], labels, "lead", name), bucket="module-state-lead:probe")
            if out == ref_out:
                continue
            found += 1

            def reproduces(hist, f=f, ref_out=ref_out):
                o3 = fresh(world, light=True)
                for _hn, hf, *_ in hist:
                    outcome(hf, o3)
                return outcome(f, o3) != ref_out
            short = shrink_history(list(seq), reproduces) if len(seq) > 1 else list(seq)
            ck.fail_case({"query": name, "clause": "outcome depends on the query history", "last_query": short[-1][0] if short else None},
                         {"world": world["name"], "history": [h[0] for h in short], "then": name, "after_history": str(out)[:300], "fresh": str(ref_out)[:300],
                          "module-level containers the history changed": {sl["label"]: {"after import": repr(sl["pristine"])[:300], "after the history": repr(content)[:300]} for sl, content in dirty},
                          "world_definition": describe(world)})
        clean_state()

    def run_history(world, seq, tag, bucket_prefix="query:", ids="all"):
        """One history on fresh objects of `world`; the reference outcomes (same call FIRST on identical fresh objects) are computed
        beforehand so that nothing disturbs the objects under test while the history runs."""
        for name, f, *_ in seq:
            key = (world["name"], name)
            if key not in cache_fresh:
                cache_fresh[key] = outcome(f, fresh(world))
        objs = fresh(world)
        objs.ids = ids
        history = []
        for qi, (name, f, *_) in enumerate(seq):
            out = outcome(f, objs)
            after = snap_objs(objs)
            before = {k: objs.snaps[k] for k in after}       # objects built during this call: their snapshot at construction
            sig = {"query": name}
            ck.count((world["name"], tuple(history), name), nontrivial=qi > 0, bucket=bucket_prefix + name.split("(")[0] + ":" + out[0],
                     sample={"world": world["name"], "history": list(history[-4:]), "query": name, "outcome": str(out)[:120]} if (tag * 7 + qi) % 53 == 0 else None)
            ck.cov["distribution"]["world:" + world["class"]] = ck.cov["distribution"].get("world:" + world["class"], 0) + 1
            if before != after:
                changed = [k for k in before if before[k] != after[k]]
                ck.fail_case({**sig, "clause": "argument modified by a read-only call", "object": changed[0]},
                             {"world": world["name"], "history": list(history), "changed": {k: _first_diff(before[k], after[k]) for k in changed}, "world_definition": describe(world)})
            if bucket_prefix == "sweep:":
                ck.cov.setdefault("sweep_outcomes", {}).setdefault(world["name"], {})[name] = out[0] if out[0] == "ok" else out[1]
            ref_out = cache_fresh[(world["name"], name)]
            if out != ref_out:
                short = list(seq[:qi])
                if len(short) > 1 and shrinks[0] < 6:                  # a long history: look for a short one that shows the same difference on fresh objects
                    shrinks[0] += 1

                    def reproduces(hist, f=f, ref_out=ref_out):
                        o2 = fresh(world, light=True)
                        for _hn, hf, *_ in hist:
                            outcome(hf, o2)
                        return outcome(f, o2) != ref_out
                    short = shrink_history(short, reproduces)
                ck.fail_case({**sig, "clause": "outcome depends on the query history", "last_query": short[-1][0] if short else None},
                             {"world": world["name"], "history": [h[0] for h in short], "length of the history in which it was met": qi, "after_history": str(out)[:300],
                              "fresh": str(ref_out)[:300], "world_definition": describe(world)})
            history.append(name)
            objs.snaps = after
        for k, first in objs.first_ids.items():
            if _ids_of(objs[k]) != first:
                ck.fail_case({"query": "sequence", "clause": "argument modified by a read-only call", "object": k},
                             {"world": world["name"], "history": list(history), "changed": {"identifier": [str(first), str(_ids_of(objs[k]))]}})
        reg = registry_changes()
        if reg:
            ck.fail_case({"query": "sequence", "clause": "registered adsorbate modified by read-only calls", "object": reg[0]["adsorbate"]},
                         {"world": world["name"], "history": list(history), "changed": reg[:3]})
        follow_module_leads(world, list(seq))
        twin_observation(world, objs, history, full=bucket_prefix in ("sweep:", "query:", "option-kind-iast:"))      # (the CSV / AIF texts in the long histories only: 5 ms each)

    ISO_KEYS = ("iso", "ref", "cold", "ref_same", "miso", "miso2", "pair", "near0", "near1", "near2")

    def observe(v, full=True):
        """Everything a user can read off an isotherm without a query: identifier, dictionary, the three export texts, the names bound on the instance, the labels."""
        if isinstance(v, (list, tuple)):
            return [observe(x, full) for x in v]
        if not _is_isotherm(v):
            return None
        return {"iso_id": _or_error(lambda: v.iso_id), "to_dict": _or_error(lambda: canon(v.to_dict())), "to_dict keys": _or_error(lambda: tuple(str(k) for k in v.to_dict())),
                "to_json": _or_error(lambda: v.to_json()), "to_csv": _or_error(lambda: v.to_csv() if full and hasattr(v, "to_csv") else None), "to_aif": _or_error(lambda: v.to_aif() if full and hasattr(v, "to_aif") else None),
                "str": _or_error(lambda: str(v)), "public_attributes": tuple(sorted(k for k in vars(v) if not k.startswith("_"))),
                "private_attributes": tuple(sorted(k for k in vars(v) if k.startswith("_")))}

    def twin_observation(world, objs, history, full=True):
        """After the history: every isotherm that took part, against an IDENTICAL FRESH one (built now, never queried): same identifier, dictionary (keys in order and
        values), export texts, instance names — and `==` between the two holds.  The per-call snapshots compare an object with itself before / after; this one also sees
        what a lazily created attribute adds between construction and the first look, and the exports even when no export query was drawn into the history."""
        keys = [k for k in ISO_KEYS if k in objs and objs[k] is not None]
        if not keys or not history:
            return
        _t0 = _time.time()
        used = {k: observe(objs[k], full) for k in keys}
        _t1 = _time.time()
        tw = fresh(world, light=True)
        _t2 = _time.time()
        timing["(observe, included above)"] = round(timing.get("(observe, included above)", 0.0) + _t1 - _t0, 2)
        timing["(twin fresh, included above)"] = round(timing.get("(twin fresh, included above)", 0.0) + _t2 - _t1, 2)
        for k in keys:
            t = tw[k]
            want = observe(t, full)
            pairs = list(zip(objs[k], t, used[k], want)) if isinstance(t, (list, tuple)) else [(objs[k], t, used[k], want)]
            for j, (a, b, oa, ob) in enumerate(pairs):
                if oa is None:
                    continue
                ck.count((world["name"], tuple(history), "twin", k, j), bucket="twin-observation:" + type(a).__name__)
                priv = [x for x in oa["private_attributes"] if x not in ob["private_attributes"]]
                if priv:
                    ck.cov.setdefault("private attributes bound after construction", {})[type(a).__name__] = priv
                eq = _or_error(lambda: bool(a == b))
                diff = [x for x in oa if x != "private_attributes" and oa[x] != ob[x]]
                if diff or eq is not True:
                    what = diff[0] if diff else "=="
                    ck.fail_case({"query": "sequence", "clause": "isotherm after read-only calls differs from an identical fresh one", "object": k, "observation": what},
                                 {"world": world["name"], "history": list(history[-12:]), "length of the history": len(history), "object": k if len(pairs) == 1 else f"{k}[{j}]",
                                  "differs in": diff, "== with the fresh twin": str(eq),
                                  "first difference (after the history | fresh)": _text_diff(oa[what], ob[what]) if diff else None,
                                  "instance names bound after construction": priv, "world_definition": describe(world)})

    # ------------------------------------------------------------------ worlds of this run
    measured = [measured_world(f) for f in SAMPLES]
    synthetic = [synthetic_world(label, name, i) for i, (label, name) in enumerate(pool)]
    ck.cov["adsorbate_pool"] = [{"class": l, "adsorbate": n, "stored_keys": [k for k in THERMO_KEYS if k in all_defs[n]]} for l, n in pool]

    # ------------------------------------------------------------------ (1) sweep: every catalogue entry at least once per world class, as ONE long history
    sweep_worlds = (measured if thorough else [rng.choice(measured)]) + synthetic
    for wi, world in enumerate(sweep_worlds):
        seq = [q for q in queries if q[3] and not q[4]]
        if thorough or wi == 0:
            seq += [q for q in queries if q[4] and (thorough or q[0] != "psd_dft(internal kernel)")]   # the slow entries once per run (quick) / once per world (thorough);
            # the full internal kernel (3 s per fit) in the quick tier only through the random histories and the loader pairs of section 6
        # adsorbates with a backend but without a stored key must meet the analyses that ask for that key: nothing to arrange, every world gets every entry
        rng.shuffle(seq)
        run_history(world, seq, 1000 + wi, bucket_prefix="sweep:", ids="iso")
    lap("1 sweep")
    # ------------------------------------------------------------------ (2) seeded random histories
    nseq = ck.n(22, 160)
    worlds = measured + synthetic
    for si in range(nseq):
        world = rng.choice(measured) if rng.random() < 0.6 else rng.choice(synthetic)
        length = rng.randint(2, ck.n(8, 14))
        seq = rng.choices(queries, weights=weights, k=length)
        run_history(world, seq, si)
    lap("2 random histories")
    for n in exported:
        setattr(pgc, n, _orig[n])
    missing = [n for n in exported if n not in reached_exports]
    ck.cov["characterisation_exports"] = {"exported": exported, "not_called_in_this_run": missing}
    if missing:
        ck.broken.append({"step": "catalogue completeness", "what": "functions exported by pygaps.characterisation that no query of the catalogue calls: " + ", ".join(missing)})

    # ------------------------------------------------------------------ (3) targeted pairs: two queries whose cache keys differ in exactly ONE component
    trace = []          # (driver line, expectation checker, description) for the Lean cache model

    def real_interp(iso):
        def key(c):
            return "~" if c is None else f"{c.interp_branch},{c.interp_kind},{fill_tok(c.interp_fill)}"
        return key(iso.l_interpolator), key(iso.p_interpolator)

    def expect_interp(iso, what):
        l, p = real_interp(iso)
        return lambda reply, l=l, p=p: (f"l={l} p={p} " in reply.split("|")[-1] + " ", f"real caches l={l} p={p}")

    from scipy.interpolate import interp1d
    branches, kinds, fills = ("ads", "des"), ("linear", "cubic"), (None, (0.0, 20.0), (0.0, 3.5))
    keys = list(itertools.product(branches, kinds, fills))
    for world in (measured if thorough else rng.sample(measured, 2)) + rng.sample(synthetic, ck.n(1, 3)):
        for fn in ("loading_at", "pressure_at", "spreading_pressure_at"):
            fresh_out = {}

            def call(objs, key, where, fn=fn):
                iso = objs["iso"]
                b, k, fl = key
                if fn == "pressure_at":
                    l = iso.loading(branch=b)
                    x = float((l[3] + l[4]) / 2) if where == "in" else float(l.max() * 1.3)
                    return iso.pressure_at(x, branch=b, interpolation_type=k, interp_fill=fl)
                p = iso.pressure(branch=b)
                x = float((p[len(p) // 3] + p[len(p) // 3 + 1]) / 2) if where == "in" else float(p.max() * 1.2)
                if fn == "loading_at":
                    return iso.loading_at(x, branch=b, interpolation_type=k, interp_fill=fl)
                return iso.spreading_pressure_at(x, branch=b, interp_fill=fl)

            buildable_memo = {}

            def buildable(fn, key):
                """Does scipy build this interpolator on this branch of this world?  (the residue B of the Lean model, asked directly)"""
                b, k, fl = key
                if (fn, key) not in buildable_memo:
                    src = fresh(world, light=True)["iso"]
                    xs, ys = (src.loading(branch=b), src.pressure(branch=b)) if fn == "pressure_at" else (src.pressure(branch=b), src.loading(branch=b))
                    try:
                        interp1d(xs, ys, kind=k) if fl is None else interp1d(xs, ys, kind=k, fill_value=fl, bounds_error=False)
                        buildable_memo[(fn, key)] = True
                    except Exception:
                        buildable_memo[(fn, key)] = False
                return "T" if buildable_memo[(fn, key)] else "F"

            def line(fn, key, out):
                b, k, fl = key
                if fn == "loading_at":
                    return f"L {b} {k} {fill_tok(fl)} {buildable(fn, key)}"
                if fn == "pressure_at":
                    return f"P {b} {k} {fill_tok(fl)} {buildable(fn, key)}"
                return f"S {b} {fill_tok(fl)} {'T' if out == ('err', 'calc') else 'F'} {buildable('loading_at', (b, 'linear', fl))}"
            for k1, k2 in itertools.product(keys, keys):
                if sum(a != b for a, b in zip(k1, k2)) != 1:
                    continue
                if fn == "spreading_pressure_at" and k1[1] != "linear":
                    continue
                for where in ("in", "out"):
                    if (k2, where) not in fresh_out:
                        fresh_out[(k2, where)] = outcome(lambda o: call(o, k2, where), fresh(world, light=True))
                    objs = fresh(world, light=True)
                    first_fn = "loading_at" if fn == "spreading_pressure_at" else fn
                    out1 = outcome(lambda o: call(o, k1, where, fn=first_fn), objs)
                    trace.append(("reset", None, None))
                    trace.append((line(first_fn, k1, out1), expect_interp(objs["iso"], first_fn), f"{world['name']}: {first_fn}{k1}"))
                    out = outcome(lambda o: call(o, k2, where), objs)
                    k2m = (k2[0], "linear", k2[2]) if fn == "spreading_pressure_at" else k2
                    trace.append((line(fn, k2m, out), expect_interp(objs["iso"], fn), f"{world['name']}: {first_fn}{k1} then {fn}{k2}"))
                    ck.count((world["name"], fn, k1, k2, where), bucket="targeted-pair:" + fn)
                    if out != fresh_out[(k2, where)]:
                        ck.fail_case({"query": f"{fn}{k2}", "clause": "outcome depends on the query history", "last_query": f"{first_fn}{k1}"},
                                     {"world": world["name"], "where": where, "after_history": str(out)[:200], "fresh": str(fresh_out[(k2, where)])[:200]})
    lap("3 interpolation pairs")

    # ------------------------------------------------------------------ (3b) every admissible value KIND of every option, in both orders: chains of interpolation calls
    # One call = (function, branch, interpolation kind, fill, unit arguments, where the abscissa lies, late digits of the abscissa).  Around a
    # random base call, every component in turn runs through ALL its values along an Euler circuit of the complete digraph (every ordered
    # pair of values exactly once, the other components fixed) on ONE isotherm object; every call is compared with the same call issued first
    # on identical fresh objects.  A mismatch is shrunk to the shortest suffix of the chain that reproduces it on fresh objects.
    FNS = ("loading_at", "spreading_pressure_at", "pressure_at")
    KINDS = ("linear", "nearest", "nearest-up", "zero", "slinear", "quadratic", "cubic", "previous", "next")
    # fills: none / a number / a (below, above) pair / 'extrapolate' / arrays — two different values of every kind, and near-duplicates
    # ONE list: every ordered pair of value kinds meets in a fill circuit — in particular (below, above) tuples next to bare arrays and numpy numbers,
    # where `cached_fill != requested_fill` broadcasts to an array that has no truth value (S53-C04: the second call raised ValueError although the
    # same call on a fresh isotherm returns a value; repaired in the library by comparing the fills kind by kind).
    FILLS = [None, "extrapolate", 3.5, 3.5000001, 1.25, np.float64(4.75), (0.0, 20.0), (0.0, 3.5), (0.0, 3.5000001), (np.array([0.0]), np.array([6.0])), (np.array(0.25), np.array(7.0)),
             np.array(2.5), np.array([1.5]), np.array(2.5000001)]
    WHERES = ("in", "above", "below")
    XVARS = (0, 1, 2, 3)

    def unit_variants(iso):
        return [{}, other_mode(iso), {"pressure_mode": "absolute", "pressure_unit": "kPa"}, {"loading_unit": "mol", "material_unit": "kg"},
                {"loading_basis": "volume_liquid", "loading_unit": "cm3"}, {"material_basis": "volume", "material_unit": "cm3"}]

    def abscissa(iso, fn, b, where, xv):
        if fn == "pressure_at":
            v = iso.loading(branch=b)
            x = {"in": float((v[3] + v[4]) / 2), "above": float(v.max() * 1.3), "below": float(v.min() - 0.1 * (v.max() - v.min()))}[where]
        else:
            v = iso.pressure(branch=b)
            x = {"in": float((v[len(v) // 3] + v[len(v) // 3 + 1]) / 2), "above": float(v.max() * 1.2), "below": float(v.min() * 0.5 if v.min() > 0 else -0.05 * v.max())}[where]
        return (x, x * (1 + 1e-7), x * (1 + 3e-3), np.float32(x))[xv]

    def do_call(iso, c, fills):
        fn, b, k, fi, ui, where, xv = c
        kw = dict(branch=b, interp_fill=fills[fi], **unit_variants(iso)[ui])
        if fn != "spreading_pressure_at":
            kw["interpolation_type"] = k
        return getattr(iso, fn)(abscissa(iso, fn, b, where, xv), **kw)

    def call_name(c, fills, target="iso"):
        fn, b, k, fi, ui, where, xv = c
        xs = ("", " *(1+1e-7)", " *(1+3e-3)", " as float32")[xv]
        return f"{target}.{fn}({where}{xs}, {b}, {k}, fill={fills[fi]!r}, unit arguments #{ui})"

    class Residue:
        """What the Lean model leaves to scipy / to the data of one world, asked directly (never through the isotherm under test)."""

        def __init__(self, world):
            self.src = fresh(world, light=True)["iso"]
            self.memo = {}
            self.branches = [b for b in ("ads", "des") if self.src.has_branch(b)]
            self.units = unit_variants(self.src)

        def buildable(self, fn, b, k, fl):
            key = (fn, b, k, fill_tok(fl))
            if key not in self.memo:
                xs, ys = (self.src.loading(branch=b), self.src.pressure(branch=b)) if fn == "pressure_at" else (self.src.pressure(branch=b), self.src.loading(branch=b))
                try:
                    interp1d(xs, ys, kind=k) if fl is None else interp1d(xs, ys, kind=k, fill_value=fl, bounds_error=False)
                    self.memo[key] = "T"
                except Exception:
                    self.memo[key] = "F"
            return self.memo[key]

        def answers_without_interpolator(self, b, fl, units, x):
            """spreading_pressure_at: does the call end before `loading_at` is reached (conversion refused, range guard, Henry region)?"""
            try:
                with np.errstate(all="ignore"):
                    ps = self.src.pressure(branch=b, pressure_unit=units.get("pressure_unit"), pressure_mode=units.get("pressure_mode"))
                    ls = self.src.loading(branch=b, loading_unit=units.get("loading_unit"), loading_basis=units.get("loading_basis"),
                                          material_unit=units.get("material_unit"), material_basis=units.get("material_basis"))
                    if len(ps) > 1 and ps[0] > ps[-1]:
                        ps, ls = ps[::-1], ls[::-1]
                    if fl is None and x > ps.max():
                        return True
                    if len(ps) > 1 and ps[0] == 0 and ls[0] == 0:
                        ps, ls = ps[1:], ls[1:]
                    return int(np.sum(ps < x)) == 0
            except Exception:
                return True

        def line(self, c, fills):
            fn, b, k, fi, ui, where, xv = c
            fl = fills[fi]
            if fn == "loading_at":
                return f"L {b} {k} {fill_tok(fl)} {self.buildable(fn, b, k, fl)}"
            if fn == "pressure_at":
                return f"P {b} {k} {fill_tok(fl)} {self.buildable(fn, b, k, fl)}"
            short = self.answers_without_interpolator(b, fl, self.units[ui], abscissa(self.src, fn, b, where, xv))
            return f"S {b} {fill_tok(fl)} {'T' if short else 'F'} {self.buildable('loading_at', b, 'linear', fl)}"

    chain_fresh, chain_fails = {}, [0]

    def run_chain(world, res, chain, fills, what):
        ckey = lambda c: (world["name"], c[0], c[1], c[2], fill_tok(fills[c[3]]), c[4], c[5], c[6])  # noqa: E731
        for c in chain:
            if ckey(c) not in chain_fresh:
                chain_fresh[ckey(c)] = outcome(lambda o: do_call(o["iso"], c, fills), fresh(world, light=True))
        objs = fresh(world, light=True)
        iso = objs["iso"]
        trace.append(("reset", None, None))
        for i, c in enumerate(chain):
            out = outcome(lambda o: do_call(o["iso"], c, fills), objs)
            trace.append((res.line(c, fills), expect_interp(iso, c[0]), f"{world['name']}: chain ({what}) step {i}: {call_name(c, fills)}"))
            ck.count((world["name"], what, tuple(ckey(x)[1:] for x in chain[max(0, i - 1):i + 1])), nontrivial=i > 0, bucket="option-kind-chain:" + what)
            ref_out = chain_fresh[ckey(c)]
            if out == ref_out:
                continue
            chain_fails[0] += 1
            history = list(chain[:i])
            if chain_fails[0] <= 12:                                   # a short history that reproduces the difference on fresh objects
                def reproduces(hist, c=c, ref_out=ref_out):
                    o2 = fresh(world, light=True)
                    for c1 in hist:
                        outcome(lambda o: do_call(o["iso"], c1, fills), o2)
                    return outcome(lambda o: do_call(o["iso"], c, fills), o2) != ref_out
                history = shrink_history(history, reproduces)
            ck.fail_case({"query": call_name(c, fills), "clause": "outcome depends on the query history", "last_query": call_name(history[-1], fills) if history else None},
                         {"world": world["name"], "history": [call_name(x, fills) for x in history], "after_history": str(out)[:300], "fresh": str(ref_out)[:300],
                          "length of the chain before the call": i, "unit arguments": {f"#{j}": u for j, u in enumerate(res.units)}, "abscissa": repr(abscissa(res.src, c[0], c[1], c[5], c[6])), "world_definition": describe(world)})
            return False
        twin_observation(world, objs, [call_name(x, fills) for x in chain], full=False)
        return True

    COMPONENTS = {"function": 0, "branch": 1, "kind": 2, "fill": 3, "units": 4, "where": 5, "abscissa digits": 6}
    chain_worlds = (measured if thorough else rng.sample(measured, 2)) + rng.sample(synthetic, ck.n(1, 3))
    for world in chain_worlds:
        res = Residue(world)
        kinds_w = list(KINDS) if thorough else ["linear"] + rng.sample(KINDS[1:], 2)
        nb = ck.n(6, 24)
        for bi in range(nb):
            if chain_fails[0] > 40:
                break
            fills = FILLS
            base = [FNS[bi % 3], rng.choice(res.branches), "linear" if rng.random() < 0.4 else rng.choice(kinds_w), rng.randrange(len(fills)),
                    0 if rng.random() < 0.6 else rng.randrange(len(res.units)), rng.choices(WHERES, weights=(0.3, 0.4, 0.3))[0], 0]
            for comp, ci in COMPONENTS.items():
                values = {"function": list(FNS), "branch": res.branches, "kind": list(KINDS) if (bi == 0 or thorough) else kinds_w, "fill": list(range(len(fills))),
                          "units": list(range(len(res.units))), "where": list(WHERES), "abscissa digits": list(XVARS)}[comp]
                if len(values) < 2 or (comp == "kind" and base[0] == "spreading_pressure_at"):
                    continue
                chain = []
                for j in euler_circuit(len(values), rng):
                    c = list(base)
                    c[ci] = values[j]
                    if comp == "fill" and base[0] != "pressure_at":          # the two functions that share the loading interpolator, mixed
                        c[0] = "loading_at" if rng.random() < 0.6 else "spreading_pressure_at"
                    chain.append(tuple(c))
                chain = [c if c[0] != "spreading_pressure_at" else c[:2] + ("linear",) + c[3:] for c in chain]     # (spreading_pressure_at has no kind argument: always linear)
                run_chain(world, res, chain, fills, comp)
    lap("3b option-kind chains")
    # ------------------------------------------------------------------ (3c) near-duplicate temperatures on ONE shared adsorbate object: a query on the isotherm at T' then the
    #                                                                      query on the isotherm at T (and the reverse), T' = T +- 1e-3 ... 5e-2 K / T in single precision
    tdep_iso = TDEP("iso")
    for world in chain_worlds:
        combos = [(i, qa, qb, order) for i in range(3) for qa in TDEP(f"near{i}") for qb in tdep_iso for order in (0, 1)]
        for ti, (i, qa, qb, order) in enumerate(rng.sample(combos, min(len(combos), ck.n(30, 90)))):
            run_history(world, [qa, qb] if order == 0 else [qb, qa], 2000 + ti, bucket_prefix="near-duplicate-temperature:", ids="iso")
    # ... and objects that live for one query only, one right after the other (the second one may get the address of the first)
    byname = {q[0]: q for q in queries}
    for world in chain_worlds:
        for a, b in (("transient[0.8]", "transient[1.7]"), ("transient[1.7]", "transient[0.8]")):     # alternating: the allocator settles on one address after a few rounds
            run_history(world, [byname[a], byname[b]] * 4, 2500, bucket_prefix="recycled-address:", ids="iso")
    lap("3c near-duplicate temperatures")
    # ------------------------------------------------------------------ (3d) the same option kinds seen through IAST: an interpolation call with any fill on one isotherm of the
    #                                                                      pair, then an IAST calculation (which asks loading_at / spreading_pressure_at without a fill), and the reverse
    if iast_ok:
        iast_names = [n for n in byname if n.startswith(("iast_", "reverse_iast")) and "model isotherms" not in n and "binary_vle" not in n]
        for world in [rng.choice(measured), rng.choice(synthetic)]:
            for ti in range(ck.n(8, 48)):
                fills = FILLS
                j = rng.randrange(2)
                c = (rng.choice(FNS[:2]), "ads" if rng.random() < 0.7 else "des", "linear" if rng.random() < 0.7 else rng.choice(KINDS), rng.randrange(len(fills)), 0, rng.choice(WHERES), 0)
                first = (call_name(c, fills, target=f"pair[{j}]"), lambda o, c=c, j=j, fills=fills: do_call(o["pair"][j], c, fills))
                second = byname[rng.choice(iast_names)]
                run_history(world, [first, second] if rng.random() < 0.75 else [second, first], 3000 + ti, bucket_prefix="option-kind-iast:", ids="iso")
    lap("3d option kinds through IAST")
    # ------------------------------------------------------------------ (4) targeted triples on the shared thermodynamic state: a(T1), b(T2), a(T1)
    acc = {"saturation_pressure": lambda a, T: a.saturation_pressure(T), "liquid_density": lambda a, T: a.liquid_density(T), "gas_density": lambda a, T: a.gas_density(T),
           "liquid_molar_density": lambda a, T: a.liquid_molar_density(T), "surface_tension": lambda a, T: a.surface_tension(T),
           "enthalpy_vaporisation": lambda a, T: a.enthalpy_vaporisation(temp=T), "enthalpy_vaporisation(press)": lambda a, T: a.enthalpy_vaporisation(press=1.5e5)}
    reset_registry()
    for gas in (("N2", 77.355, 100.0), ("CO2", 230.0, 290.0)) if thorough else (("N2", 77.355, 100.0),):
        ads = pg.Adsorbate.find(gas[0])
        freshv = {}
        for n1 in acc:
            a0 = (clean_state(), pg.Adsorbate(ads.name, **dict(ads.properties)))[1]
            freshv[n1] = canon(acc[n1](a0, gas[1]))
        for n1, n2 in itertools.product(acc, acc):
            a1 = (clean_state(), pg.Adsorbate(ads.name, **dict(ads.properties)))[1]
            v1 = canon(acc[n1](a1, gas[1]))
            try:
                acc[n2](a1, gas[2])
            except Exception:
                pass
            v3 = canon(acc[n1](a1, gas[1]))
            ck.count((gas[0], n1, n2), bucket="targeted-triple:thermo")
            if v1 != v3 or v1 != freshv[n1]:
                ck.fail_case({"query": f"adsorbate.{n1}", "clause": "outcome depends on the query history", "last_query": f"adsorbate.{n2} at another temperature"},
                             {"adsorbate": gas[0], "T": gas[1], "first": v1, "again": v3, "fresh": freshv[n1]})
        # ... and pairs at the SAME temperature: b(T1) then a(T1) (a state left on the vapour side must not leak into a liquid-side property)
        for n1, n2 in itertools.product(acc, acc):
            if n1 == n2:
                continue
            a1 = (clean_state(), pg.Adsorbate(ads.name, **dict(ads.properties)))[1]
            try:
                acc[n2](a1, gas[1])
            except Exception:
                pass
            v = canon(acc[n1](a1, gas[1]))
            ck.count((gas[0], n1, n2, "same-T"), bucket="targeted-pair:thermo same temperature")
            if v != freshv[n1]:
                ck.fail_case({"query": f"adsorbate.{n1}", "clause": "outcome depends on the query history", "last_query": f"adsorbate.{n2} at the same temperature"},
                             {"adsorbate": gas[0], "T": gas[1], "after_history": v, "fresh": freshv[n1]})
    # ------------------------------------------------------------------ (5) every ordered pair of accessors (calculate True / False) on every class of adsorbate
    def acc_outcome(spec, a, T):
        try:
            return ("ok", canon(spec["call"](a, T)))
        except Exception as e:  # noqa
            return ("err", err_class(e))

    def real_thermo(a):
        st = a._state
        if st is None:
            return None
        try:
            return (st.T(), st.Q(), st.p())
        except Exception:
            return "unreadable"

    def model_line(spec, d, T):
        """The call as a line for the Lean model (Thermo.Query) — the residue F is CoolProp asked through a brand-new state."""
        b = d.get("backend_name")
        stored = any(d.get(k) is not None for k in spec["keys"])
        if not spec["calc"]:
            return f"K {spec['key']} {'T' if stored else 'F'}", None
        if spec["kind"] == "const":
            avail = b is not None and (cp_const(b, "PTRIPLE") is not None if spec["cp"] == "PTRIPLE" else cp_read_const(b, spec["cp"]))
            return f"C {spec['cp']} {spec['key']} {'T' if stored else 'F'} {'T' if spec['via'] else 'F'} {'T' if avail else 'F'}", None
        steps, last = [], None
        for pair, v1, v2, name in spec["steps"](T):
            ok = cp_read(b, pair, v1, v2, name) is not None
            steps.append(f"{pair},{v1!r},{v2!r},{name},{'T' if ok else 'F'}")
            last = (pair, v1, v2) if ok else "failed"
            if not ok:
                break
        return f"A {spec['key']} {'T' if stored else 'F'} [{';'.join(steps)}]", last

    def cp_read_const(b, name):
        try:
            st = CP.AbstractState(thermodynamic_backend(), b)
            return math.isfinite(getattr(st, name)())
        except BaseException:
            return False

    def expect_thermo(a, spec, out, last):
        real = real_thermo(a)

        def chk(reply, real=real, out=out, last=last):
            head, dump = reply.split("|")[0].strip(), reply.split("|")[-1]
            th = dump.split("th=")[1].split(" ")[0]
            kind_model = "ok" if head.startswith("ok") else "err"
            if kind_model != out[0] or (out[0] == "err" and out[1] != "calc"):
                return False, f"kind of outcome: model {head!r}, real {out}"
            if last in (None, "failed") or real in (None, "unreadable"):
                return True, ""
            pair, v1, v2 = last
            T_, Q_, p_ = real
            ok = (abs(T_ - v2) <= 1e-9 * abs(v2) and abs(Q_ - v1) <= 1e-12) if pair == "QT" else (abs(p_ - v1) <= 1e-9 * abs(v1) and abs(Q_ - v2) <= 1e-12)
            return ok and th == f"{pair},{v1!r},{v2!r}", f"state after the call: model th={th}, real (T, Q, p)={real}"
        return lambda reply: chk(reply)

    names = list(ACC)
    for label, ads_name in pool:
        d = all_defs[ads_name]
        b = d.get("backend_name")
        T1, T2, T3 = temps_of(b) if b is not None else (298.15, 323.15, 400.0)
        freshv = {}
        for n1 in names:
            for T in (T1, T3):
                freshv[(n1, T)] = acc_outcome(ACC[n1], new_ads(d), T)
        nearTs = near_temps(T1)
        for Tn in nearTs:
            for n1 in names:
                freshv[(n1, Tn)] = acc_outcome(ACC[n1], new_ads(d), Tn)
        # near-duplicate arguments on ONE adsorbate object: the same accessor at T' and then at T, and the reverse (T' = T +- 1e-3 ... 5e-2 K,
        # T in single precision); the pressure argument of the enthalpy accessors likewise
        for n1 in names:
            if ACC[n1]["kind"] != "flash":
                continue
            for Tn in nearTs:
                for Tf, Ts in ((Tn, T1), (T1, Tn)):
                    a = new_ads(d)
                    s0 = snap_ads(a)
                    outb = acc_outcome(ACC[n1], a, Tf)
                    lb, lastb = model_line(ACC[n1], d, Tf)
                    trace.append(("reset", None, None))
                    trace.append((lb, expect_thermo(a, ACC[n1], outb, lastb), f"{ads_name}: {n1} at {Tf}"))
                    outa = acc_outcome(ACC[n1], a, Ts)
                    la, lasta = model_line(ACC[n1], d, Ts)
                    trace.append((la, expect_thermo(a, ACC[n1], outa, lasta), f"{ads_name}: {n1} at {Tf} then at {Ts}"))
                    ck.count((ads_name, n1, Tf, Ts), bucket="accessor-near-duplicate:" + label)
                    if snap_ads(a) != s0:
                        ck.fail_case({"query": f"adsorbate.{n1}", "clause": "argument modified by a read-only call", "object": "adsorbate"},
                                     {"adsorbate": ads_name, "class": label, "T": [Tf, Ts], "definition": {k: v for k, v in d.items()}, "changed": _first_diff(s0, snap_ads(a))})
                    if outa != freshv[(n1, Ts)]:
                        ck.fail_case({"query": f"adsorbate.{n1}", "clause": "outcome depends on the query history", "last_query": f"adsorbate.{n1} at a near-duplicate temperature"},
                                     {"adsorbate": ads_name, "class": label, "definition": {k: v for k, v in d.items()}, "history": [f"{n1} at {Tf!r} K"], "query_T": Ts,
                                      "after_history": str(outa), "fresh": str(freshv[(n1, Ts)])})
        P0 = 1.5e5
        for attr in ("enthalpy_vaporisation", "enthalpy_liquefaction"):
            def by_press(a, P, attr=attr):
                try:
                    return ("ok", canon(getattr(a, attr)(press=P)))
                except Exception as e:  # noqa
                    return ("err", err_class(e))
            for Pn in (P0 * (1 + 1e-7), P0 * (1 + 3e-4), np.float32(P0 + 7.0)):
                for Pf, Ps in ((Pn, P0), (P0, Pn)):
                    fr = by_press(new_ads(d), Ps)
                    a = new_ads(d)
                    by_press(a, Pf)
                    af = by_press(a, Ps)
                    ck.count((ads_name, attr, repr(Pf), repr(Ps)), bucket="accessor-near-duplicate:" + label)
                    if af != fr:
                        ck.fail_case({"query": f"adsorbate.{attr}(press)", "clause": "outcome depends on the query history", "last_query": f"adsorbate.{attr} at a near-duplicate pressure"},
                                     {"adsorbate": ads_name, "class": label, "definition": {k: v for k, v in d.items()}, "history": [f"{attr}(press={Pf!r})"], "query": f"{attr}(press={Ps!r})",
                                      "after_history": str(af), "fresh": str(fr)})
        pairs = list(itertools.product(names, names))
        if not thorough:
            pairs = rng.sample(pairs, min(len(pairs), ck.n(450, len(pairs))))
        for n1, n2 in pairs:
            a = new_ads(d)
            s0 = snap_ads(a)
            Tb = rng.choice([T1, T2, T3] + nearTs) if rng.random() < 0.75 else rng.choice(nearTs)
            Ta = T1 if rng.random() < 0.8 else T3
            outb = acc_outcome(ACC[n2], a, Tb)
            s1 = snap_ads(a)
            lb, lastb = model_line(ACC[n2], d, Tb)
            trace.append(("reset", None, None))
            trace.append((lb, expect_thermo(a, ACC[n2], outb, lastb), f"{ads_name}: {n2} at {Tb}"))
            outa = acc_outcome(ACC[n1], a, Ta)
            s2 = snap_ads(a)
            la, lasta = model_line(ACC[n1], d, Ta)
            trace.append((la, expect_thermo(a, ACC[n1], outa, lasta), f"{ads_name}: {n2} at {Tb} then {n1} at {Ta}"))
            ck.count((ads_name, n1, n2, Ta, Tb), bucket="accessor-pair:" + label)
            for (sa, sb, nm, TT) in ((s0, s1, n2, Tb), (s1, s2, n1, Ta)):
                if sa != sb:
                    ck.fail_case({"query": f"adsorbate.{nm}", "clause": "argument modified by a read-only call", "object": "adsorbate"},
                                 {"adsorbate": ads_name, "class": label, "T": TT, "definition": {k: v for k, v in d.items()}, "changed": _first_diff(sa, sb)})
            if outa != freshv[(n1, Ta)]:
                ck.fail_case({"query": f"adsorbate.{n1}", "clause": "outcome depends on the query history", "last_query": f"adsorbate.{n2}"},
                             {"adsorbate": ads_name, "class": label, "definition": {k: v for k, v in d.items()}, "history": [f"{n2} at {Tb} K"], "query_T": Ta,
                              "after_history": str(outa), "fresh": str(freshv[(n1, Ta)])})
    lap("4-5 accessor pairs")
    # ------------------------------------------------------------------ (6) every ordered pair of reference curves / kernels: module-level caches
    def real_loaded():
        return sorted(["thickness:" + str(k) for k in mt._LOADED] + ["kernel:" + os.path.basename(os.path.dirname(str(k))) + "/" + os.path.basename(str(k)) for k in pk._LOADED])

    def expect_loaded():
        real = real_loaded()

        def chk(reply, real=real):
            ld = reply.split("ld=[")[1].split("]")[0]
            model = sorted(x for x in ld.split(";") if x)
            return model == real, f"_LOADED: model {model}, real {real}"
        return chk
    pgrid = np.array([1e-5, 1e-3, 0.05, 0.2, 0.6, 0.9])
    tnames = sorted(mt._THICKNESS_MODELS)
    std_of = {"SiO2 Jaroniec/Kruk/Olivier": "SiO2_JKO", "carbon black Kruk/Jaroniec/Gadkaree": "CB_KJG"}
    std_of = {k: v for k, v in std_of.items() if k in mt._THICKNESS_MODELS and v in getattr(pg.data, "STANDARD_ISOTHERMS", {})}

    def thick(n):
        return ("ok", canon(mt.get_thickness_model(n)(pgrid)))
    for n1, n2 in itertools.product(tnames, tnames):
        clear_module_caches(pg)
        fr = thick(n2)
        clear_module_caches(pg)
        trace.append(("reset", None, None))
        thick(n1)
        if n1 in std_of:
            trace.append((f"M thickness:{std_of[n1]}", expect_loaded(), f"thickness model {n1}"))
        out = thick(n2)
        if n2 in std_of:
            trace.append((f"M thickness:{std_of[n2]}", expect_loaded(), f"thickness model {n1} then {n2}"))
        ck.count(("thickness", n1, n2), bucket="module-cache-pair:thickness curves")
        if out != fr:
            ck.fail_case({"query": f"thickness model {n2}", "clause": "outcome depends on the query history", "last_query": f"thickness model {n1}"},
                         {"pressures": pgrid.tolist(), "after_history": str(out)[:200], "fresh": str(fr)[:200]})
    kfiles = dict(KERNEL_FILES)
    kfiles["internal"] = str(pg.data.KERNELS["DFT-N2-77K-carbon-slit"])

    def kern(path):
        k = pk._load_kernel(path)
        return ("ok", canon([(w, float(k[w](0.01)), float(k[w](0.5))) for w in list(k)[:12]]))

    def ktok(name):
        return "kernel:" + os.path.basename(os.path.dirname(kfiles[name])) + "/" + os.path.basename(kfiles[name])
    for n1, n2 in itertools.product(sorted(kfiles), sorted(kfiles)):
        clear_module_caches(pg)
        fr = kern(kfiles[n2])
        clear_module_caches(pg)
        trace.append(("reset", None, None))
        kern(kfiles[n1])
        trace.append((f"M {ktok(n1)}", expect_loaded(), f"kernel {n1}"))
        out = kern(kfiles[n2])
        trace.append((f"M {ktok(n2)}", expect_loaded(), f"kernel {n1} then {n2}"))
        ck.count(("kernel", n1, n2), bucket="module-cache-pair:kernels")
        if out != fr:
            ck.fail_case({"query": f"kernel {n2}", "clause": "outcome depends on the query history", "last_query": f"kernel {n1}"},
                         {"files": [n1, n2], "after_history": str(out)[:200], "fresh": str(fr)[:200]})
    # the same through the analyses that use the caches, on a real isotherm
    world = rng.choice(measured)
    for (qa, qb) in [("t_plot(SiO2 ref)", "t_plot(carbon ref)"), ("t_plot(carbon ref)", "t_plot(SiO2 ref)"), ("psd_mesoporous(SiO2 thickness)", "t_plot(carbon ref)"),
                     ("psd_dft(user kernel)", "psd_dft(user kernel 2, des)"), ("psd_dft(user kernel 2, des)", "psd_dft(user kernel)")]:
        byname = {q[0]: q for q in queries}
        run_history(world, [byname[qa], byname[qb]], 7, bucket_prefix="module-cache-analysis:")
    for (ka, kb) in (("a/kernel.csv", "b/kernel.csv"), ("b/kernel.csv", "a/kernel.csv")):
        fa = ("psd_dft(" + ka + ")", lambda o, k=ka: pgc.psd_dft(o["iso"], kernel=o["kernel"][k], bspline_order=2))
        fb = ("psd_dft(" + kb + ")", lambda o, k=kb: pgc.psd_dft(o["iso"], kernel=o["kernel"][k], bspline_order=2))
        run_history(world, [fa, fb], 11, bucket_prefix="module-cache-analysis:")

    # gas-basis read followed by liquid-basis read on one isotherm (same adsorbate state)
    for world in rng.sample(measured, 2):
        rf = outcome(lambda o: o["iso"].loading(loading_basis="volume_liquid", loading_unit="cm3"), fresh(world))
        objs = fresh(world)
        outcome(lambda o: o["iso"].loading(loading_basis="volume_gas", loading_unit="cm3"), objs)
        r = outcome(lambda o: o["iso"].loading(loading_basis="volume_liquid", loading_unit="cm3"), objs)
        ck.count((world["name"], "gas-then-liquid"), bucket="targeted-pair:isotherm gas then liquid basis")
        if r != rf:
            ck.fail_case({"query": "loading(volume_liquid)", "clause": "outcome depends on the query history", "last_query": "loading(volume_gas) on the same isotherm"},
                         {"sample": world["name"], "after_history": str(r)[:160], "fresh": str(rf)[:160]})
    # the same through isotherms of one adsorbate at two temperatures
    for world in rng.sample(measured, 2):
        r3f = outcome(lambda o: o["iso"].loading_at(0.3, pressure_mode="relative"), fresh(world))
        objs = fresh(world)
        r1 = outcome(lambda o: o["iso"].pressure(pressure_mode="relative"), objs)
        outcome(lambda o: o["cold"].pressure(pressure_mode="relative"), objs)
        outcome(lambda o: o["cold"].loading(loading_basis="volume_liquid", loading_unit="cm3"), objs)
        r2 = outcome(lambda o: o["iso"].pressure(pressure_mode="relative"), objs)
        r3 = outcome(lambda o: o["iso"].loading_at(0.3, pressure_mode="relative"), objs)
        ck.count((world["name"], "two-temperatures"), bucket="targeted-triple:isotherms")
        if r1 != r2 or r3 != r3f:
            ck.fail_case({"query": "pressure(relative)", "clause": "outcome depends on the query history", "last_query": "queries on an isotherm of the same adsorbate at 87.3 K"},
                         {"sample": world["name"], "first": str(r1)[:120], "again": str(r2)[:120]})
    lap("6 module caches and remaining pairs")
    # ------------------------------------------------------------------ (6b) guess fits: every ordered pair of `model='guess'` calls on data of different shapes
    # (candidates that fail inside one call — strictly linear uptake, pressures in Pa — and the module-level candidate list every later call of the process reads)
    gq = [q for q in queries if q[0].startswith("guess fit")]
    reg_q = [q for q in queries if q[0] == "modelling name registry"]
    for world in (measured + synthetic if thorough else [rng.choice(measured + synthetic)]):
        sel = gq if thorough else [gq[0]] + rng.sample(gq[1:], 2)
        sel = sel + reg_q
        run_history(world, [sel[i] for i in euler_circuit(len(sel), rng)], 13, bucket_prefix="guess-fits:", ids="iso")
    lap("6b guess fits")
    # ------------------------------------------------------------------ (7) the Lean cache model on the recorded trace
    lines = [t[0] for t in trace]
    try:
        replies = ck.drive("Cache", lines)
    except Exception as e:  # noqa  (the oracles above have already run: a driver that cannot be run is a broken step, not the end of the check)
        ck.broken.append({"step": "driver Cache", "what": str(e)[:1500]})
        replies = []
    bad = []
    for (ln, chk, what), reply in zip(trace, replies):
        if reply.strip() == "bad-op":
            bad.append({"line": ln, "reply": reply, "what": what})
            continue
        if chk is None:
            continue
        ok, msg = chk(reply)
        ck.count(("model", ln, what), nontrivial=False, bucket="cache-model:" + ln.split(" ")[0])
        if not ok:
            bad.append({"line": ln, "reply": reply, "real": msg, "what": what})
    if bad:
        ck.broken.append({"step": "correspondence Model/Cache.lean (driver Cache)", "what": f"{len(bad)} of {len(lines)} modelled calls disagree with the real hidden state / outcome kind; first: {bad[:3]}"})
    lap("7 Lean cache model")
    ck.cov["module_state"]["changed_by_the_queries_and_put_back_before_every_reference_call"] = sorted(MODULE_TOUCHED)
    ck.cov["cache_model_lines"] = len(lines)
    ck.cov["queries_in_catalogue"] = len(queries)
    ck.cov["rule"] = ("worlds = the five measured N2/77 K sample isotherms + synthetic two-branch isotherms (with an enthalpy column and a material that carries properties) of one adsorbate per class "
                      "(built-in with backend and all constants stored / with a constant not stored / without backend; user-defined with backend and nothing stored / some keys stored / without backend), "
                      "each with a reference isotherm, a second temperature, two model isotherms, an IAST pair, raw arrays and user kernel files; "
                      "(1) one sweep per world = one long history containing every catalogue entry once (every function exported by pygaps.characterisation — completeness checked by introspection —, "
                      "every public thermodynamic accessor with calculate True/False at the isotherm temperature and another one, exports, fitting, model-isotherm queries, IAST); "
                      "(2) seeded random histories (quick 22 x 2-8, thorough 160 x 2-14) over the same catalogue plus loading_at / pressure_at / spreading_pressure_at over branch x kind x fill x inside/outside the range; "
                      "(3) pairs of interpolation queries whose cache keys differ in one component; (3b) chains of interpolation calls around random base calls in which each component "
                      "(function, branch, all 9 scipy kinds, fills none / number / pair / 'extrapolate' / arrays with near-duplicates, 6 unit-argument sets, in / above / below, late digits / float32 abscissa) "
                      "runs through every ordered pair of its values (Euler circuit), each call compared with the same call on fresh objects and with the Lean cache model, differences shrunk; "
                      "(3c) T-dependent queries on the isotherm and on the same isotherm at a near-duplicate temperature (1e-3 ... 5e-2 K away, single-precision image) sharing one adsorbate object, both orders; "
                      "(3d) an interpolation call with any fill on one isotherm of an IAST pair, then an IAST calculation, and the reverse; (4,5) every flash accessor at a near-duplicate temperature / pressure then at the original one and the reverse; (4,5) ordered pairs / triples of accessors on a fresh adsorbate object of every class at temperatures inside and above the saturation range; "
                      "(6) ordered pairs of thickness curves and of kernel files (two of the same name), directly and through t_plot / psd_mesoporous / psd_dft; "
                      "every call is compared with the same call on fresh objects (fresh registry, module caches cleared) and every object passed is snapshotted before/after (adsorbate / material properties exact and ordered); "
                      "(7) the recorded trace is run through the Lean cache model and its hidden state / outcome kind compared with the real objects; non-trivial = call issued after at least one other call; "
                      "distinct = distinct (world, history, call)")
    ck.assumptions += ["that the characterisation / fitting / IAST routines do not write to their arguments is observed on these runs, not proved (no model of their bodies)",
                       "the values CoolProp returns for a flash (the residue F of Model/Cache.lean Thermo) are a function of the flash arguments only: observed through brand-new states, not proved"]


def _ids_of(v):
    if isinstance(v, (list, tuple)):
        return tuple(_ids_of(x) for x in v)
    return _or_error(lambda: v.iso_id) if _is_isotherm(v) else None


def _text_diff(a, b):
    """Two export texts: the place where they part."""
    if isinstance(a, str) and isinstance(b, str):
        i = next((j for j, (x, y) in enumerate(zip(a, b)) if x != y), min(len(a), len(b)))
        return {"at character": i, "after the history": a[max(0, i - 60):i + 120], "fresh": b[max(0, i - 60):i + 120], "lengths": [len(a), len(b)]}
    return _first_diff(a, b)


def _first_diff(a, b):
    """Smallest description of where two snapshots differ."""
    if isinstance(a, dict) and isinstance(b, dict):
        for k in a:
            if a[k] != b.get(k):
                return {k: _first_diff(a[k], b.get(k))}
        return {"new keys": [str(k) for k in b if k not in a]}
    if isinstance(a, (list, tuple)) and isinstance(b, (list, tuple)):
        if len(a) == len(b):
            for i, (x, y) in enumerate(zip(a, b)):
                if x != y:
                    return {f"[{i}]": _first_diff(x, y)}
        try:
            return {"only before": [str(x)[:160] for x in a if x not in b][:4], "only after": [str(x)[:160] for x in b if x not in a][:4],
                    "order changed": sorted(map(str, a)) == sorted(map(str, b))}
        except Exception:
            pass
    return [str(a)[:200], str(b)[:200]]
