"""C04 — read-only queries and analyses are pure and independent of query history.

Lean: Props/C04.lean (cache transparency: the outcome of every modelled query is a function of the observable content and the
arguments; history independence by induction; a cached interpolator is only used under an equal key).
Tie / failing-input search (the same runs): seeded sequences of read-only calls on real objects — accessors, loading_at /
pressure_at / spreading_pressure_at with every branch / kind / fill / unit argument, exports, every function of
pygaps.characterisation, model fitting, IAST — where (a) a deep snapshot of every object passed in (identifier, labels, every
data cell, metadata, adsorbate and material properties) is compared before and after each call and (b) the outcome (value to
1e-10, or the error class) is compared with the same call issued FIRST on an identical fresh object with all module caches
cleared.  The model's prediction for (b) is "equal" for every query, so a disagreement is at once a broken correspondence and a
concrete failing history.
"""
import math
import os

from pgv.core import REPO, err_class, import_pygaps

DATA = REPO / "docs" / "examples" / "data"
SAMPLES = ["MCM-41 N2 77.355.json", "NaY N2 77.355.json", "SiO2 N2 77.355.json", "Takeda 5A N2 77.355.json", "UiO-66(Zr) N2 77.355.json"]


def canon(x, depth=0):
    """Canonical, hashable form of an outcome (floats to 10 significant digits)."""
    import numpy as np
    if x is None or isinstance(x, (bool, str)):
        return x
    if isinstance(x, (int,)):
        return x
    if isinstance(x, (float, np.floating)):
        if math.isnan(x):
            return "nan"
        return float(f"{float(x):.10g}")
    if isinstance(x, np.ndarray):
        return ("arr", x.shape, tuple(canon(v) for v in x.ravel().tolist()[:400]))
    if isinstance(x, (list, tuple)):
        return tuple(canon(v, depth + 1) for v in list(x)[:400])
    if isinstance(x, dict):
        return tuple(sorted((str(k), canon(v, depth + 1)) for k, v in x.items() if k not in ("limits",) or True))
    if hasattr(x, "iso_id"):
        return ("iso", x.iso_id)
    if hasattr(x, "to_dict") and depth < 2:
        try:
            return canon(x.to_dict(), depth + 1)
        except Exception:
            return str(type(x))
    try:
        import pandas as pd
        if isinstance(x, (pd.Series, pd.DataFrame)):
            return canon(x.values)
    except Exception:
        pass
    return str(type(x).__name__)


def snapshot(pg, iso):
    d = {"id": iso.iso_id, "dict": canon(iso.to_dict()), "ads": canon(dict(iso.adsorbate.properties)), "ads_alias": tuple(iso.adsorbate.alias),
         "mat": canon(dict(iso.material.properties))}
    if isinstance(iso, pg.PointIsotherm):
        raw = iso.data_raw
        d["cols"] = tuple(raw.columns)
        d["cells"] = tuple(tuple(canon(v) for v in raw[c].tolist()) for c in raw.columns)
        d["index"] = tuple(raw.index.tolist())
    elif isinstance(iso, pg.ModelIsotherm):
        d["model"] = canon(iso.model.to_dict())
    return d


def clear_module_caches(pg):
    import pygaps.characterisation.models_thickness as mt
    import pygaps.characterisation.psd_kernel as pk
    mt._LOADED.clear()
    pk._LOADED.clear()


def run(ck):
    pg = import_pygaps()
    import numpy as np
    import pygaps.characterisation as pgc
    import pygaps.iast as pgi
    import pygaps.modelling as pgm
    from pygaps.parsing.json import isotherm_from_json
    rng = ck.rng
    thorough = ck.tier == "thorough"

    def load(name):
        return isotherm_from_json(str(DATA / "characterisation" / name))

    def load_iast():
        return [isotherm_from_json(str(DATA / "iast" / f)) for f in ("MOF-5(Zn) - IAST - CH4.json", "MOF-5(Zn) - IAST - C2H6.json") if (DATA / "iast" / f).exists()]

    iast_ok = len(load_iast()) == 2

    # ------------------------------------------------------------------ query catalogue: name -> f(objs) -> outcome; objs = {'iso','ref','cold','pair'}
    def Q():
        qs = []

        def add(name, f, weight=1.0):
            qs.append((name, f, weight))
        for branch in (None, "ads", "des", "all"):
            add(f"pressure(branch={branch})", lambda o, b=branch: o["iso"].pressure(branch=b))
            add(f"loading(branch={branch}, mol/kg)", lambda o, b=branch: o["iso"].loading(branch=b, loading_unit="mol", material_unit="kg"))
        add("pressure(relative%)", lambda o: o["iso"].pressure(pressure_mode="relative%"))
        add("pressure(absolute, torr)", lambda o: o["iso"].pressure(pressure_mode="absolute", pressure_unit="torr"))
        add("loading(cm3(STP)/g)", lambda o: o["iso"].loading(loading_unit="cm3(STP)"))
        add("loading(percent)", lambda o: o["iso"].loading(loading_basis="percent"))
        add("has_branch(des)", lambda o: o["iso"].has_branch("des"))
        add("other_keys", lambda o: o["iso"].other_keys)
        for branch in ("ads", "des"):
            for kind in ("linear", "cubic", "slinear", "nearest"):
                for fill in (None, (0.0, 20.0), (0.0, 3.5), "extrapolate"):
                    for x in ("in", "out"):
                        def f(o, b=branch, k=kind, fl=fill, xx=x):
                            iso = o["iso"]
                            p = iso.pressure(branch=b)
                            q = float((p[len(p) // 3] + p[len(p) // 3 + 1]) / 2) if xx == "in" else float(p.max() * 1.2)
                            return iso.loading_at(q, branch=b, interpolation_type=k, interp_fill=fl)
                        add(f"loading_at({x}, {branch}, {kind}, fill={fill})", f, 0.25)
            for kind in ("linear", "slinear"):
                for fill in (None, (0.0, 1.0)):
                    def g(o, b=branch, k=kind, fl=fill):
                        iso = o["iso"]
                        l = iso.loading(branch=b)
                        return iso.pressure_at(float((l[3] + l[4]) / 2), branch=b, interpolation_type=k, interp_fill=fl)
                    add(f"pressure_at({branch}, {kind}, fill={fill})", g, 0.5)
            for fill in (None, (0.0, 25.0), (0.0, 12.0)):
                for where in ("below", "in", "above"):
                    def s(o, b=branch, fl=fill, w=where):
                        iso = o["iso"]
                        p = iso.pressure(branch=b)
                        q = {"below": float(p.min() * 0.5), "in": float(np.median(p)), "above": float(p.max() * 1.3)}[w]
                        return iso.spreading_pressure_at(q, branch=b, interp_fill=fl)
                    add(f"spreading_pressure_at({where}, {branch}, fill={fill})", s, 0.4)
        add("loading_at(units)", lambda o: o["iso"].loading_at(0.2, pressure_mode="relative", loading_unit="mol", material_unit="kg"))
        add("loading_at(kPa)", lambda o: o["iso"].loading_at(20.0, pressure_unit="kPa"))
        add("to_json", lambda o: o["iso"].to_json())
        add("to_csv", lambda o: o["iso"].to_csv())
        add("to_aif", lambda o: o["iso"].to_aif())
        add("to_dict", lambda o: o["iso"].to_dict())
        add("str", lambda o: str(o["iso"]))
        add("area_BET", lambda o: pgc.area_BET(o["iso"]), 0.8)
        add("area_BET(limits)", lambda o: pgc.area_BET(o["iso"], p_limits=(0.05, 0.3)), 0.5)
        add("area_langmuir", lambda o: pgc.area_langmuir(o["iso"]), 0.6)
        add("t_plot", lambda o: pgc.t_plot(o["iso"]), 0.6)
        add("t_plot(SiO2 ref)", lambda o: pgc.t_plot(o["iso"], thickness_model="SiO2 Jaroniec/Kruk/Olivier"), 0.5)
        add("t_plot(carbon ref)", lambda o: pgc.t_plot(o["iso"], thickness_model="carbon black Kruk/Jaroniec/Gadkaree"), 0.4)
        add("alpha_s", lambda o: pgc.alpha_s(o["iso"], reference_isotherm=o["ref"]), 0.6)
        add("dr_plot", lambda o: pgc.dr_plot(o["iso"]), 0.5)
        add("da_plot", lambda o: pgc.da_plot(o["iso"], exp=2.3), 0.5)
        add("psd_mesoporous(BJH)", lambda o: pgc.psd_mesoporous(o["iso"], psd_model="BJH", pore_geometry="cylinder"), 0.5)
        add("psd_mesoporous(pygaps-DH, des)", lambda o: pgc.psd_mesoporous(o["iso"], psd_model="pygaps-DH", branch="des", pore_geometry="slit"), 0.4)
        add("psd_microporous(HK)", lambda o: pgc.psd_microporous(o["iso"], psd_model="HK", pore_geometry="slit"), 0.3)
        add("psd_dft", lambda o: pgc.psd_dft(o["iso"], bspline_order=2), 0.25)
        add("initial_henry_slope", lambda o: pgc.initial_henry_slope(o["iso"], max_adjrms=0.1), 0.5)
        add("initial_henry_virial", lambda o: pgc.initial_henry_virial(o["iso"]), 0.3)
        add("model_iso(Langmuir)", lambda o: pgm.model_iso(o["iso"], model="Langmuir"), 0.4)
        add("model_iso(guess)", lambda o: pgm.model_iso(o["iso"], model=["Henry", "Langmuir", "Toth"]), 0.2)
        add("whittaker(Toth)", lambda o: pgc.enthalpy_sorption_whittaker(o["iso"], model="Toth"), 0.3)
        # another isotherm of the same adsorbate at another temperature (shared thermodynamic state)
        add("cold.pressure(relative)", lambda o: o["cold"].pressure(pressure_mode="relative"), 1.0)
        add("cold.loading(volume_liquid)", lambda o: o["cold"].loading(loading_basis="volume_liquid", loading_unit="cm3"), 0.7)
        add("adsorbate.saturation_pressure(T)", lambda o: o["iso"].adsorbate.saturation_pressure(o["iso"].temperature), 1.0)
        add("adsorbate.liquid_density(T)", lambda o: o["iso"].adsorbate.liquid_density(o["iso"].temperature), 0.6)
        add("adsorbate.gas_density(90 K)", lambda o: o["iso"].adsorbate.gas_density(90.0), 0.6)
        add("adsorbate.enthalpy_vaporisation(press)", lambda o: o["iso"].adsorbate.enthalpy_vaporisation(press=2e5), 0.5)
        if iast_ok:
            add("iast_point", lambda o: pgi.iast_point(o["pair"], gas_mole_fraction=[0.5, 0.5], total_pressure=1.0), 0.3)
            add("iast_binary_vle", lambda o: pgi.iast_binary_vle(o["pair"], total_pressure=1.0, npoints=4), 0.15)
            add("reverse_iast", lambda o: pgi.reverse_iast(o["pair"], adsorbed_mole_fractions=[0.3, 0.7], total_pressure=1.0), 0.2)
        return qs

    queries = Q()
    weights = [w for _, _, w in queries]

    def fresh(sample):
        clear_module_caches(pg)
        iso = load(sample)
        ref = load("SiO2 N2 77.355.json")
        cold = load(sample)
        cold._temperature = 87.3          # same adsorbate, other temperature (constructed before any query is issued)
        return {"iso": iso, "ref": ref, "cold": cold, "pair": load_iast() if iast_ok else None}

    def outcome(f, objs):
        try:
            with np.errstate(all="ignore"):
                return ("ok", canon(f(objs)))
        except Exception as e:  # noqa
            return ("err", err_class(e))

    nseq = ck.n(22, 160)
    cache_fresh = {}
    for si in range(nseq):
        sample = rng.choice(SAMPLES)
        objs = fresh(sample)
        length = rng.randint(2, ck.n(8, 14))
        seq = rng.choices(queries, weights=weights, k=length)
        # a target query that differs from an earlier one in ONE cache-key component is the interesting pair
        history = []
        for qi, (name, f, _) in enumerate(seq):
            before = {k: snapshot(pg, v) for k, v in objs.items() if k != "pair"}
            if objs["pair"]:
                before["pair"] = [snapshot(pg, x) for x in objs["pair"]]
            out = outcome(f, objs)
            after = {k: snapshot(pg, v) for k, v in objs.items() if k != "pair"}
            if objs["pair"]:
                after["pair"] = [snapshot(pg, x) for x in objs["pair"]]
            sig = {"query": name}
            ck.count((sample, tuple(history), name), nontrivial=qi > 0, bucket="query:" + name.split("(")[0] + ":" + out[0],
                     sample={"sample": sample, "history": list(history), "query": name, "outcome": str(out)[:120]} if (si * 7 + qi) % 53 == 0 else None)
            if before != after:
                changed = [k for k in before if before[k] != after[k]]
                ck.fail_case({**sig, "clause": "argument modified by a read-only call", "object": changed[0]},
                             {"sample": sample, "history": list(history), "changed": {k: _first_diff(before[k], after[k]) for k in changed}})
            # the same call issued first on an identical fresh object
            key = (sample, name)
            if key not in cache_fresh:
                cache_fresh[key] = outcome(f, fresh(sample))
            ref_out = cache_fresh[key]
            if out != ref_out:
                ck.fail_case({**sig, "clause": "outcome depends on the query history", "last_query": history[-1] if history else None},
                             {"sample": sample, "history": list(history), "after_history": str(out)[:300], "fresh": str(ref_out)[:300]})
            history.append(name)
    # ------------------------------------------------------------------ targeted pairs: two queries whose cache keys differ in exactly ONE component
    import itertools
    branches, kinds, fills = ("ads", "des"), ("linear", "cubic"), (None, (0.0, 20.0), (0.0, 3.5))
    keys = list(itertools.product(branches, kinds, fills))
    for sample in (SAMPLES if thorough else rng.sample(SAMPLES, 2)):
        for fn in ("loading_at", "pressure_at", "spreading_pressure_at"):
            fresh_out = {}

            def call(objs, key, where, fn=fn):
                iso = objs["iso"]
                b, k, fl = key
                if fn == "pressure_at":
                    l = iso.loading(branch=b)
                    x = float((l[3] + l[4]) / 2) if where == "in" else float(l.max() * 1.3)
                    return iso.pressure_at(x, branch=b, interpolation_type=k, interp_fill=fl)
                p = iso.pressure(branch=b)
                x = float((p[len(p) // 3] + p[len(p) // 3 + 1]) / 2) if where == "in" else float(p.max() * 1.2)
                if fn == "loading_at":
                    return iso.loading_at(x, branch=b, interpolation_type=k, interp_fill=fl)
                return iso.spreading_pressure_at(x, branch=b, interp_fill=fl)
            for k1, k2 in itertools.product(keys, keys):
                if sum(a != b for a, b in zip(k1, k2)) != 1:
                    continue
                if fn == "spreading_pressure_at" and k1[1] != "linear":
                    continue
                for where in ("in", "out"):
                    objs = fresh(sample)
                    first_fn = "loading_at" if fn == "spreading_pressure_at" else fn
                    outcome(lambda o: call(o, k1, where, fn=first_fn), objs)
                    out = outcome(lambda o: call(o, k2, where), objs)
                    if (k2, where) not in fresh_out:
                        fresh_out[(k2, where)] = outcome(lambda o: call(o, k2, where), fresh(sample))
                    ck.count((sample, fn, k1, k2, where), bucket="targeted-pair:" + fn)
                    if out != fresh_out[(k2, where)]:
                        ck.fail_case({"query": f"{fn}{k2}", "clause": "outcome depends on the query history", "last_query": f"{first_fn}{k1}"},
                                     {"sample": sample, "where": where, "after_history": str(out)[:200], "fresh": str(fresh_out[(k2, where)])[:200]})
    # ------------------------------------------------------------------ targeted triples on the shared thermodynamic state: a(T1), b(T2), a(T1)
    acc = {"saturation_pressure": lambda a, T: a.saturation_pressure(T), "liquid_density": lambda a, T: a.liquid_density(T), "gas_density": lambda a, T: a.gas_density(T),
           "liquid_molar_density": lambda a, T: a.liquid_molar_density(T), "surface_tension": lambda a, T: a.surface_tension(T),
           "enthalpy_vaporisation": lambda a, T: a.enthalpy_vaporisation(temp=T), "enthalpy_vaporisation(press)": lambda a, T: a.enthalpy_vaporisation(press=1.5e5)}
    for gas in (("N2", 77.355, 100.0), ("CO2", 230.0, 290.0)) if thorough else (("N2", 77.355, 100.0),):
        ads = pg.Adsorbate.find(gas[0])
        freshv = {}
        for n1 in acc:
            a0 = pg.Adsorbate(ads.name, **dict(ads.properties))
            freshv[n1] = canon(acc[n1](a0, gas[1]))
        for n1, n2 in itertools.product(acc, acc):
            a1 = pg.Adsorbate(ads.name, **dict(ads.properties))
            v1 = canon(acc[n1](a1, gas[1]))
            try:
                acc[n2](a1, gas[2])
            except Exception:
                pass
            v3 = canon(acc[n1](a1, gas[1]))
            ck.count((gas[0], n1, n2), bucket="targeted-triple:thermo")
            if v1 != v3 or v1 != freshv[n1]:
                ck.fail_case({"query": f"adsorbate.{n1}", "clause": "outcome depends on the query history", "last_query": f"adsorbate.{n2} at another temperature"},
                             {"adsorbate": gas[0], "T": gas[1], "first": v1, "again": v3, "fresh": freshv[n1]})
        # ... and pairs at the SAME temperature: b(T1) then a(T1) (a state left on the vapour side must not leak into a liquid-side property)
        for n1, n2 in itertools.product(acc, acc):
            if n1 == n2:
                continue
            a1 = pg.Adsorbate(ads.name, **dict(ads.properties))
            try:
                acc[n2](a1, gas[1])
            except Exception:
                pass
            v = canon(acc[n1](a1, gas[1]))
            ck.count((gas[0], n1, n2, "same-T"), bucket="targeted-pair:thermo same temperature")
            if v != freshv[n1]:
                ck.fail_case({"query": f"adsorbate.{n1}", "clause": "outcome depends on the query history", "last_query": f"adsorbate.{n2} at the same temperature"},
                             {"adsorbate": gas[0], "T": gas[1], "after_history": v, "fresh": freshv[n1]})
    # gas-basis read followed by liquid-basis read on one isotherm (same adsorbate state)
    for sample in rng.sample(SAMPLES, 2):
        objs = fresh(sample)
        rf = outcome(lambda o: o["iso"].loading(loading_basis="volume_liquid", loading_unit="cm3"), fresh(sample))
        outcome(lambda o: o["iso"].loading(loading_basis="volume_gas", loading_unit="cm3"), objs)
        r = outcome(lambda o: o["iso"].loading(loading_basis="volume_liquid", loading_unit="cm3"), objs)
        ck.count((sample, "gas-then-liquid"), bucket="targeted-pair:isotherm gas then liquid basis")
        if r != rf:
            ck.fail_case({"query": "loading(volume_liquid)", "clause": "outcome depends on the query history", "last_query": "loading(volume_gas) on the same isotherm"},
                         {"sample": sample, "after_history": str(r)[:160], "fresh": str(rf)[:160]})
    # the same through isotherms of one adsorbate at two temperatures
    for sample in rng.sample(SAMPLES, 2):
        objs = fresh(sample)
        r1 = outcome(lambda o: o["iso"].pressure(pressure_mode="relative"), objs)
        outcome(lambda o: o["cold"].pressure(pressure_mode="relative"), objs)
        outcome(lambda o: o["cold"].loading(loading_basis="volume_liquid", loading_unit="cm3"), objs)
        r2 = outcome(lambda o: o["iso"].pressure(pressure_mode="relative"), objs)
        r3 = outcome(lambda o: o["iso"].loading_at(0.3, pressure_mode="relative"), objs)
        r3f = outcome(lambda o: o["iso"].loading_at(0.3, pressure_mode="relative"), fresh(sample))
        ck.count((sample, "two-temperatures"), bucket="targeted-triple:isotherms")
        if r1 != r2 or r3 != r3f:
            ck.fail_case({"query": "pressure(relative)", "clause": "outcome depends on the query history", "last_query": "queries on an isotherm of the same adsorbate at 87.3 K"},
                         {"sample": sample, "first": str(r1)[:120], "again": str(r2)[:120]})
    ck.cov["queries_in_catalogue"] = len(queries)
    ck.cov["rule"] = ("seeded sequences (quick 22 x 2-8, thorough 160 x 2-14) drawn from a catalogue of read-only calls on the five measured N2/77 K sample isotherms: accessors in several units, loading_at / pressure_at / "
                      "spreading_pressure_at over branch x kind x fill x inside/outside the range, exports, 18 characterisation / fitting / IAST entry points, and calls on a second isotherm of the same adsorbate at another temperature and on "
                      "the adsorbate itself; every call is compared with the same call on a fresh object (module caches cleared) and every argument is snapshotted before/after; non-trivial = call issued after at least one other call; "
                      "distinct = distinct (sample, history, call)")
    ck.assumptions += ["that the characterisation / fitting / IAST routines do not write to their arguments is observed on these runs, not proved (no model of their bodies)"]


def _first_diff(a, b):
    if isinstance(a, dict) and isinstance(b, dict):
        for k in a:
            if a[k] != b.get(k):
                return {k: [str(a[k])[:160], str(b.get(k))[:160]]}
    return [str(a)[:160], str(b)[:160]]
