"""C01 — unit / mode / basis conversions.

Tie: generated tables (translator) + exhaustive correspondence of Model/Units.lean and Model/UnitsObj.lean (driver
Drv/Units.lean at α = ℚ: every line is one `Req`, answered by `Req.run`) with pygaps.units.converter_mode / converter_unit,
`Adsorbate.saturation_pressure(T, unit)` and real `pygaps.Material` objects on every ordered pair of representations.

Failing-input search (runs on every run, so a broken proof / translation always comes with the concrete conversion that is
now wrong, if there is one):
  * the independent SI oracle below (exact fractions) against the implementation on the same exhaustive enumeration; the
    adsorbate constants of the oracle come from the literals the stub adsorbates were built with and, for real adsorbates,
    from CoolProp states of the harness's own (random temperatures between triple and critical point), not from the accessors;
  * the HISTORY oracle: the reply to a call must not depend on what was converted before.  Every pair of unit strings that
    is valid in one unit table is asked against every OTHER table through every public entry point (c_unit, c_pressure,
    c_loading, c_material, Adsorbate.saturation_pressure, isotherm accessors) in a fresh process state ("fresh"), then the
    whole exhaustive enumeration runs, then blocks [valid conversion of (a, b) in its own table; the same strings against
    every other table; the valid conversion again] run in shuffled order mixed with re-checks of earlier valid conversions
    ("after"): refusals must stay parameter errors, factors must stay the SI factors and equal to the first answer;
  * the MATERIAL oracle: real `pygaps.Material` objects (all with the same name) built by random histories of constructor
    keywords, setters (incl. the ignored falsy values), `to_dict` round trips, changed between conversions, passed through
    c_material and get_prop, compared with the SI factor for the numbers that were put in and with the Lean model of the store;
  * the STATED-TEMPERATURE oracle ("... at the stated temperature"; model Model/UnitsThermo.lean, theorems Props/C01/Temperature.lean:
    a memory keyed on a function of the temperature is exposed by two consecutive requests): on the real, shared adsorbate
    objects, clusters of NEAR-DUPLICATE temperatures (a temperature of the enumeration or a new random one; neighbours 1e-6 …
    5e-2 K away, its roundings to 0 … 4 decimals, floor, single precision; the same number as float / numpy.float64 / numpy.float32 /
    int / numpy.int64) are visited twice in shuffled order; at every visit every leaf that reads a constant at T is asked —
    saturation_pressure / pressure_saturation, the four density accessors, c_pressure absolute <-> relative / relative % in
    both directions, c_loading over the 12 ordered pairs of physical bases and fraction / percent, PointIsotherm accessors —
    with scalars, arrays and Series; every reply against the SI factor with constants from CoolProp states of the harness's own
    at the EXACT temperature (rel. 1e-11.  Measured over the 8 fluids between 5 % and 90 % of triple … critical: p0 and the vapour
    densities move by 1.3e-2 … 1.7e-1 per K (relative), the liquid densities by 2e-4 … 2.5e-2 per K (water near its density
    maximum at 277 K less), so a neighbour 1e-6 K away is 1e-8 (2e-10) off, 3 (1) orders of magnitude above the tolerance; on the
    unchanged tree the replies are bitwise those of a fresh CoolProp state, whatever the type of the temperature), and a sample
    against the Lean model on a table of the stated temperature and its neighbours;
  * the CALLER'S-ARGUMENT / DTYPE / MAGNITUDE oracle ("every finite value or numpy/pandas array", "scalars and arrays alike"): every
    converter and every branch (identity, unit-only, mode / basis change, physical <-> fraction / percent, fraction <-> percent and
    relative <-> relative % per direction, c_unit with both signs, c_temperature) with float64 / float32 / int8 … uint64 arrays and
    Series (2-D, empty, read-only, non-default / text / repeated row labels), numpy scalars, Python ints of any size, and floats up to
    the ends of the double (float32) range: reply = exact SI factor x the values passed in (no wrap-around, no overflow of an
    intermediate), the caller's object unchanged (copy taken before), the reply of a real conversion a new object sharing no memory,
    the second conversion of the same variable = the first.  Where the unchanged tree wraps fixed-width integers: known findings S61-C01a..f.
"""
import itertools
import math
from decimal import Decimal
from fractions import Fraction as Fr

from pgv.core import close, err_class, frac, import_pygaps, qstr, tok

D = lambda s: Fr(Decimal(s))
# ---- independent SI tables (written from the definitions; NOT read from the code)
PA = {"Pa": D("1"), "kPa": D("1e3"), "MPa": D("1e6"), "mbar": D("100"), "bar": D("1e5"), "atm": D("101325"),
      "mmHg": D("133.322"), "torr": D("133.322")}
MOL = {"mmol": D("1e-3"), "mol": D("1"), "kmol": D("1e3"), "cm3(STP)": D("4.461e-5"), "mL(STP)": D("4.461e-5"),
       "cc(STP)": D("4.461e-5"), "L(STP)": D("4.461e-2")}
GRAM = {"amu": D("1.66054e-27"), "mg": D("1e-3"), "cg": D("1e-2"), "dg": D("0.1"), "g": D("1"), "kg": D("1e3")}
CM3 = {"cm3": D("1"), "mL": D("1"), "cc": D("1"), "dm3": D("1e3"), "L": D("1e3"), "m3": D("1e6")}
LTABLE = {"molar": MOL, "mass": GRAM, "volume_gas": CM3, "volume_liquid": CM3}
MTABLE = {"mass": GRAM, "volume": CM3, "molar": MOL}
# the four quantities a unit can belong to, and which one every loading / material basis needs
TABLES = {"pressure": PA, "molar": MOL, "mass": GRAM, "volume": CM3}
LB_TABLE = {"molar": "molar", "mass": "mass", "volume_gas": "volume", "volume_liquid": "volume"}
MB_TABLE = {"mass": "mass", "volume": "volume", "molar": "molar"}
CODE_TABLE_NAME = {"pressure": "_PRESSURE_UNITS", "molar": "_MOLAR_UNITS", "mass": "_MASS_UNITS", "volume": "_VOLUME_UNITS"}
PMODES = ("absolute", "relative", "relative%")
LBASES = ("mass", "volume_gas", "volume_liquid", "molar", "percent", "fraction")
MBASES = ("mass", "volume", "molar")

PRESS = [("absolute", u) for u in PA] + [("relative", None), ("relative%", None)]
LOAD = [(b, u) for b in ("molar", "mass", "volume_gas", "volume_liquid") for u in LTABLE[b]] + [("fraction", None), ("percent", None)]
MATS = [(b, u) for b in ("mass", "volume", "molar") for u in MTABLE[b]]
TEMPS = ["K", "°C", "C", "c", "celsius", "Celsius", "degC"]
QORDER = ["gas_density", "liquid_density", "molar_mass", "gas_molar_density", "liquid_molar_density"]
# CoolProp fluid names written here (the registry that maps pyGAPS names to backends is C20's subject)
COOLPROP_NAME = {"N2": "Nitrogen", "CO2": "CarbonDioxide", "Ar": "Argon", "CH4": "Methane", "H2O": "Water",
                 "C4H10": "n-Butane", "NH3": "Ammonia", "Kr": "Krypton"}


def coolprop_constants(cpname, temp):
    """saturation pressure [Pa], densities [g/cm3, mol/cm3], molar mass [g/mol] from CoolProp states of our own"""
    import CoolProp as CP
    liq = CP.AbstractState("HEOS", cpname)
    liq.update(CP.QT_INPUTS, 0.0, temp)
    gas = CP.AbstractState("HEOS", cpname)
    gas.update(CP.QT_INPUTS, 1.0, temp)
    return {"psat": liq.p(), "gas_density": gas.rhomass() / 1000, "liquid_density": liq.rhomass() / 1000,
            "molar_mass": liq.molar_mass() * 1000, "gas_molar_density": gas.rhomolar() / 1e6,
            "liquid_molar_density": liq.rhomolar() / 1e6}


def coolprop_range(cpname):
    import CoolProp as CP
    return CP.CoolProp.PropsSI("Ttriple", cpname), CP.CoolProp.PropsSI("Tcrit", cpname)


class Props:
    """The constants of one (adsorbate, material, temperature): exact fractions or None.

    `known`: the constants from a source independent of the accessors (constructor literals, own CoolProp states); when
    given they are the oracle's constants and the accessor values (`self.acc`) are compared with them by the caller.
    `matknown`: (density, molar mass) the material was built with."""

    def __init__(self, name, ads, mat, temp, pg, known=None, matknown=None, light=False):
        self.name, self.ads, self.mat, self.temp, self.light = name, ads, mat, temp, light

        def get(f):
            try:
                return frac(f())
            except pg.utilities.exceptions.pgError:
                return None
            except Exception:  # noqa  anything else is no value either; the comparison with the independent constants reports it
                return None
        self.acc = {
            "psat": get(lambda: ads.saturation_pressure(temp)),
            "gas_density": get(lambda: ads.gas_density(temp=temp)),
            "liquid_density": get(lambda: ads.liquid_density(temp=temp)),
            "molar_mass": get(lambda: ads.molar_mass()),
            "gas_molar_density": get(lambda: ads.gas_molar_density(temp=temp)),
            "liquid_molar_density": get(lambda: ads.liquid_molar_density(temp=temp)),
        }
        src = self.acc if known is None else {k: (None if v is None else frac(v)) for k, v in known.items()}
        self.known = known is not None
        self.psat = src["psat"]
        self.q = {k: src[k] for k in QORDER}
        if matknown is not None:
            self.md, self.mm = [None if x is None else frac(x) for x in matknown]
        else:
            self.md = None if mat is None or mat.density is None else frac(mat.density)
            self.mm = None if mat is None or mat.molar_mass is None else frac(mat.molar_mass)

    @classmethod
    def of_constants(cls, name, temp, known, matknown=(None, None)):
        """the SI oracle for given constants, WITHOUT touching an adsorbate object (no accessor is called)"""
        self = cls.__new__(cls)
        self.name, self.ads, self.mat, self.temp, self.light, self.acc, self.known = name, None, None, temp, True, {}, True
        self.psat = None if known.get("psat") is None else frac(known["psat"])
        self.q = {k: (None if known.get(k) is None else frac(known[k])) for k in QORDER}
        self.md, self.mm = [None if x is None else frac(x) for x in matknown]
        return self

    def env_tokens(self):
        return [tok(self.q[k]) for k in QORDER] + [tok(self.md), tok(self.mm)]

    def point_tokens(self):
        """<T> <psat> <gasDensity> <liquidDensity> <molarMass> <gasMolarDensity> <liquidMolarDensity> (driver ops tP/tL/tS/tQ)"""
        return [qstr(self.temp), tok(self.psat)] + [tok(self.q[k]) for k in QORDER]

    # ---- SI spec
    def g_l(self, b):
        q = self.q
        return {"molar": Fr(1), "mass": None if not q["molar_mass"] else 1 / q["molar_mass"],
                "volume_gas": q["gas_molar_density"], "volume_liquid": q["liquid_molar_density"]}[b]

    def scale_p(self, mode, unit):
        if mode == "absolute":
            return PA[unit]
        return self.psat if mode == "relative" else self.psat / 100

    def scale_l(self, b, u, mb, mu):
        if b in ("fraction", "percent"):
            bb = "volume_liquid" if mb == "volume" else mb
            s = LTABLE[bb][mu] * self.g_l(bb)
            return s / 100 if b == "percent" else s
        return LTABLE[b][u] * self.g_l(b)

    def grams(self, b, u):
        return MTABLE[b][u] * {"mass": Fr(1), "volume": self.md, "molar": self.mm}[b]


def call(f, *a, **k):
    try:
        return ("ok", f(*a, **k))
    except Exception as e:  # noqa
        return ("err", err_class(e))


class Rq:
    """One call of a public entry point: `factor` = exact SI factor the input must be multiplied by, None = the call must be
    refused with a parameter error.  `line` = the same request for the Lean driver (None: not modelled)."""
    __slots__ = ("desc", "thunk", "line", "entry", "table", "factor", "vin", "meta", "soft")

    def __init__(self, desc, thunk, line, entry, table=None, factor=None, vin=1.0, meta=None, soft=False):
        self.desc, self.thunk, self.line, self.entry, self.table = desc, thunk, line, entry, table
        self.factor, self.vin, self.meta, self.soft = factor, vin, meta, soft


class Groups:
    """Failing cases of the sequence oracles, reported once per group (first witness + number of cases) so that a defect
    which breaks thousands of requests writes a handful of replay files."""

    def __init__(self, ck):
        self.ck, self.g = ck, {}

    def add(self, gkey, sig, detail):
        e = self.g.get(gkey)
        if e is None:
            self.g[gkey] = [sig, detail, 1]
        else:
            e[2] += 1

    def flush(self):
        for sig, detail, n in self.g.values():
            d = dict(detail)
            d["failing_cases_in_this_group"] = n
            self.ck.fail_case(sig, d)
        self.g = {}


def run(ck):
    pg = import_pygaps()
    import numpy as np
    import pandas as pd
    from pygaps.units import converter_unit as cu_mod
    from pygaps.units.converter_mode import c_loading, c_material, c_pressure, c_temperature
    rng = ck.rng
    thorough = ck.tier == "thorough"
    groups = Groups(ck)
    xlines = []     # extra driver requests (beyond `cases`): (line, [(label, kind, val)], nontrivial?)

    def value_matches(val, vin, factor, rel=1e-11):
        """implementation result for input `vin` (scalar / ndarray / Series) = vin * factor pointwise, container kept"""
        try:
            if isinstance(vin, pd.Series):
                return isinstance(val, pd.Series) and list(val.index) == list(vin.index) and \
                    all(close(x, frac(y) * factor, rel=rel) for x, y in zip(val.values, vin.values))
            if isinstance(vin, np.ndarray):
                arr = np.asarray(val, dtype=float)
                return arr.shape == vin.shape and all(close(x, frac(y) * factor, rel=rel) for x, y in zip(arr, vin))
            return np.ndim(val) == 0 and close(val, frac(vin) * factor, rel=rel)
        except (TypeError, ValueError, OverflowError):
            return False

    def same_outcome(o1, o2):
        """two outcomes of the SAME call at two moments of the process"""
        if o1[0] != o2[0]:
            return False
        if o1[0] == "err":
            return o1[1] == o2[1]
        try:
            a, b = np.asarray(o1[1], dtype=float), np.asarray(o2[1], dtype=float)
            return a.shape == b.shape and all(close(x, y, rel=1e-13) for x, y in zip(a.ravel(), b.ravel()))
        except (TypeError, ValueError, OverflowError):
            return False

    def short(o):
        return [o[0], str(o[1])[:160]]

    # ------------------------------------------------------------------ adsorbates / materials
    STUB = dict(molar_mass=28.5, saturation_pressure=123456.0, liquid_density=0.81, gas_density=0.0047,
                liquid_molar_density=0.81 / 28.5, gas_molar_density=0.0047 / 28.5)
    STUB2 = dict(molar_mass=44.25, saturation_pressure=98765.5, liquid_density=1.125, gas_density=0.0021,
                 liquid_molar_density=1.125 / 44.25, gas_molar_density=0.0021 / 44.25)

    def known_of(d):
        return {"psat": d.get("saturation_pressure"), **{k: d.get(k) for k in QORDER}}
    stub = pg.Adsorbate("pgv_stub", store=False, **STUB)
    # a second adsorbate with the SAME name (Adsorbate hashes and compares by name): a result remembered per adsorbate is wrong for it
    stub2 = pg.Adsorbate("pgv_stub", store=False, **STUB2)
    nodens = pg.Adsorbate("pgv_nodens", store=False, molar_mass=30.0, saturation_pressure=5e4)
    mat = pg.Material("pgv_mat", store=False, density=2.3, molar_mass=321.0)
    mat_bare = pg.Material("pgv_bare", store=False)
    contexts = [Props("stub", stub, mat, 77.0, pg, known=known_of(STUB), matknown=(2.3, 321.0))]
    real = [("N2", 77.355), ("CO2", 273.15), ("Ar", 87.3)]
    if thorough:
        real += [("N2", 100.0), ("CH4", 111.0), ("H2O", 298.15), ("C4H10", 273.0), ("NH3", 250.0), ("Kr", 120.0)]
    # random temperatures between triple and critical point (any number of decimals), incl. one adsorbate at two temperatures
    rnd = [n for n, _ in real[:3]] + [real[0][0]] + ([n for n, _ in real[3:]] if thorough else [])
    real_ctx = [(n, t, False) for n, t in real]
    for n in rnd:
        lo, hi = coolprop_range(COOLPROP_NAME[n])
        real_ctx.append((n, lo + (hi - lo) * rng.uniform(0.05, 0.9), True))
    for name, t, light in real_ctx:
        contexts.append(Props(f"{name}@{t!r}" if light else f"{name}@{t}", pg.Adsorbate.find(name), mat, t, pg,
                              known=coolprop_constants(COOLPROP_NAME[name], t), matknown=(2.3, 321.0), light=light))
    contexts.append(Props("stub2", stub2, mat, 77.0, pg, known=known_of(STUB2), matknown=(2.3, 321.0), light=True))
    ctx_nodens = Props("nodens", nodens, mat_bare, 77.0, pg, known=known_of(dict(molar_mass=30.0, saturation_pressure=5e4)),
                       matknown=(None, None))
    # the accessors the converters read = the independent constants (stale thermodynamic state, wrong phase, unit slip ...)
    for cxx in contexts + [ctx_nodens]:
        for k, v in cxx.acc.items():
            exp = cxx.psat if k == "psat" else cxx.q[k]
            ck.count(("const", cxx.name, k), bucket="constant")
            if (v is None) != (exp is None) or (v is not None and not close(v, exp, rel=1e-12)):
                ck.fail_case({"fn": "constant", "quantity": k, "adsorbate": cxx.name.split("@")[0]},
                             {"adsorbate": cxx.name, "temperature": cxx.temp, "accessor": None if v is None else float(v),
                              "independent": None if exp is None else float(exp),
                              "what": "Adsorbate accessor read by the converters differs from the constant it was built with / CoolProp"})
    cx = contexts[0]
    A, M, T = cx.ads, cx.mat, cx.temp

    # ------------------------------------------------------------------ HISTORY oracle: the requests
    CODE = {}
    for ty, attr in CODE_TABLE_NAME.items():
        CODE[ty] = getattr(cu_mod, attr, None)
    c_unit = getattr(cu_mod, "c_unit", None)
    if c_unit is None or any(v is None for v in CODE.values()):
        ck.broken.append({"step": "entry points", "what": "converter_unit.c_unit or a unit table is missing"})
    VK = [lambda: 1.0, lambda: 3, lambda: np.float64(0.37), lambda: np.array([1.0, 2.5, -4.0]),
          lambda: pd.Series([1.0, 2.5, 0.125], index=[4, 9, 2])]
    VKN = ["1.0", "3", "numpy.float64(0.37)", "numpy.array([1.0, 2.5, -4.0])", "pandas.Series([1.0, 2.5, 0.125], index=[4, 9, 2])"]
    counter = itertools.count()

    def vk():
        i = next(counter) % len(VK)
        return VK[i](), VKN[i]

    envt = cx.env_tokens()

    def rq_unit(ty, a, b, sign, factor):
        v, vn = vk()
        return Rq(f"c_unit({CODE_TABLE_NAME[ty]}, {vn}, {a!r}, {b!r}, sign={sign})",
                  (lambda: c_unit(CODE[ty], v, a, b, sign)), " ".join(["cU", ty, "1/1", tok(a), tok(b), str(sign)]),
                  "c_unit", ty, factor, v, meta="pair")

    def rq_pressure(mf, mt, uf, ut, factor, entry):
        v, vn = vk()
        return Rq(f"c_pressure({vn}, {mf!r}, {mt!r}, {uf!r}, {ut!r}, <pgv_stub p_sat={STUB['saturation_pressure']}>, {T})",
                  (lambda: c_pressure(v, mf, mt, uf, ut, A, T)),
                  " ".join(["cP", tok(cx.psat), "T", "1/1", tok(mf), tok(mt), tok(uf), tok(ut)]), entry, "pressure", factor, v,
                  meta="pair" if entry.endswith(":unit") else None)

    def rq_satp(u, factor):
        fn = rng.choice(["saturation_pressure", "pressure_saturation"])     # the documented alias too
        return Rq(f"<pgv_stub p_sat={STUB['saturation_pressure']}>.{fn}({T}, unit={u!r})",
                  (lambda: getattr(A, fn)(T, unit=u)), " ".join(["cS", tok(cx.psat), tok(u)]),
                  "saturation_pressure", "pressure", factor, cx.psat)

    def rq_loading(bf, bt, uf, ut, mb, mu, factor, entry, ty):
        v, vn = vk()
        return Rq(f"c_loading({vn}, {bf!r}, {bt!r}, {uf!r}, {ut!r}, <pgv_stub>, {T}, {mb!r}, {mu!r})",
                  (lambda: c_loading(v, bf, bt, uf, ut, A, T, mb, mu)),
                  " ".join(["cL"] + envt + ["1/1"] + [tok(x) for x in (bf, bt, uf, ut, mb, mu)]), entry, ty, factor, v,
                  meta="pair" if entry.endswith(":unit") else None)

    def rq_material(bf, bt, uf, ut, factor, entry, ty):
        v, vn = vk()
        return Rq(f"c_material({vn}, {bf!r}, {bt!r}, {uf!r}, {ut!r}, <Material density=2.3 molar_mass=321.0>)",
                  (lambda: c_material(v, bf, bt, uf, ut, M)),
                  " ".join(["cM"] + envt + ["1/1"] + [tok(x) for x in (bf, bt, uf, ut)]), entry, ty, factor, v,
                  meta="pair" if entry.endswith(":unit") else None)

    def other(seq, x):
        return rng.choice([y for y in seq if y != x])

    def own_requests(tx, a, b):
        """valid conversions of the ordered pair (a, b) through every entry point of its own table"""
        t = TABLES[tx]
        r = t[a] / t[b]
        out = [rq_unit(tx, a, b, 1, r), rq_unit(tx, a, b, -1, 1 / r)]
        if tx == "pressure":
            out.append(rq_pressure("absolute", "absolute", a, b, r, "c_pressure:unit"))
            out.append(rq_satp(b, 1 / PA[b]))
        for B, tb in LB_TABLE.items():
            if tb == tx:
                out.append(rq_loading(B, B, a, b, *rng.choice([("mass", "g"), (None, None)]), r, "c_loading:unit", tx))
        for B, tb in MB_TABLE.items():
            if tb == tx:
                out.append(rq_material(B, B, a, b, 1 / r, "c_material:unit", tx))
        return out

    def foreign_requests(tx, a, b):
        """the same two strings where a unit of another quantity is needed: every other table, every entry point"""
        out = []
        for ty in TABLES:
            if ty == tx:
                continue
            out.append(rq_unit(ty, a, b, rng.choice((1, -1)), None))
            if ty == "pressure":
                out.append(rq_pressure("absolute", "absolute", a, b, None, "c_pressure:unit"))
                out.append(rq_pressure("absolute", rng.choice(PMODES[1:]), a, None, None, "c_pressure:mode"))
                out.append(rq_pressure(rng.choice(PMODES[1:]), "absolute", None, b, None, "c_pressure:mode"))
                out.append(rq_satp(b, None))
            for B, tb in LB_TABLE.items():
                if tb == ty:
                    out.append(rq_loading(B, B, a, b, "mass", "g", None, "c_loading:unit", ty))
                    B2 = other(list(LB_TABLE), B)
                    out.append(rq_loading(B, B2, a, rng.choice(list(LTABLE[B2])), "mass", "g", None, "c_loading:basis", ty))
                    out.append(rq_loading(B2, B, rng.choice(list(LTABLE[B2])), b, "mass", "g", None, "c_loading:basis", ty))
            for B, tb in MB_TABLE.items():
                if tb == ty:
                    out.append(rq_material(B, B, a, b, None, "c_material:unit", ty))
                    B2 = other(MBASES, B)
                    out.append(rq_material(B, B2, a, rng.choice(list(MTABLE[B2])), None, "c_material:basis", ty))
                    out.append(rq_material(B2, B, rng.choice(list(MTABLE[B2])), b, None, "c_material:basis", ty))
        return out

    def basis_requests():
        """a mode / basis that is valid for another kind of quantity (or for none) where a pressure mode, a loading basis,
        a material basis is needed"""
        out = []
        for x in sorted(set(LBASES + MBASES)):
            out.append(rq_pressure(x, "absolute", "bar", "bar", None, "c_pressure:foreign-mode"))
            out.append(rq_pressure("relative", x, None, None, None, "c_pressure:foreign-mode"))
        for x in PMODES + ("volume",):
            out.append(rq_loading(x, "molar", "g", "mmol", "mass", "g", None, "c_loading:foreign-basis", None))
            out.append(rq_loading("mass", x, "g", "g", "mass", "g", None, "c_loading:foreign-basis", None))
        for x in PMODES + ("volume_gas", "volume_liquid", "percent", "fraction"):
            out.append(rq_material(x, "mass", "g", "g", None, "c_material:foreign-basis", None))
            out.append(rq_material("volume", x, "cm3", "cm3", None, "c_material:foreign-basis", None))
        return out

    blocks = []    # (tx, a, b, own, foreign)
    for tx, t in TABLES.items():
        for a, b in itertools.permutations(t, 2):
            blocks.append((tx, a, b, own_requests(tx, a, b), foreign_requests(tx, a, b)))
    basis_rqs = basis_requests()
    fresh = {}       # id(Rq) -> first outcome
    model_of = {}    # id(Rq) -> index into xlines

    def model_line(r, o):
        if r.line is None:
            return
        i = model_of.get(id(r))
        if i is None:
            model_of[id(r)] = len(xlines)
            xlines.append([r.line, [], r.factor is not None, r])
            i = len(xlines) - 1
        xlines[i][1].append(o)

    def judge(r, o, phase, before=None):
        """one executed request against the property (not the model)"""
        kind, val = o
        key = (r.entry, r.table, r.desc)
        if r.factor is None:
            ck.count(("hist", phase) + key, nontrivial=False, bucket=f"history:{phase}:refusal:" + (val if kind == "err" else "NUMBER"))
            if not (kind == "err" and val == "param"):
                sig = {"fn": "foreign-unit" if "foreign" not in r.entry else "foreign-basis", "entry": r.entry, "needed": r.table,
                       "phase": phase, "outcome": val if kind == "err" else "number"}
                det = {"call": r.desc, "implementation": short(o), "expected": "ParameterError"}
                if phase == "after":
                    det["refused_in_fresh_process_state"] = fresh.get(id(r), ("?", "?"))[0] == "err"
                    det["preceded_by_valid_conversion"] = before
                groups.add((sig["fn"], r.entry, r.table, phase), sig, det)
        else:
            ck.count(("hist", phase) + key, nontrivial=phase == "after", bucket=f"history:{phase}:valid:" + (kind if kind == "ok" else val))
            good = kind == "ok" and value_matches(val, r.vin, r.factor)
            if not good:
                sig = {"fn": "history-factor", "entry": r.entry, "table": r.table, "phase": phase}
                groups.add(("factor", r.entry, r.table, phase), sig,
                           {"call": r.desc, "implementation": short(o), "expected_factor_SI": str(float(r.factor)),
                            "preceded_by": before})

    # ---- phase "fresh": nothing has been converted yet in this process
    if c_unit is not None:
        for r in basis_rqs + [r for blk in blocks for r in blk[4]]:
            o = call(r.thunk)
            fresh[id(r)] = o
            model_line(r, o)
            judge(r, o, "fresh")
        groups.flush()

    # ------------------------------------------------------------------ isotherm accessors (same oracle, through the accessor glue)
    iso_rqs, iso_first = [], {}
    try:
        cxi = contexts[1]     # N2 at the first fixed temperature
        pg.Material("pgv_iso_mat", store=True, density=2.3, molar_mass=321.0)
        P0, L0 = [0.1, 0.2, 0.5, 0.9], [1.0, 2.0, 3.0, 3.5]
        iso = pg.PointIsotherm(pressure=P0, loading=L0, material="pgv_iso_mat", adsorbate="N2", temperature=cxi.temp,
                               pressure_mode="absolute", pressure_unit="bar", loading_basis="molar", loading_unit="mmol",
                               material_basis="mass", material_unit="g", temperature_unit="K")
        for (m, u) in PRESS:
            iso_rqs.append(Rq(f"iso.pressure(pressure_mode={m!r}, pressure_unit={u!r})",
                              (lambda m=m, u=u: iso.pressure(pressure_mode=m, pressure_unit=u)), None, "iso.pressure", None,
                              cxi.scale_p("absolute", "bar") / cxi.scale_p(m, u), np.array(P0)))
        for (b, u) in LOAD:
            iso_rqs.append(Rq(f"iso.loading(loading_basis={b!r}, loading_unit={u!r})",
                              (lambda b=b, u=u: iso.loading(loading_basis=b, loading_unit=u)), None, "iso.loading", None,
                              cxi.scale_l("molar", "mmol", "mass", "g") / cxi.scale_l(b, u, "mass", "g"), np.array(L0)))
        for (b, u) in MATS:
            iso_rqs.append(Rq(f"iso.loading(material_basis={b!r}, material_unit={u!r})",
                              (lambda b=b, u=u: iso.loading(material_basis=b, material_unit=u)), None, "iso.loading:material", None,
                              cxi.grams(b, u) / cxi.grams("mass", "g"), np.array(L0)))
        for ty, t in TABLES.items():
            for u in t:
                if ty != "pressure":
                    iso_rqs.append(Rq(f"iso.pressure(pressure_unit={u!r})", (lambda u=u: iso.pressure(pressure_unit=u)),
                                      None, "iso.pressure", "pressure", None, soft=True))
                if ty != "molar":
                    iso_rqs.append(Rq(f"iso.loading(loading_unit={u!r})", (lambda u=u: iso.loading(loading_unit=u)),
                                      None, "iso.loading", "molar", None, soft=True))
                if ty != "mass":
                    iso_rqs.append(Rq(f"iso.loading(material_unit={u!r})", (lambda u=u: iso.loading(material_unit=u)),
                                      None, "iso.loading:material", "mass", None, soft=True))
    except Exception as e:  # noqa  the isotherm could not be built: not this property's subject, but say so
        ck.notes.append(f"C01 isotherm-accessor block skipped: {type(e).__name__}: {e}")
        iso_rqs = []

    def run_iso(phase):
        for r in iso_rqs:
            o = call(r.thunk)
            kind, val = o
            ck.count(("iso", phase, r.desc), nontrivial=r.factor is not None and phase == "fresh",
                     bucket=f"isotherm:{phase}:" + (kind if kind == "ok" else val))
            if r.factor is None:
                # the accessors wrap a refused pressure conversion into a CalculationError: both are refusals
                if not (kind == "err" and val in ("param", "calc")):
                    groups.add(("iso-ref", r.entry, phase),
                               {"fn": "foreign-unit", "entry": r.entry, "needed": r.table, "phase": phase,
                                "outcome": val if kind == "err" else "number"},
                               {"call": r.desc, "isotherm": "PointIsotherm(N2, bar, mmol/g)", "implementation": short(o),
                                "expected": "ParameterError (or the accessor's CalculationError wrapper)"})
            elif not (kind == "ok" and value_matches(val, r.vin, r.factor)):
                groups.add(("iso-val", r.entry, phase), {"fn": "accessor-factor", "entry": r.entry, "phase": phase},
                           {"call": r.desc, "isotherm": "PointIsotherm(N2, bar, mmol/g, per g)", "implementation": short(o),
                            "expected": [float(frac(x) * r.factor) for x in r.vin]})
            if phase == "fresh":
                iso_first[id(r)] = o
            elif not same_outcome(iso_first[id(r)], o):
                groups.add(("iso-hist", r.entry), {"fn": "history", "entry": r.entry},
                           {"call": r.desc, "first_answer": short(iso_first[id(r)]), "answer_after_history": short(o)})
        groups.flush()
    run_iso("fresh")

    values = [1.0, 0.37, -2.5, 0.0] if thorough else [1.0, 0.37]
    cases = []   # (line, impl_thunk, spec_value_or_None, key, bucket)

    def add(line, thunk, spec, key, bucket, nontrivial=True):
        cases.append((line, thunk, spec, key, bucket, nontrivial))

    # ------------------------------------------------------------------ exhaustive valid space
    for cx in contexts:
        A, M, T = cx.ads, cx.mat, cx.temp
        vs = values if cx.name == "stub" else values[:1]
        for (mf, uf), (mt, ut) in itertools.product(PRESS, PRESS):
            for v in vs:
                spec = frac(v) * cx.scale_p(mf, uf) / cx.scale_p(mt, ut)
                add(" ".join(["cP", tok(cx.psat), "T", qstr(v), mf, mt, tok(uf), tok(ut)]),
                    (lambda v=v, mf=mf, mt=mt, uf=uf, ut=ut, A=A, T=T: c_pressure(v, mf, mt, uf, ut, A, T)),
                    spec, ("P", cx.name, mf, uf, mt, ut) if cx.light else ("P", mf, uf, mt, ut), "pressure", (mf, uf) != (mt, ut))
        mats_all = MATS
        mats_q = MATS if thorough else [MATS[i] for i in sorted(rng.sample(range(len(MATS)), 5))]
        lpairs = list(itertools.product(LOAD, LOAD))
        if cx.light:
            # random-temperature contexts: a sample of the pairs, every one of the 12 constant leaves included
            leaves = [((bf, rng.choice(list(LTABLE[bf]))), (bt, rng.choice(list(LTABLE[bt]))))
                      for bf in LTABLE for bt in LTABLE if bf != bt]
            lpairs = leaves + rng.sample(lpairs, ck.n(90, 400))
        for (bf, uf), (bt, ut) in lpairs:
            fr = bf in ("fraction", "percent") or bt in ("fraction", "percent")
            mats = (mats_all if cx.name == "stub" and thorough else mats_q) if fr else [("mass", "g"), (None, None)]
            if not fr and cx.name != "stub":
                mats = mats[:1]
            if cx.light:
                mats = [rng.choice(mats)]
            for (mb, mu) in mats:
                v = vs[0] if len(vs) == 1 else rng.choice(vs)
                spec = frac(v) * cx.scale_l(bf, uf, mb, mu) / cx.scale_l(bt, ut, mb, mu)
                add(" ".join(["cL"] + cx.env_tokens() + [qstr(v), bf, bt, tok(uf), tok(ut), tok(mb), tok(mu)]),
                    (lambda v=v, bf=bf, bt=bt, uf=uf, ut=ut, mb=mb, mu=mu, A=A, T=T:
                     c_loading(v, bf, bt, uf, ut, A, T, mb, mu)),
                    spec, ("L", cx.name, bf, uf, bt, ut, mb, mu) if cx.light else ("L", bf, uf, bt, ut, mb, mu), "loading",
                    (bf, uf) != (bt, ut))
        if cx.light:
            continue
        for (bf, uf), (bt, ut) in itertools.product(MATS, MATS):
            v = vs[0]
            spec = frac(v) * cx.grams(bt, ut) / cx.grams(bf, uf)
            add(" ".join(["cM"] + cx.env_tokens() + [qstr(v), bf, bt, uf, ut]),
                (lambda v=v, bf=bf, bt=bt, uf=uf, ut=ut, M=M: c_material(v, bf, bt, uf, ut, M)),
                spec, ("M", bf, uf, bt, ut), "material", (bf, uf) != (bt, ut))
    for uf, ut in itertools.product(TEMPS, TEMPS):
        for v in (25.0, -300.5):
            k = frac(v) + (D("273.15") if "c" in uf.lower() else 0)
            spec = k - (D("273.15") if "c" in ut.lower() else 0)
            add(" ".join(["cT", qstr(v), uf, ut]), (lambda v=v, uf=uf, ut=ut: c_temperature(v, uf, ut)),
                spec, ("T", uf, ut), "temperature", ("c" in uf.lower()) != ("c" in ut.lower()))

    # ------------------------------------------------------------------ malformed stream (model decides; spec: never a number on a needed item)
    BAD = [None, "", "bogus", "g", "bar", "mol"]
    cx = contexts[0]
    A, M, T = cx.ads, cx.mat, cx.temp
    mal = []
    for (mf, uf), (mt, ut) in [(("absolute", "bar"), ("relative", None)), (("relative%", None), ("absolute", "torr")),
                               (("absolute", "bar"), ("absolute", "Pa")), (("relative", None), ("relative%", None))]:
        base = [mf, mt, uf, ut]
        for i in range(4):
            for b in BAD:
                a = list(base)
                a[i] = b
                mal.append(("cP", a, T, A))
        mal.append(("cP", base, None, A))
        mal.append(("cP", base, 0, A))
    # the SAME unknown / missing unit (or mode) on both sides: nothing to convert, still not a representation
    for b in BAD + ["psi", "Bar", "pa"]:
        mal.append(("cP", ["absolute", "absolute", b, b], T, A))
        mal.append(("cP", [b, b, "bar", "bar"], T, A))
    for name, a, temp, ads in mal:
        add(" ".join(["cP", tok(cx.psat), "T" if temp else "F", "1/1"] + [tok(x) for x in a]),
            (lambda a=a, temp=temp, ads=ads: c_pressure(1.0, a[0], a[1], a[2], a[3], ads, temp)),
            None, ("Pbad", tuple(a), bool(temp)), "malformed", False)
    lbase = [(("mass", "g"), ("molar", "mmol"), ("mass", "g")), (("molar", "mol"), ("fraction", None), ("mass", "kg")),
             (("percent", None), ("volume_gas", "cm3"), ("volume", "cm3")), (("fraction", None), ("percent", None), ("mass", "g")),
             (("mass", "g"), ("mass", "kg"), (None, None)), (("fraction", None), ("fraction", None), ("mass", "g"))]
    for (bf, uf), (bt, ut), (mb, mu) in lbase:
        base = [bf, bt, uf, ut, mb, mu]
        for i in range(6):
            for b in BAD + ["volume", "fraction"]:
                a = list(base)
                a[i] = b
                for cxx in (cx, ctx_nodens):
                    add(" ".join(["cL"] + cxx.env_tokens() + ["1/1"] + [tok(x) for x in a]),
                        (lambda a=a, cxx=cxx: c_loading(1.0, a[0], a[1], a[2], a[3], cxx.ads, cxx.temp, a[4], a[5])),
                        None, ("Lbad", tuple(a), cxx.name), "malformed", False)
    for (bf, uf), (bt, ut) in [(("mass", "g"), ("volume", "cm3")), (("molar", "mol"), ("mass", "kg")), (("mass", "g"), ("mass", "mg"))]:
        base = [bf, bt, uf, ut]
        for i in range(4):
            for b in BAD + ["fraction", "percent"]:
                a = list(base)
                a[i] = b
                for cxx in (cx, ctx_nodens):
                    add(" ".join(["cM"] + cxx.env_tokens() + ["1/1"] + [tok(x) for x in a]),
                        (lambda a=a, cxx=cxx: c_material(1.0, a[0], a[1], a[2], a[3], cxx.mat)),
                        None, ("Mbad", tuple(a), cxx.name), "malformed", False)
    for b in BAD + ["furlong"]:
        for (bf, bt, mb, mu) in (("mass", "mass", "mass", "g"), ("molar", "molar", "mass", "g")):
            a = [bf, bt, b, b, mb, mu]
            add(" ".join(["cL"] + cx.env_tokens() + ["1/1"] + [tok(x) for x in a]),
                (lambda a=a: c_loading(1.0, a[0], a[1], a[2], a[3], cx.ads, cx.temp, a[4], a[5])), None, ("Lbad-same", tuple(a), cx.name), "malformed", False)
        a = ["mass", "mass", b, b]
        add(" ".join(["cM"] + cx.env_tokens() + ["1/1"] + [tok(x) for x in a]),
            (lambda a=a: c_material(1.0, a[0], a[1], a[2], a[3], cx.mat)), None, ("Mbad-same", tuple(a), cx.name), "malformed", False)
    for a in itertools.product([None, "", "bogus", "F", "K", "C"], repeat=2):
        add(" ".join(["cT", "5/1", tok(a[0]), tok(a[1])]), (lambda a=a: c_temperature(5.0, a[0], a[1])),
            None, ("Tbad", a), "malformed", False)

    # ------------------------------------------------------------------ run the implementation on the enumeration
    first = [call(c[1]) for c in cases]

    # ------------------------------------------------------------------ STATED-TEMPERATURE oracle: near-duplicate temperatures
    # Props/C01/Temperature.lean: an implementation that keeps what the backend delivered under a key computed from the temperature
    # answers wrongly exactly when two temperatures with one key have different constants, and then two CONSECUTIVE requests
    # expose it.  Clusters of temperatures that any such key merges, on the shared adsorbate objects, every leaf at every visit.
    temp_lines = []     # (line builder, outcome, vin, desc): sampled for the Lean model afterwards
    own_consts = {}     # (CoolProp name, exact float) -> Props of constants of our own states

    def consts_at(name, tf):
        key = (name, tf)
        if key not in own_consts:
            own_consts[key] = Props.of_constants(f"{name}@{tf!r}", tf, coolprop_constants(COOLPROP_NAME[name], tf))
        return own_consts[key]

    def t_repr(t):
        return f"numpy.{type(t).__name__}({t.item()!r})" if isinstance(t, np.generic) else repr(t)

    def cluster_of(t0, lo, hi):
        """[(temperature object as passed, its exact float value)]: t0 first, then what a lossy key of the temperature merges with it"""
        cand = [t0 + 10 ** rng.uniform(-6, math.log10(5e-2)) * rng.choice((1, -1)) for _ in range(ck.n(4, 10))]
        cand += [round(t0, nd) for nd in (0, 1, 2, 3, 4)] + [float(math.floor(t0)), float(np.float32(t0))]
        cand += [round(t0, 2) + rng.choice((1, -1)) * rng.uniform(1e-4, 4.9e-3)]      # the same two decimals from the other side
        out, seen = [(t0, float(t0))], {float(t0)}
        for t in cand:
            if lo < t < hi and t not in seen:
                seen.add(t)
                out.append((t, t))
        # the same number in the other types a temperature arrives in
        typed = [np.float64(t0), np.float32(t0)]
        for t, tf in list(out):
            if float(tf).is_integer():
                typed += [int(tf), np.int64(int(tf))]
        for t in typed:
            if lo < float(t) < hi:
                out.append((t, float(t)))
        return out

    LPHYS = list(LTABLE)
    P0i, L0i = [0.1, 0.2, 0.5, 0.9], [1.0, 2.0, 3.0, 3.5]

    def leaf_requests(name, ads, t, tf):
        """every entry point that reads a constant of the adsorbate at the temperature `t` (exact value `tf`):
        (entry, leaf, desc, thunk, SI factor as a function of the constants, vin, line builder) — vin None: the reply is the constant itself"""
        out = []
        tr = t_repr(t)
        for rel in PMODES[1:]:
            u = rng.choice(list(PA))
            for mf, mt, uf, ut in (("absolute", rel, u, None), (rel, "absolute", None, u)):
                v, vn = vk()
                out.append(("c_pressure", "saturation_pressure", f"c_pressure({vn}, {mf!r}, {mt!r}, {uf!r}, {ut!r}, <{name}>, {tr})",
                            (lambda v=v, mf=mf, mt=mt, uf=uf, ut=ut: c_pressure(v, mf, mt, uf, ut, ads, t)),
                            (lambda k, mf=mf, mt=mt, uf=uf, ut=ut: k.scale_p(mf, uf) / k.scale_p(mt, ut)), v,
                            (lambda tbl, mf=mf, mt=mt, uf=uf, ut=ut: " ".join(["tP"] + tbl + [qstr(tf), "1/1", mf, mt, tok(uf), tok(ut)]))))
        u = rng.choice(list(PA) + [None])
        fn = rng.choice(["saturation_pressure", "pressure_saturation"])
        out.append(("saturation_pressure", "saturation_pressure", f"<{name}>.{fn}({tr}, unit={u!r})",
                    (lambda u=u, fn=fn: getattr(ads, fn)(t, unit=u)), (lambda k, u=u: k.psat / (PA[u] if u else 1)), None,
                    (lambda tbl, u=u: " ".join(["tS"] + tbl + [qstr(tf), tok(u)]))))
        for q in ("gas_density", "liquid_density", "gas_molar_density", "liquid_molar_density"):
            out.append(("accessor", q, f"<{name}>.{q}({tr})", (lambda q=q: getattr(ads, q)(t)), (lambda k, q=q: k.q[q]), None,
                        (lambda tbl, q=q: " ".join(["tQ"] + tbl + [qstr(tf), q]))))
        pairs = [((bf, rng.choice(list(LTABLE[bf]))), (bt, rng.choice(list(LTABLE[bt])))) for bf in LPHYS for bt in LPHYS if bf != bt]
        for fr in ("fraction", "percent"):
            b = rng.choice(LPHYS)
            pr = ((fr, None), (b, rng.choice(list(LTABLE[b]))))
            pairs.append(pr if rng.random() < 0.5 else pr[::-1])
        for (bf, uf), (bt, ut) in pairs:
            fr = bf in ("fraction", "percent") or bt in ("fraction", "percent")
            mb, mu = rng.choice(MATS) if fr else rng.choice([("mass", "g"), (None, None)])
            v, vn = vk()
            leafq = "+".join(sorted({bf, bt} - {"fraction", "percent"})) + (f"|material:{mb}" if fr else "")
            out.append(("c_loading", leafq, f"c_loading({vn}, {bf!r}, {bt!r}, {uf!r}, {ut!r}, <{name}>, {tr}, {mb!r}, {mu!r})",
                        (lambda v=v, bf=bf, bt=bt, uf=uf, ut=ut, mb=mb, mu=mu: c_loading(v, bf, bt, uf, ut, ads, t, mb, mu)),
                        (lambda k, bf=bf, bt=bt, uf=uf, ut=ut, mb=mb, mu=mu: k.scale_l(bf, uf, mb, mu) / k.scale_l(bt, ut, mb, mu)), v,
                        (lambda tbl, bf=bf, bt=bt, uf=uf, ut=ut, mb=mb, mu=mu:
                         " ".join(["tL"] + tbl + ["~", "~", qstr(tf), "1/1", bf, bt, tok(uf), tok(ut), tok(mb), tok(mu)]))))
        return out

    def iso_requests(name, t):
        """two isotherms of the same gas at neighbouring temperatures share the adsorbate object: the accessor glue at `t`"""
        iso_t = pg.PointIsotherm(pressure=P0i, loading=L0i, material="pgv_iso_mat", adsorbate=name, temperature=t,
                                 pressure_mode="absolute", pressure_unit="bar", loading_basis="molar", loading_unit="mmol",
                                 material_basis="mass", material_unit="g", temperature_unit="K")
        tr = t_repr(t)
        m = rng.choice(PMODES[1:])
        b = rng.choice(["mass", "volume_gas", "volume_liquid", "fraction", "percent"])
        u = None if b in ("fraction", "percent") else rng.choice(list(LTABLE[b]))
        return [("iso.pressure", "saturation_pressure",
                 f"PointIsotherm({name}, bar, mmol/g, temperature={tr}).pressure(pressure_mode={m!r})",
                 (lambda: iso_t.pressure(pressure_mode=m)), (lambda k: k.scale_p("absolute", "bar") / k.scale_p(m, None)),
                 np.array(P0i), None),
                ("iso.loading", b,
                 f"PointIsotherm({name}, bar, mmol/g, temperature={tr}).loading(loading_basis={b!r}, loading_unit={u!r})",
                 (lambda: iso_t.loading(loading_basis=b, loading_unit=u)),
                 (lambda k: k.scale_l("molar", "mmol", "mass", "g") / k.scale_l(b, u, "mass", "g")), np.array(L0i), None)]

    def fits(o, vin, fac):
        try:
            return o[0] == "ok" and (value_matches(o[1], vin, fac) if vin is not None
                                     else (np.ndim(o[1]) == 0 and close(o[1], fac, rel=1e-11)))
        except (TypeError, ValueError, OverflowError):
            return False

    near_t = {"clusters": 0, "temperatures": 0, "requests": 0}
    try:
        if not iso_rqs:
            pg.Material("pgv_iso_mat", store=True, density=2.3, molar_mass=321.0)
    except Exception:  # noqa
        pass
    bases = [(n, float(t)) for n, t, _ in real_ctx]
    for n in sorted({n for n, _, _ in real_ctx}):
        lo, hi = coolprop_range(COOLPROP_NAME[n])
        bases.append((n, lo + (hi - lo) * rng.uniform(0.05, 0.9)))
    if not thorough:
        # quick tier, per adsorbate: a fixed and a random temperature of the enumeration (their constants were read long ago) and a new one
        keep = {}
        for n, t0 in bases:
            keep.setdefault(n, []).append(t0)
        bases = [(n, t0) for n, ts in keep.items() for t0 in (ts[:1] + rng.sample(ts[1:-1], min(1, len(ts[1:-1]))) + ts[-1:])]
    for name, t0 in bases:
        ads = pg.Adsorbate.find(name)
        lo, hi = coolprop_range(COOLPROP_NAME[name])
        cluster = cluster_of(t0, lo, hi)
        ctemps = list(dict.fromkeys(x[1] for x in cluster))
        near_t["clusters"] += 1
        near_t["temperatures"] += len(ctemps)
        visits = []
        for _ in range(2):       # every temperature is asked again after the others have been
            rest = list(cluster)
            rng.shuffle(rest)
            visits += rest
        before, prev_tf = None, None
        for t, tf in visits:
            kx = consts_at(name, tf)
            try:
                rqs = leaf_requests(name, ads, t, tf)
                rng.shuffle(rqs)
                if rng.random() < 0.3:
                    rqs += iso_requests(name, t)
            except Exception as e:  # noqa  an isotherm at a temperature in range could not be built: a failing input, not a crash
                groups.add(("neartemp-raised", type(e).__name__), {"fn": "stated-temperature", "raised": type(e).__name__},
                           {"what": f"{type(e).__name__}: {e}"[:300], "adsorbate": name, "temperature": t_repr(t)})
                continue
            for entry, leafq, desc, thunk, fac_of, vin, builder in rqs:
                o = call(thunk)
                near_t["requests"] += 1
                ck.count(("neartemp", name, entry, leafq, desc), nontrivial=True,
                         bucket="stated-temperature:" + entry + ":" + (o[0] if o[0] == "ok" else o[1]))
                factor = fac_of(kx)
                if not fits(o, vin, factor):
                    det = {"call": desc, "implementation": short(o), "stated_temperature": repr(tf),
                           "expected_" + ("factor_SI" if vin is not None else "value_SI"): str(float(factor)),
                           "constants_from": "CoolProp states of the harness's own at exactly the stated temperature",
                           "preceded_by": before}
                    # which temperature's constants were used instead (the evidence of a remembered value)
                    for tf2 in ctemps:
                        if tf2 != tf and fits(o, vin, fac_of(consts_at(name, tf2))):
                            det["reply_is_the_SI_value_for_the_temperature"] = repr(tf2)
                            det["kelvin_between_the_two"] = abs(tf2 - tf)
                            break
                    groups.add(("neartemp", entry, leafq.split("|")[0]),
                               {"fn": "stated-temperature", "entry": entry, "quantity": leafq.split("|")[0], "adsorbate": name}, det)
                if builder is not None:
                    temp_lines.append((builder, name, tf, prev_tf, ctemps, o, vin, desc))
                before = desc
            prev_tf = tf
    groups.flush()

    # ------------------------------------------------------------------ HISTORY oracle, phase "after"
    # blocks in shuffled order: [valid conversion of (a, b) through every entry point of its own table] [the same strings against
    # every other table] [a valid conversion again: a refusal must not be remembered either], mixed with re-executions of earlier
    # valid conversions (other adsorbates, temperatures, materials in between): same answer as the first time, and the SI factor
    def recheck(i, before):
        line, thunk, spec, key, bucket, nontriv = cases[i]
        o = call(thunk)
        ck.count(("again",) + tuple(key), nontrivial=False, bucket="history:after:re-executed:" + (o[0] if o[0] == "ok" else o[1]))
        if not same_outcome(first[i], o) or (spec is not None and not (o[0] == "ok" and close(o[1], spec, rel=1e-11))):
            groups.add(("again", key[0]), {"fn": "history", "entry": key[0], "case": [str(x) for x in key[1:]][:3]},
                       {"request": line, "first_answer": short(first[i]), "answer_after_history": short(o),
                        "expected_SI": None if spec is None else str(float(spec)), "preceded_by": before})

    if c_unit is not None:
        order = list(range(len(blocks)))
        rng.shuffle(order)
        last = None
        for bi in order:
            tx, a, b, own, foreign = blocks[bi]
            for r in own:
                o = call(r.thunk)
                model_line(r, o)
                judge(r, o, "after", before=last)
                last = r.desc
            fs = list(foreign)
            rng.shuffle(fs)
            pair_own = [r for r in own if r.meta == "pair"]
            for r in fs:
                # immediately before every foreign request: a valid conversion of exactly these two strings (a bounded memory
                # of recent conversions is reached as well)
                p = rng.choice(pair_own)
                judge(p, call(p.thunk), "after", before=last)
                o = call(r.thunk)
                model_line(r, o)
                judge(r, o, "after", before=p.desc)
                last = r.desc
            r = rng.choice(own)
            judge(r, call(r.thunk), "after", before=fs[-1].desc if fs else None)
            for _ in range(ck.n(3, 12)):
                i = rng.randrange(len(cases))
                recheck(i, last)
            last = r.desc
        for r in basis_rqs:
            o = call(r.thunk)
            model_line(r, o)
            judge(r, o, "after", before=last)
        groups.flush()

    # ------------------------------------------------------------------ MATERIAL oracle: real pygaps.Material objects
    A, M, T = cx.ads, cx.mat, cx.temp
    mat_lines = []    # (line, outcome, desc, is_getprop)

    def mat_spec(exp, v, bf, uf, bt, ut):
        """SI value, or None when a needed property is missing (=> refusal)"""
        g = {"mass": Fr(1), "volume": exp.get("density"), "molar": exp.get("molar_mass")}
        if bf == bt:       # a change of unit alone needs no property of the material
            return frac(v) * MTABLE[bt][ut] / MTABLE[bf][uf]
        if g[bf] is None or g[bt] is None:
            return None
        return frac(v) * (MTABLE[bt][ut] * frac(g[bt])) / (MTABLE[bf][uf] * frac(g[bf]))

    def mat_queries(m, ops, exp, hist, k):
        need_leaves = [(bf, bt) for bf in MBASES for bt in MBASES]
        qs = [((bf, rng.choice(list(MTABLE[bf]))), (bt, rng.choice(list(MTABLE[bt])))) for bf, bt in need_leaves]
        qs += rng.sample(list(itertools.product(MATS, MATS)), k)
        for (bf, uf), (bt, ut) in qs:
            v = rng.choice([1.0, 0.37, 12.5])
            o = call(lambda: c_material(v, bf, bt, uf, ut, m))
            spec = mat_spec(exp, v, bf, uf, bt, ut) if (bf, uf) != (bt, ut) else frac(v)
            desc = f"c_material({v}, {bf!r}, {bt!r}, {uf!r}, {ut!r}, m)  with  m = {hist}"
            ck.count(("matobj", bf, uf, bt, ut, len(ops)), nontrivial=(bf, uf) != (bt, ut) and o[0] == "ok",
                     bucket="material-object:" + (o[0] if o[0] == "ok" else o[1]))
            mat_lines.append((" ".join(["cMo", qstr(v), bf, bt, uf, ut] + ops), o, desc, False))
            if spec is not None:
                if not (o[0] == "ok" and close(o[1], spec, rel=1e-11)):
                    groups.add(("matobj", bf, bt), {"fn": "material-object", "case": [bf, bt]},
                               {"call": desc, "implementation": short(o), "expected_SI": str(float(spec)),
                                "properties_put_in": {a: float(b) for a, b in exp.items()}})
            elif o[0] == "ok":
                groups.add(("matobj-missing", bf, bt), {"fn": "material-object", "missing_property": True, "case": [bf, bt]},
                           {"call": desc, "implementation": short(o), "expected": "refusal: the material has no " +
                            ("density" if "volume" in (bf, bt) and exp.get("density") is None else "molar mass"),
                            "properties_put_in": {a: float(b) for a, b in exp.items()}})

    def mat_getprops(m, ops, exp, hist):
        for key in ("density", "molar_mass", "pore_volume", "zz_missing"):
            o = call(lambda: m.get_prop(key))
            mat_lines.append((" ".join(["mG", key] + ops), o, f"m.get_prop({key!r})  with  m = {hist}", True))
            ck.count(("matprop", key, len(ops)), nontrivial=False, bucket="material-object:get_prop:" + (o[0] if o[0] == "ok" else o[1]))
            want = exp.get(key)
            okk = (o[0] == "ok" and ((o[1] is None and want is None) or (o[1] is not None and want is not None and frac(o[1]) == frac(want)))) \
                if (want is not None or key in ("density", "molar_mass")) else (o == ("err", "param"))
            if not okk:
                groups.add(("matprop", key), {"fn": "material-object", "get_prop": key},
                           {"call": f"m.get_prop({key!r})  with  m = {hist}", "implementation": short(o),
                            "expected": "ParameterError" if want is None and key not in ("density", "molar_mass") else (None if want is None else float(want))})
        for key, got in (("density", call(lambda: m.density)), ("molar_mass", call(lambda: m.molar_mass))):
            want = exp.get(key)
            if not (got[0] == "ok" and ((got[1] is None and want is None) or (got[1] is not None and want is not None and frac(got[1]) == frac(want)))):
                groups.add(("matattr", key), {"fn": "material-object", "getter": key},
                           {"call": f"m.{key}  with  m = {hist}", "implementation": short(got), "expected": None if want is None else float(want)})

    def rnd_pos(lo, hi):
        x = rng.uniform(lo, hi)
        return rng.choice([x, round(x, 2), int(x) + 1])

    def one_material(im):
        exp, ops, hist = {}, [], []
        kw = {}
        if rng.random() < 0.7:
            kw["density"] = rnd_pos(0.2, 9.0)
        if rng.random() < 0.7:
            kw["molar_mass"] = rnd_pos(20.0, 2000.0)
        if rng.random() < 0.5:
            kw["pore_volume"] = rnd_pos(0.1, 2.0)
        items = list(kw.items())
        rng.shuffle(items)
        kw = dict(items)
        m = pg.Material("pgv_m", store=False, **kw)      # every object has the same name (Material hashes / compares by name)
        hist.append("Material('pgv_m'" + "".join(f", {k}={v!r}" for k, v in kw.items()) + ")")
        for k, v in kw.items():
            exp[k] = v
            ops.append(f"K:{k}:{qstr(v)}")

        def setter(key, val):
            setattr(m, key, val)
            hist.append(f"m.{key} = {val!r}")
            ops.append(f"S:{key}:{'~' if val is None else qstr(val)}")
            if val:
                exp[key] = float(val)
        for _ in range(rng.randrange(0, 4)):
            key = rng.choice(["density", "molar_mass"])
            setter(key, rng.choice([None, 0, 0.0, rnd_pos(0.2, 9.0) if key == "density" else rnd_pos(20.0, 2000.0)]))
        if rng.random() < 0.3:
            m = pg.Material(**m.to_dict())
            hist.append("m = Material(**m.to_dict())")
        h1 = "; ".join(hist)
        mat_getprops(m, list(ops), dict(exp), h1)
        mat_queries(m, list(ops), dict(exp), h1, ck.n(6, 40))
        # the object changes between conversions: the converters must read it again
        key = rng.choice(["density", "molar_mass"])
        setter(key, rnd_pos(0.2, 9.0) if key == "density" else rnd_pos(20.0, 2000.0))
        h2 = "; ".join(hist)
        mat_getprops(m, list(ops), dict(exp), h2)
        mat_queries(m, list(ops), dict(exp), h2, ck.n(4, 20))

    for im in range(ck.n(10, 60)):
        try:
            one_material(im)
        except Exception as e:  # noqa  building / changing / exporting a Material raised: a failing input, not a crash of the check
            groups.add(("matobj-raised", type(e).__name__), {"fn": "material-object", "raised": type(e).__name__},
                       {"what": f"{type(e).__name__}: {e}"[:300]})
    groups.flush()

    run_iso("after")

    # ------------------------------------------------------------------ model replies, compare
    # a sample of the stated-temperature requests for the model: the table holds the stated temperature, the one visited before
    # and two more of the cluster (the lookup of the model is by equality of exact rationals)
    t_sample = rng.sample(temp_lines, min(len(temp_lines), ck.n(300, 2500)))
    t_lines = []
    for builder, name, tf, prev_tf, ctemps, o, vin, desc in t_sample:
        others = [x for x in ctemps if x != tf and x != prev_tf]
        pick = ([prev_tf] if prev_tf is not None and prev_tf != tf else []) + rng.sample(others, min(2, len(others)))
        keys = list(dict.fromkeys([tf] + pick))
        rng.shuffle(keys)
        tbl = [str(len(keys))] + [x for k in keys for x in consts_at(name, k).point_tokens()]
        t_lines.append((builder(tbl), o, vin, desc, builder([f"<table:{len(keys)}-temperatures>"])))
    all_lines = [c[0] for c in cases] + [x[0] for x in xlines] + [x[0] for x in mat_lines] + [x[0] for x in t_lines]
    replies = None
    try:
        replies = ck.drive("Units", all_lines)
    except Exception as e:  # driver unusable (e.g. Gen broke the model): keep going with the SI oracle alone
        ck.broken.append({"step": "driver Units", "what": str(e)[:800]})
    n_dis = 0

    def disagree(line, o, reply):
        nonlocal n_dis
        n_dis += 1
        if n_dis <= 3 or (n_dis <= 12 and line.split()[0] in ("cU", "cS", "cMo", "mG", "tP", "tL", "tS", "tQ")):
            ck.broken.append({"step": "correspondence Model/Units.lean", "what": {"request": line, "fn": line.split()[0], "impl": short(o), "model": reply}})

    def agrees(reply, o, vin=None):
        r = reply.split()
        kind, val = o
        if r[0] == "ok" and kind == "ok":
            if r[1] == "~":
                return val is None
            if val is None:
                return False
            return value_matches(val, vin, Fr(r[1])) if vin is not None else close(val, Fr(r[1]), rel=1e-11)
        return r[0] == "err" and kind == "err" and _same_err(r[1], val)

    for i, (line, thunk, spec, key, bucket, nontriv) in enumerate(cases):
        kind, val = first[i]
        ck.count(key, nontrivial=nontriv and kind == "ok", bucket=bucket + ":" + (kind if kind == "ok" else val),
                 sample={"request": line, "implementation": [kind, str(val)], "model": replies[i] if replies else None}
                 if i % 997 == 0 else None)
        # --- property oracle (SI spec) on the valid space
        if spec is not None:
            if kind != "ok" or not close(val, spec, rel=1e-11):
                ck.fail_case({"fn": key[0], "case": list(map(str, key))},
                             {"request": line, "expected_SI": str(float(spec)), "implementation": [kind, str(val)]})
                continue
        # --- correspondence with the Lean model
        if replies is not None:
            if not agrees(replies[i], first[i]):
                disagree(line, first[i], replies[i])
        # --- refusal clause, decided without the model: an invalid needed unit/mode/basis => ParameterError
        if spec is None:
            cause = _needs_refusal(key)
            # contexts that lack adsorbate/material properties may legitimately fail on those first
            lacking = len(key) > 2 and key[2] == "nodens"
            if cause and not (kind == "err" and (val == "param" or lacking)):
                ck.fail_case({"fn": key[0], "invalid": cause, "outcome": val if kind == "err" else "number"},
                             {"request": line, "implementation": [kind, str(val)], "expected": "ParameterError"})
    if replies is not None:
        base = len(cases)
        for j, (line, outs, valid, r) in enumerate(xlines):
            for o in outs:       # the same request at every moment it was executed
                # the line carries the value 1: the model's reply is the factor (or the refusal); cS: the value itself
                if not agrees(replies[base + j], o, vin=r.vin if valid and r.entry != "saturation_pressure" else None):
                    disagree(line + "   # " + r.desc, o, replies[base + j])
        base += len(xlines)
        for j, (line, o, desc, isprop) in enumerate(mat_lines):
            if not agrees(replies[base + j], o):
                disagree(line + "   # " + desc, o, replies[base + j])
        base += len(mat_lines)
        for j, (line, o, vin, desc, brief) in enumerate(t_lines):
            if not agrees(replies[base + j], o, vin=vin):
                disagree(brief + "   # " + desc, o, replies[base + j])

    # ------------------------------------------------------------------ arrays map pointwise, index preserved
    cx = contexts[0]
    arr = np.array([0.0, 1.5, 3.25, 1e6])
    ser = pd.Series(arr, index=[7, 3, 5, 11])
    for (mf, uf), (mt, ut) in rng.sample(list(itertools.product(PRESS, PRESS)), ck.n(12, 40)):
        ck.count(("arr", "P", mf, uf, mt, ut), bucket="array")
        try:
            a1 = c_pressure(arr, mf, mt, uf, ut, stub, 77.0)
            s1 = c_pressure(ser, mf, mt, uf, ut, stub, 77.0)
            z1 = c_pressure(np.float64(1.5), mf, mt, uf, ut, stub, 77.0)
        except Exception as e:  # noqa  a valid conversion of an array refused: a failing input, not a crash of the check
            ck.fail_case({"fn": "P-array", "case": [mf, uf, mt, ut]}, {"raised": f"{type(e).__name__}: {e}"[:300]})
            continue
        exp = [frac(x) * cx.scale_p(mf, uf) / cx.scale_p(mt, ut) for x in arr]
        okk = all(close(x, e) for x, e in zip(np.asarray(a1, dtype=float), exp)) and list(getattr(s1, "index", [])) == [7, 3, 5, 11] \
            and all(close(x, e) for x, e in zip(s1.values, exp)) and close(z1, exp[1])
        if not okk:
            ck.fail_case({"fn": "P-array", "case": [mf, uf, mt, ut]}, {"array": str(a1), "series": str(s1)})
    for (bf, uf), (bt, ut) in rng.sample(list(itertools.product(LOAD, LOAD)), ck.n(16, 60)):
        ck.count(("arr", "L", bf, uf, bt, ut), bucket="array")
        try:
            a1 = c_loading(arr, bf, bt, uf, ut, stub, 77.0, "mass", "g")
            s1 = c_loading(ser, bf, bt, uf, ut, stub, 77.0, "mass", "g")
        except Exception as e:  # noqa
            ck.fail_case({"fn": "L-array", "case": [bf, uf, bt, ut]}, {"raised": f"{type(e).__name__}: {e}"[:300]})
            continue
        exp = [frac(x) * cx.scale_l(bf, uf, "mass", "g") / cx.scale_l(bt, ut, "mass", "g") for x in arr]
        okk = all(close(x, e) for x, e in zip(np.asarray(a1, dtype=float), exp)) and list(getattr(s1, "index", [])) == [7, 3, 5, 11] \
            and all(close(x, e) for x, e in zip(s1.values, exp))
        if not okk:
            ck.fail_case({"fn": "L-array", "case": [bf, uf, bt, ut]}, {"array": str(a1), "series": str(s1)})

    # ------------------------------------------------------------------ CALLER'S-ARGUMENT / DTYPE / MAGNITUDE oracle
    # "every finite value or numpy/pandas array", "for scalars and arrays alike": a conversion is a FUNCTION of its arguments.
    # Every converter (c_unit, c_pressure, c_loading, c_material, c_temperature) and every branch (identity, unit-only, mode /
    # basis change, physical <-> fraction / percent, fraction <-> percent and relative <-> relative % per direction) is called with values of every
    # container and dtype (float64 / float32 / int8 … int64 / uint arrays, 2-D, empty, read-only, Series with non-default,
    # text and repeated row labels, Python ints of any size, numpy scalars) and magnitudes up to the ends of the dtype's range
    # (floats within a factor of the largest / smallest normal double).  Clauses per call:
    #   (a) the reply = the exact SI factor (rationals) times the values that were passed in — whatever the dtype: no wrap-around, no
    #       overflow of an intermediate when the exact result is finite; container, shape and row labels kept;
    #   (b) the caller's object is unchanged afterwards (values, dtype, labels; compared with a copy taken before);
    #   (c) the reply of a conversion between two different representations is a new object that shares no memory with the argument;
    #   (d) converting the same variable a second time gives the same reply, and the first reply has not changed meanwhile.
    F64, F32 = np.finfo(np.float64), np.finfo(np.float32)
    SMALLINT = ("int8", "int16", "int32", "uint8", "uint16", "uint32")

    def arg_pools():
        P = {}

        def put(branch, kind, args, factor, off=None):
            P.setdefault(branch, []).append((kind, args, factor, off))
        for ty, t in TABLES.items():
            for a, b in itertools.permutations(t, 2):
                if c_unit is not None:
                    put("c_unit:sign=1", "U", (ty, a, b, 1), t[a] / t[b])
                    put("c_unit:sign=-1", "U", (ty, a, b, -1), t[b] / t[a])
            for a in t:
                if c_unit is not None:
                    put("identity", "U", (ty, a, a, rng.choice((1, -1))), Fr(1))
        for (mf, uf), (mt, ut) in itertools.product(PRESS, PRESS):
            br = "identity" if (mf, uf) == (mt, ut) else "c_pressure:unit" if mf == mt == "absolute" else \
                f"c_pressure:{mf}->{mt}" if "absolute" not in (mf, mt) else "c_pressure:mode"
            put(br, "P", (mf, mt, uf, ut), cx.scale_p(mf, uf) / cx.scale_p(mt, ut))
        for (bf, uf), (bt, ut) in itertools.product(LOAD, LOAD):
            ff, ft = bf in ("fraction", "percent"), bt in ("fraction", "percent")
            br = "identity" if (bf, uf) == (bt, ut) else "c_loading:unit" if bf == bt else \
                f"c_loading:{bf}->{bt}" if ff and ft else "c_loading:physical<->fraction/percent" if ff or ft else "c_loading:basis"
            for mb, mu in (MATS if (ff != ft) else [rng.choice(MATS + [(None, None)])]):
                put(br, "L", (bf, bt, uf, ut, mb, mu), cx.scale_l(bf, uf, mb, mu) / cx.scale_l(bt, ut, mb, mu))
        for (bf, uf), (bt, ut) in itertools.product(MATS, MATS):
            br = "identity" if (bf, uf) == (bt, ut) else "c_material:unit" if bf == bt else "c_material:basis"
            put(br, "M", (bf, bt, uf, ut), cx.grams(bt, ut) / cx.grams(bf, uf))
        for uf, ut in itertools.product(TEMPS, TEMPS):
            cf, ct = "c" in uf.lower(), "c" in ut.lower()
            put("identity" if cf == ct else "c_temperature", "T", (uf, ut), Fr(1), (D("273.15") if cf else 0) - (D("273.15") if ct else 0))
        return P

    def arg_fn(kind, a):
        if kind == "U":
            return (lambda v: c_unit(CODE[a[0]], v, a[1], a[2], a[3])), f"c_unit({CODE_TABLE_NAME[a[0]]}, V, {a[1]!r}, {a[2]!r}, sign={a[3]})"
        if kind == "P":
            return (lambda v: c_pressure(v, a[0], a[1], a[2], a[3], stub, 77.0)), \
                f"c_pressure(V, {a[0]!r}, {a[1]!r}, {a[2]!r}, {a[3]!r}, <pgv_stub p_sat={STUB['saturation_pressure']}>, 77.0)"
        if kind == "L":
            return (lambda v: c_loading(v, a[0], a[1], a[2], a[3], stub, 77.0, a[4], a[5])), \
                f"c_loading(V, {a[0]!r}, {a[1]!r}, {a[2]!r}, {a[3]!r}, <pgv_stub {STUB}>, 77.0, {a[4]!r}, {a[5]!r})"
        if kind == "M":
            return (lambda v: c_material(v, a[0], a[1], a[2], a[3], mat)), \
                f"c_material(V, {a[0]!r}, {a[1]!r}, {a[2]!r}, {a[3]!r}, <Material density=2.3 molar_mass=321.0>)"
        return (lambda v: c_temperature(v, a[0], a[1])), f"c_temperature(V, {a[0]!r}, {a[1]!r})"

    def rnd_floats(k):
        return [rng.choice((1, -1)) * 10 ** rng.uniform(-3, 4) for _ in range(k)]

    def rnd_ints(dt, k):
        ii = np.iinfo(dt)
        pool_ = [ii.max, ii.min + (1 if ii.min < 0 else 0), ii.max // 2 + 1, 0, 1]
        return [rng.choice(pool_) if rng.random() < 0.4 else rng.randint(ii.min + (1 if ii.min < 0 else 0), ii.max) for _ in range(k)]

    def hi_floats(factor, top, k):
        """finite values whose exact product with the factor is finite too, within a factor 100 of the largest number"""
        m = float(Fr(top) * Fr(9, 10) / max(Fr(1), factor))
        return [rng.choice((1, -1)) * m * 10 ** -rng.uniform(0, 2) for _ in range(k)]

    def lo_floats(factor, tiny, k):
        """values whose exact product with the factor is a normal number too, within a factor 100 of the smallest normal number"""
        m = float(Fr(tiny) * 4 * max(Fr(1), 1 / factor))
        return [rng.choice((1, -1)) * m * 10 ** rng.uniform(0, 2) for _ in range(k)]

    LABELS = [[4, 9, 2], ["a", "b", "c"], [1, 1, 2], [2, 1, 0], [10, 20, 30]]

    def ser(vals, dtype):
        lab = rng.choice(LABELS)
        return pd.Series(np.array(vals, dtype=dtype), index=lab), f"pandas.Series(numpy.array({vals!r}, dtype='{dtype}'), index={lab!r})"

    def arr(vals, dtype):
        return np.array(vals, dtype=dtype), f"numpy.array({vals!r}, dtype='{dtype}')"

    # (name, class, maker(factor, has_offset) -> (value, text)); class decides where the kind is admissible (see ARG_TODO)
    def _ro(fa):
        a, t = arr(rnd_floats(3), "float64")
        a.flags.writeable = False
        return a, t + " [flags.writeable = False]"
    ARG_KINDS = [
        ("ndarray float64", "float", lambda fa: arr(rnd_floats(rng.randint(1, 5)), "float64")),
        ("ndarray float64 2-D", "float", lambda fa: arr([rnd_floats(3), rnd_floats(3)], "float64")),
        ("ndarray float64 empty", "float", lambda fa: arr([], "float64")),
        ("ndarray float64 read-only", "float", _ro),
        ("Series float64", "float", lambda fa: ser(rnd_floats(3), "float64")),
        ("ndarray float32", "f32", lambda fa: arr([float(np.float32(x)) for x in rnd_floats(3)], "float32")),
        ("Series float32", "f32", lambda fa: ser([float(np.float32(x)) for x in rnd_floats(3)], "float32")),
        ("ndarray int64", "int64", lambda fa: arr([rng.randint(-10 ** 6, 10 ** 6) for _ in range(3)], "int64")),
        ("Series int64", "int64", lambda fa: ser([rng.randint(-10 ** 6, 10 ** 6) for _ in range(3)], "int64")),
        ("ndarray int64 full range", "int-extreme", lambda fa: arr(rnd_ints("int64", 3), "int64")),
        ("ndarray uint64 full range", "int-extreme", lambda fa: arr(rnd_ints("uint64", 3), "uint64")),
    ] + [("ndarray " + dt, "smallint", (lambda fa, dt=dt: arr(rnd_ints(dt, 3), dt))) for dt in SMALLINT] + [
        ("Series " + dt, "smallint", (lambda fa, dt=dt: ser(rnd_ints(dt, 3), dt))) for dt in ("int8", "int16", "int32", "uint16")] + [
        ("numpy integer scalar", "smallint", lambda fa: (lambda dt: (lambda x: (getattr(np, dt)(x), f"numpy.{dt}({x})"))(rnd_ints(dt, 1)[0]))(rng.choice(SMALLINT))),
        ("numpy.float64 scalar", "float", lambda fa: (lambda x: (np.float64(x), f"numpy.float64({x!r})"))(rnd_floats(1)[0])),
        ("numpy.float32 scalar", "f32", lambda fa: (lambda x: (np.float32(x), f"numpy.float32({float(np.float32(x))!r})"))(rnd_floats(1)[0])),
        ("Python int", "pyint", lambda fa: (lambda x: (x, repr(x)))(rng.choice([3, -7, 2 ** 53 + 1, 10 ** 18 + 1, 2 ** 70, -(10 ** 30), rng.randint(-10 ** 9, 10 ** 9)]))),
        ("Python float", "float", lambda fa: (lambda x: (x, repr(x)))(rnd_floats(1)[0])),
        ("Python float near the largest double", "extreme", lambda fa: (lambda x: (x, repr(x)))(hi_floats(fa, F64.max, 1)[0])),
        ("Python float near the smallest normal double", "extreme", lambda fa: (lambda x: (x, repr(x)))(lo_floats(fa, F64.tiny, 1)[0])),
        ("ndarray float64 near the largest double", "extreme", lambda fa: arr(hi_floats(fa, F64.max, 3), "float64")),
        ("ndarray float64 near the smallest normal double", "extreme", lambda fa: arr(lo_floats(fa, F64.tiny, 3), "float64")),
        ("Series float64 near the largest double", "extreme", lambda fa: ser(hi_floats(fa, F64.max, 3), "float64")),
        ("ndarray float32 near the largest float32", "extreme32",
         lambda fa: arr([float(np.float32(x)) for x in hi_floats(fa, float(F32.max) * 0.9, 3)], "float32")),
    ]
    # The paths below multiply the VALUE by an integer table entry / the integer 100 before anything else (`value * 100`,
    # `value * _LOADING_MODE[b][u] * factor * ...`), so numpy arrays / Series / scalars of a fixed-width integer dtype wrap around there on
    # the unchanged tree (numpy keeps int8 * 100 in int8; an integer that does not fit the dtype at all raises OverflowError).  Triage
    # T3-C01: genuine (C01 quantifies over "every finite value or numpy/pandas array"), recorded as known findings S61-C01a..f.  The
    # region is IN the generator; a failing case is given the known signature only when the reply EQUALS the predicted wrapped product
    # (`int_wrap_prediction`) / the predicted OverflowError - any other wrong reply keeps the plain signature and is a VIOLATION.
    # TODO(still kept out, not measured as wrong, only not guaranteed): values at the ends of the double range through the multi-step
    # products of the basis-changing formulas (an intermediate may overflow / underflow).
    ARG_TODO = {
        "c_loading:basis": {"extreme", "extreme32"},
        "c_loading:physical<->fraction/percent": {"extreme", "extreme32"},
        "c_material:basis": {"extreme", "extreme32"},
    }
    INT_CLASSES = ("smallint", "int-extreme")

    def int_first_multipliers(branch, kind, a):
        """The integers the unchanged source multiplies the VALUE by, in order, before the first float enters the product on this
        path; (list, reply_stays_integer) or None when the path has no such integer."""
        if branch in ("c_pressure:relative->relative%", "c_loading:fraction->percent"):
            return [100], True
        if kind == "L" and branch in ("c_loading:basis", "c_loading:physical<->fraction/percent"):
            bf, bt, uf, ut, mb, mu = a
            b0, u0 = (("volume_liquid" if mb == "volume" else mb), mu) if bf in ("fraction", "percent") else (bf, uf)
            try:
                t, si = CODE[LB_TABLE[b0]].get(u0), Fr(LTABLE[b0][u0])
            except Exception:  # noqa
                return None
            if type(t) is not int or si != t:      # a float table entry takes the value into float64 first: nothing wraps
                return None
            return [t] + ([100] if (bt == "percent" and bf != "fraction") else []), False
        return None

    def int_wrap_prediction(v, ms):
        """('overflow', None) when an integer of `ms` does not fit the dtype of v (numpy refuses: OverflowError), else
        ('wrap' | 'none', values of v times the integers of `ms`, each product reduced modulo 2**bits into the dtype's range)"""
        dt = v.dtype
        if dt.kind not in "iu":
            return "none", None
        ii = np.iinfo(dt)
        out, wrapped_any = [int(x) for x in (v.values if isinstance(v, pd.Series) else np.asarray(v)).ravel()], False
        for m in ms:
            if not ii.min <= m <= ii.max:
                return "overflow", None
            new = [(x * m - ii.min) % (1 << ii.bits) + ii.min for x in out]
            wrapped_any = wrapped_any or any(z != x * m for z, x in zip(new, out))
            out = new
        return ("wrap" if wrapped_any else "none"), out

    def exact_vals(v):
        if isinstance(v, pd.Series):
            v = v.values
        if isinstance(v, np.ndarray):
            return [Fr(int(x)) if v.dtype.kind in "iu" else Fr(float(x)) for x in v.ravel()]
        if isinstance(v, (int, np.integer)):
            return [Fr(int(v))]
        return [Fr(float(v))]

    def snapshot(v):
        if isinstance(v, pd.Series):
            return ("series", v.values.copy(), str(v.dtype), list(v.index), v.name)
        if isinstance(v, np.ndarray):
            return ("ndarray", v.copy(), str(v.dtype), v.shape)
        return ("scalar", v, type(v).__name__)

    def still(v, s):
        try:
            if s[0] == "series":
                return isinstance(v, pd.Series) and str(v.dtype) == s[2] and list(v.index) == s[3] and v.name == s[4] and \
                    v.values.tobytes() == s[1].tobytes()
            if s[0] == "ndarray":
                return isinstance(v, np.ndarray) and str(v.dtype) == s[2] and v.shape == s[3] and v.tobytes() == s[1].tobytes()
            return type(v).__name__ == s[2] and v == s[1]
        except Exception:  # noqa
            return False

    def reply_fits(o, v0, exp, rel, off):
        """outcome `o` for the argument whose snapshot is `v0` = the exact values `exp`, container kept"""
        if o[0] != "ok":
            return False
        val = o[1]
        try:
            if v0[0] == "series":
                if not (isinstance(val, pd.Series) and list(val.index) == v0[3]):
                    return False
                got = list(val.values)
            elif v0[0] == "ndarray":
                if not (isinstance(val, np.ndarray) and val.shape == v0[3]):
                    return False
                got = list(val.ravel())
            else:
                if np.ndim(val) != 0:
                    return False
                got = [val]
            if len(got) != len(exp):
                return False
            for g, e in zip(got, exp):
                g = float(g) if not isinstance(g, (int, np.integer)) else int(g)
                if isinstance(g, float) and not math.isfinite(g):
                    return False
                if not (close(g, e, rel=rel) or abs(frac(g) - e) <= Fr(rel) * abs(off)):
                    return False
            return True
        except (TypeError, ValueError, OverflowError):
            return False

    pools = arg_pools()
    arg_n = {"cases": 0, "skipped_TODO": 0}
    for branch in sorted(pools):
        for kname, kcls, maker in ARG_KINDS:
            if kcls in ARG_TODO.get(branch, ()):
                arg_n["skipped_TODO"] += 1
                continue
            for _ in range(ck.n(3, 14)):
                kind, a, factor, off = rng.choice(pools[branch])
                off = Fr(0) if off is None else Fr(off)
                f, text = arg_fn(kind, a)
                try:
                    v, vtext = maker(factor)
                except OverflowError:
                    continue
                ident = branch == "identity"
                rel = 2e-6 if kcls in ("f32", "extreme32") else 1e-11
                snap = snapshot(v)
                exp = [x * factor + off for x in exact_vals(v)]
                o1 = call(f, v)
                unchanged1 = still(v, snap)
                fits1 = reply_fits(o1, snap, exp, rel, off)      # judged now: the reply may be the caller's object
                o1v = None
                if o1[0] == "ok":
                    try:
                        o1v = np.array(o1[1].values if isinstance(o1[1], pd.Series) else o1[1], copy=True)
                    except Exception:  # noqa
                        o1v = None
                o2 = call(f, v)
                unchanged2 = still(v, snap)
                arg_n["cases"] += 1
                ck.count(("arg", branch, kname, text), nontrivial=not ident, bucket=f"argument:{branch}:{kname}:" + (o1[0] if o1[0] == "ok" else o1[1]))
                det = {"call": text, "V": vtext, "exact_SI_factor": str(float(factor)), "first_reply": short(o1)}
                if off:
                    det["offset"] = str(float(off))
                sig0 = {"entry": branch, "value_kind": kname}
                if not fits1 and kcls in INT_CLASSES and hasattr(v, "dtype"):
                    # known findings S61-C01a..f: set ONLY when the reply is exactly the wrapped integer product / the predicted refusal
                    ms = int_first_multipliers(branch, kind, a)
                    st, wv = int_wrap_prediction(v, ms[0]) if ms else ("none", None)
                    known_out = None
                    if st == "overflow" and o1 == ("err", "other:OverflowError") and o2 == o1 and unchanged1 and unchanged2:
                        known_out = "other:OverflowError"
                    elif st == "wrap":
                        rest = factor
                        for m in ms[0]:
                            rest = rest / m
                        pred = [Fr(z) * rest for z in wv]
                        same = reply_fits(o1, snap, pred, rel, off) and reply_fits(o2, snap, pred, rel, off) and unchanged1 and unchanged2
                        if same and ms[1]:     # the reply is still an integer container of the same dtype: exact equality
                            r1 = o1[1].values if isinstance(o1[1], pd.Series) else np.asarray(o1[1])
                            same = r1.dtype == v.dtype and [int(x) for x in r1.ravel()] == wv
                        if same:
                            known_out = "wrapped-integer-product"
                    if known_out:
                        groups.add(("arg-int-wrap", branch, known_out),
                                   dict(sig0, fn="argument-dtype-magnitude", dtype_class="fixed-width-integer", outcome=known_out),
                                   dict(det, expected=[float(e) for e in exp][:6], value_multiplied_first_by=ms[0],
                                        predicted_wrapped_integers=None if wv is None else wv[:6],
                                        what="the source multiplies the value by an integer before anything else; in the value's "
                                             "fixed-width integer dtype that product wraps around (or the integer does not fit: OverflowError)"))
                        arg_n["known_int_wrap"] = arg_n.get("known_int_wrap", 0) + 1
                        continue
                if not fits1:
                    groups.add(("arg-value", branch, kcls), dict(sig0, fn="argument-dtype-magnitude"),
                               dict(det, expected=[float(e) if abs(e) < Fr(F64.max) else str(e) for e in exp][:6],
                                    what="the reply is not the exact SI factor times the values passed in (this dtype / magnitude)"))
                    continue
                if not unchanged1:
                    groups.add(("arg-mutated", branch), dict(sig0, fn="argument-mutated"),
                               dict(det, V_after_the_call=str(v.tolist() if hasattr(v, "tolist") else v)[:200],
                                    what="the caller's object was changed by the conversion"))
                    continue
                if not ident and snap[0] != "scalar" and o1[0] == "ok":
                    shared = o1[1] is v
                    try:
                        shared = shared or (snap[1].size > 0 and np.shares_memory(np.asarray(o1[1]), np.asarray(v)))
                    except Exception:  # noqa
                        pass
                    if shared:
                        groups.add(("arg-alias", branch), dict(sig0, fn="argument-aliased"),
                                   dict(det, what="the reply of a conversion between two different representations is (or shares memory with) "
                                                  "the caller's object: changing one changes the other"))
                        continue
                if not (reply_fits(o2, snap, exp, rel, off) and unchanged2):
                    groups.add(("arg-second", branch), dict(sig0, fn="argument-second-call"),
                               dict(det, second_reply=short(o2), what="converting the same variable a second time gives another reply"))
                    continue
                if o1v is not None:
                    try:
                        now = np.asarray(o1[1].values if isinstance(o1[1], pd.Series) else o1[1])
                        if now.tobytes() != o1v.tobytes():
                            groups.add(("arg-first-changed", branch), dict(sig0, fn="argument-aliased"),
                                       dict(det, first_reply_now=str(now.tolist())[:200], what="the first reply changed when the same variable was converted again"))
                    except Exception:  # noqa
                        pass
    groups.flush()
    ck.cov["argument_oracle"] = dict(arg_n, branches=sorted(pools), value_kinds=[k[0] for k in ARG_KINDS],
                                     kept_out_TODO={k: sorted(v) for k, v in ARG_TODO.items()})

    # ------------------------------------------------------------------ EVERY shipped adsorbate with a thermodynamic backend
    # (round 6, C01-m11: a molar mass taken from the database for the mass<->molar leg while the volume legs use the backend's
    # densities; N2, CO2 and Ar agree in both sources, 41 of the shipped adsorbates do not).  Per adsorbate, at a temperature
    # between triple and critical point: the molar mass the converters read = the backend's own, and the triples
    # mass -> molar -> volume = mass -> volume, mass -> volume -> molar -> mass = identity (both volume bases).
    import CoolProp as CP
    shipped = [a for a in pg.ADSORBATE_LIST if a.properties.get("backend_name")]
    for a in (shipped if thorough or ck.boost > 1 else rng.sample(shipped, min(len(shipped), 40))):
        try:
            st = CP.AbstractState("HEOS", a.backend_name)
            lo, hi = st.Ttriple(), st.T_critical()
            t = lo + (hi - lo) * rng.uniform(0.2, 0.8)
            st.update(CP.QT_INPUTS, 0.0, t)
            mm_own = st.molar_mass() * 1000
        except Exception:  # noqa  the backend itself has no saturated state there: outside the quantifier
            ck.count(("shipped-skip", a.name), nontrivial=False, bucket="shipped adsorbate: backend has no saturated state")
            continue
        ck.count(("shipped", a.name), bucket="shipped adsorbate: triple through mass/molar/volume")
        try:
            mm = a.molar_mass()
            if not close(mm, frac(mm_own), rel=1e-12):
                ck.fail_case({"fn": "constant", "quantity": "molar_mass", "adsorbate": "shipped"},
                             {"adsorbate": a.name, "accessor": float(mm), "independent": mm_own,
                              "what": "molar mass read by the converters differs from the backend's (the densities come from the backend)"})
                continue
            for vb in ("volume_liquid", "volume_gas"):
                kw = dict(adsorbate=a, temp=t, basis_material="mass", unit_material="g")
                direct = c_loading(1.25, "mass", vb, "g", "cm3", **kw)
                via = c_loading(c_loading(1.25, "mass", "molar", "g", "mmol", **kw), "molar", vb, "mmol", "cm3", **kw)
                back = c_loading(c_loading(direct, vb, "molar", "cm3", "mol", **kw), "molar", "mass", "mol", "g", **kw)
                if not (close(via, frac(direct), rel=1e-11) and close(back, frac(1.25), rel=1e-11)):
                    ck.fail_case({"fn": "L-triple", "adsorbate": "shipped", "through": ["mass", "molar", vb]},
                                 {"adsorbate": a.name, "temperature": t, "mass->" + vb: float(direct), "mass->molar->" + vb: float(via),
                                  "mass->" + vb + "->molar->mass of 1.25": float(back)})
        except Exception as e:  # noqa
            ck.fail_case({"fn": "L-triple", "adsorbate": "shipped", "outcome": "raised"}, {"adsorbate": a.name, "temperature": t, "raised": f"{type(e).__name__}: {e}"[:300]})

    # ------------------------------------------------------------------ consistency hypothesis measured on the real adsorbates
    worst = Fr(0)
    for cxr in contexts[1:]:
        q = cxr.q
        for a, b in (("liquid_density", "liquid_molar_density"), ("gas_density", "gas_molar_density")):
            if q[a] and q[b] and q["molar_mass"]:
                worst = max(worst, abs(q[a] - q[b] * q["molar_mass"]) / q[a])
    ck.cov["consistency_rel_err_max"] = float(worst)
    if worst > Fr(1, 10**9):
        ck.fail_case({"fn": "Consistent"}, {"rel_err": float(worst)})
    ck.cov["exhaustive"] = True
    ck.cov["rule"] = ("every ordered pair of the 10 pressure, 27 loading (x material representations when fraction/percent is "
                      "involved; quick tier: 5 of the 19 sampled for non-stub adsorbates) and 19 material representations, "
                      "temperature spellings, a malformed stream (None/''/unknown/foreign-table tokens in every argument position), "
                      "numpy/pandas arrays; real adsorbates at fixed and at random temperatures between triple and critical point "
                      "(sampled pairs, all 12 constant leaves) with constants from the harness's own CoolProp states; HISTORY: every "
                      "ordered pair of units of each of the 4 unit tables against every other table through c_unit / c_pressure / "
                      "c_loading / c_material / saturation_pressure / isotherm accessors, in a fresh process state and again after "
                      "the valid conversion of the same pair and after the whole enumeration, every mode/basis name against the "
                      "other two mode tables, re-execution of earlier conversions (same answer, SI factor); MATERIAL: real "
                      "pygaps.Material objects with random histories of keywords/setters/to_dict through c_material and get_prop; "
                      "STATED TEMPERATURE: per real adsorbate clusters of near-duplicate temperatures (1e-6 … 5e-2 K apart, roundings, "
                      "floor, single precision, int / numpy types of the same number), visited twice in shuffled order, every leaf "
                      "that reads a constant at T (saturation pressure, 4 densities, c_pressure both directions, c_loading 12 basis "
                      "pairs + fraction/percent, isotherm accessors) against own CoolProp constants at the exact temperature; "
                      "non-trivial = accepted conversion between two different representations; distinct = distinct (function, "
                      "from, to, material representation[, context])")
    ck.cov["correspondence_disagreements"] = n_dis
    ck.cov["history"] = {"unit_pairs": len(blocks), "requests_per_phase_foreign": sum(len(b[4]) for b in blocks) + len(basis_rqs),
                         "isotherm_accessor_requests": len(iso_rqs), "material_object_requests": len(mat_lines),
                         "random_temperature_contexts": [c.name for c in contexts if c.light]}
    ck.cov["stated_temperature"] = dict(near_t, model_lines=len(t_lines))
    ck.assumptions += [
        "thermodynamic consistency rho = rho_bar*M of the adsorbate constants is measured (CoolProp), not proved",
        "IEEE rounding: implementation compared with exact rational model/spec at rel. 1e-11",
        "mmHg = torr = 133.322 Pa and 1 cm3(STP) = 4.461e-5 mol are the library's documented conventions",
        "history independence is proved of the model (a function of the request) and searched on the code by the history oracle; "
        "state outside this process (files, environment) is not varied",
    ]


def _same_err(model_name, impl_class):
    m = {"param": "param", "calc": "calc", "key": "other:KeyError", "type": "other:TypeError"}
    return m.get(model_name) == impl_class


def _needs_refusal(key):
    """Which *needed* unit/mode/basis argument is invalid (None if none): decided independently of the model."""
    kind = key[0]
    a = key[1]
    bad = lambda x, table: (not x) or x not in table  # noqa
    if kind == "Pbad":
        mf, mt, uf, ut = a
        modes = ("absolute", "relative", "relative%")
        if bad(mf, modes) or bad(mt, modes):
            return "mode"
        if mf != mt and "absolute" in (mf, mt):
            if not key[2]:
                return "temperature"
            return "unit" if bad(uf if mf == "absolute" else ut, PA) else None
        if mf == mt == "absolute" and ut:
            return "unit" if bad(ut, PA) or bad(uf, PA) else None
        return None
    if kind == "Lbad":
        bf, bt, uf, ut, mb, mu = a
        bases = ("mass", "volume_gas", "volume_liquid", "molar", "percent", "fraction")
        if bad(bf, bases) or bad(bt, bases):
            return "basis"
        if bf != bt:
            for b, u in ((bf, uf), (bt, ut)):
                if b in LTABLE and bad(u, LTABLE[b]):
                    return "unit"
            if (bf in ("fraction", "percent")) != (bt in ("fraction", "percent")):
                mbb = "volume_liquid" if mb == "volume" else mb
                if not mbb or mbb not in LTABLE:
                    return "basis_material"
                return "unit_material" if bad(mu, LTABLE[mbb]) else None
            return None
        if ut and ut != uf:
            if bf not in LTABLE:
                return "unit_on_fraction"
            return "unit" if bad(ut, LTABLE[bf]) or bad(uf, LTABLE[bf]) else None
        return None
    if kind == "Mbad":
        bf, bt, uf, ut = a
        if bad(bf, MTABLE) or bad(bt, MTABLE):
            return "basis"
        if bf != bt:
            return "unit" if bad(uf, MTABLE[bf]) or bad(ut, MTABLE[bt]) else None
        if ut and ut != uf:
            return "unit" if bad(ut, MTABLE[bf]) or bad(uf, MTABLE[bf]) else None
        return None
    if kind == "Tbad":
        okT = lambda x: bool(x) and (x == "K" or "c" in x.lower())  # noqa
        return None if (okT(a[0]) and okT(a[1])) else "unit"
    return None
