"""C01 — unit / mode / basis conversions.

Tie: generated tables (translator) + exhaustive correspondence of Model/Units.lean (driver at α = ℚ)
with pygaps.units.converter_mode on every ordered pair of representations.
Failing-input search: the independent SI oracle below (exact fractions) against the implementation
on the same exhaustive enumeration; it runs on every run, so a broken proof always comes with the
concrete conversion that is now wrong, if there is one.
"""
import itertools
from decimal import Decimal
from fractions import Fraction as Fr

from pgv.core import close, err_class, frac, import_pygaps, qstr, tok

D = lambda s: Fr(Decimal(s))
# ---- independent SI tables (written from the definitions; NOT read from the code)
PA = {"Pa": D("1"), "kPa": D("1e3"), "MPa": D("1e6"), "mbar": D("100"), "bar": D("1e5"), "atm": D("101325"),
      "mmHg": D("133.322"), "torr": D("133.322")}
MOL = {"mmol": D("1e-3"), "mol": D("1"), "kmol": D("1e3"), "cm3(STP)": D("4.461e-5"), "mL(STP)": D("4.461e-5"),
       "cc(STP)": D("4.461e-5"), "L(STP)": D("4.461e-2")}
GRAM = {"amu": D("1.66054e-27"), "mg": D("1e-3"), "cg": D("1e-2"), "dg": D("0.1"), "g": D("1"), "kg": D("1e3")}
CM3 = {"cm3": D("1"), "mL": D("1"), "cc": D("1"), "dm3": D("1e3"), "L": D("1e3"), "m3": D("1e6")}
LTABLE = {"molar": MOL, "mass": GRAM, "volume_gas": CM3, "volume_liquid": CM3}
MTABLE = {"mass": GRAM, "volume": CM3, "molar": MOL}

PRESS = [("absolute", u) for u in PA] + [("relative", None), ("relative%", None)]
LOAD = [(b, u) for b in ("molar", "mass", "volume_gas", "volume_liquid") for u in LTABLE[b]] + [("fraction", None), ("percent", None)]
MATS = [(b, u) for b in ("mass", "volume", "molar") for u in MTABLE[b]]
TEMPS = ["K", "°C", "C", "c", "celsius", "Celsius", "degC"]
QORDER = ["gas_density", "liquid_density", "molar_mass", "gas_molar_density", "liquid_molar_density"]


class Props:
    """The constants of one (adsorbate, material, temperature): exact fractions or None."""

    def __init__(self, name, ads, mat, temp, pg):
        self.name, self.ads, self.mat, self.temp = name, ads, mat, temp

        def get(f):
            try:
                return frac(f())
            except pg.utilities.exceptions.pgError:
                return None
        self.psat = get(lambda: ads.saturation_pressure(temp))
        self.q = {
            "gas_density": get(lambda: ads.gas_density(temp=temp)),
            "liquid_density": get(lambda: ads.liquid_density(temp=temp)),
            "molar_mass": get(lambda: ads.molar_mass()),
            "gas_molar_density": get(lambda: ads.gas_molar_density(temp=temp)),
            "liquid_molar_density": get(lambda: ads.liquid_molar_density(temp=temp)),
        }
        self.md = None if mat is None or mat.density is None else frac(mat.density)
        self.mm = None if mat is None or mat.molar_mass is None else frac(mat.molar_mass)

    def env_tokens(self):
        return [tok(self.q[k]) for k in QORDER] + [tok(self.md), tok(self.mm)]

    # ---- SI spec
    def g_l(self, b):
        q = self.q
        return {"molar": Fr(1), "mass": None if not q["molar_mass"] else 1 / q["molar_mass"],
                "volume_gas": q["gas_molar_density"], "volume_liquid": q["liquid_molar_density"]}[b]

    def scale_p(self, mode, unit):
        if mode == "absolute":
            return PA[unit]
        return self.psat if mode == "relative" else self.psat / 100

    def scale_l(self, b, u, mb, mu):
        if b in ("fraction", "percent"):
            bb = "volume_liquid" if mb == "volume" else mb
            s = LTABLE[bb][mu] * self.g_l(bb)
            return s / 100 if b == "percent" else s
        return LTABLE[b][u] * self.g_l(b)

    def grams(self, b, u):
        return MTABLE[b][u] * {"mass": Fr(1), "volume": self.md, "molar": self.mm}[b]


def call(f, *a, **k):
    try:
        return ("ok", f(*a, **k))
    except Exception as e:  # noqa
        return ("err", err_class(e))


def run(ck):
    pg = import_pygaps()
    import numpy as np
    import pandas as pd
    from pygaps.units.converter_mode import c_loading, c_material, c_pressure, c_temperature
    rng = ck.rng
    thorough = ck.tier == "thorough"

    # ------------------------------------------------------------------ adsorbates / materials
    stub = pg.Adsorbate("pgv_stub", store=False, molar_mass=28.5, saturation_pressure=123456.0, liquid_density=0.81,
                        gas_density=0.0047, liquid_molar_density=0.81 / 28.5, gas_molar_density=0.0047 / 28.5)
    nodens = pg.Adsorbate("pgv_nodens", store=False, molar_mass=30.0, saturation_pressure=5e4)
    mat = pg.Material("pgv_mat", store=False, density=2.3, molar_mass=321.0)
    mat_bare = pg.Material("pgv_bare", store=False)
    contexts = [Props("stub", stub, mat, 77.0, pg)]
    real = [("N2", 77.355), ("CO2", 273.15), ("Ar", 87.3)]
    if thorough:
        real += [("N2", 100.0), ("CH4", 111.0), ("H2O", 298.15), ("C4H10", 273.0), ("NH3", 250.0), ("Kr", 120.0)]
    for name, t in real:
        contexts.append(Props(f"{name}@{t}", pg.Adsorbate.find(name), mat, t, pg))
    ctx_nodens = Props("nodens", nodens, mat_bare, 77.0, pg)

    values = [1.0, 0.37, -2.5, 0.0] if thorough else [1.0, 0.37]
    cases = []   # (line, impl_thunk, spec_value_or_None, key, bucket)

    def add(line, thunk, spec, key, bucket, nontrivial=True):
        cases.append((line, thunk, spec, key, bucket, nontrivial))

    # ------------------------------------------------------------------ exhaustive valid space
    for cx in contexts:
        A, M, T = cx.ads, cx.mat, cx.temp
        vs = values if cx.name == "stub" else values[:1]
        for (mf, uf), (mt, ut) in itertools.product(PRESS, PRESS):
            for v in vs:
                spec = frac(v) * cx.scale_p(mf, uf) / cx.scale_p(mt, ut)
                add(" ".join(["cP", tok(cx.psat), "T", qstr(v), mf, mt, tok(uf), tok(ut)]),
                    (lambda v=v, mf=mf, mt=mt, uf=uf, ut=ut, A=A, T=T: c_pressure(v, mf, mt, uf, ut, A, T)),
                    spec, ("P", mf, uf, mt, ut), "pressure", (mf, uf) != (mt, ut))
        mats_all = MATS
        mats_q = MATS if thorough else [MATS[i] for i in sorted(rng.sample(range(len(MATS)), 5))]
        for (bf, uf), (bt, ut) in itertools.product(LOAD, LOAD):
            fr = bf in ("fraction", "percent") or bt in ("fraction", "percent")
            mats = (mats_all if cx.name == "stub" and thorough else mats_q) if fr else [("mass", "g"), (None, None)]
            if not fr and cx.name != "stub":
                mats = mats[:1]
            for (mb, mu) in mats:
                v = vs[0] if len(vs) == 1 else rng.choice(vs)
                spec = frac(v) * cx.scale_l(bf, uf, mb, mu) / cx.scale_l(bt, ut, mb, mu)
                add(" ".join(["cL"] + cx.env_tokens() + [qstr(v), bf, bt, tok(uf), tok(ut), tok(mb), tok(mu)]),
                    (lambda v=v, bf=bf, bt=bt, uf=uf, ut=ut, mb=mb, mu=mu, A=A, T=T:
                     c_loading(v, bf, bt, uf, ut, A, T, mb, mu)),
                    spec, ("L", bf, uf, bt, ut, mb, mu), "loading", (bf, uf) != (bt, ut))
        for (bf, uf), (bt, ut) in itertools.product(MATS, MATS):
            v = vs[0]
            spec = frac(v) * cx.grams(bt, ut) / cx.grams(bf, uf)
            add(" ".join(["cM"] + cx.env_tokens() + [qstr(v), bf, bt, uf, ut]),
                (lambda v=v, bf=bf, bt=bt, uf=uf, ut=ut, M=M: c_material(v, bf, bt, uf, ut, M)),
                spec, ("M", bf, uf, bt, ut), "material", (bf, uf) != (bt, ut))
    for uf, ut in itertools.product(TEMPS, TEMPS):
        for v in (25.0, -300.5):
            k = frac(v) + (D("273.15") if "c" in uf.lower() else 0)
            spec = k - (D("273.15") if "c" in ut.lower() else 0)
            add(" ".join(["cT", qstr(v), uf, ut]), (lambda v=v, uf=uf, ut=ut: c_temperature(v, uf, ut)),
                spec, ("T", uf, ut), "temperature", ("c" in uf.lower()) != ("c" in ut.lower()))

    # ------------------------------------------------------------------ malformed stream (model decides; spec: never a number on a needed item)
    BAD = [None, "", "bogus", "g", "bar", "mol"]
    cx = contexts[0]
    A, M, T = cx.ads, cx.mat, cx.temp
    mal = []
    for (mf, uf), (mt, ut) in [(("absolute", "bar"), ("relative", None)), (("relative%", None), ("absolute", "torr")),
                               (("absolute", "bar"), ("absolute", "Pa")), (("relative", None), ("relative%", None))]:
        base = [mf, mt, uf, ut]
        for i in range(4):
            for b in BAD:
                a = list(base)
                a[i] = b
                mal.append(("cP", a, T, A))
        mal.append(("cP", base, None, A))
        mal.append(("cP", base, 0, A))
    # the SAME unknown / missing unit (or mode) on both sides: nothing to convert, still not a representation
    for b in BAD + ["psi", "Bar", "pa"]:
        mal.append(("cP", ["absolute", "absolute", b, b], T, A))
        mal.append(("cP", [b, b, "bar", "bar"], T, A))
    for name, a, temp, ads in mal:
        add(" ".join(["cP", tok(cx.psat), "T" if temp else "F", "1/1"] + [tok(x) for x in a]),
            (lambda a=a, temp=temp, ads=ads: c_pressure(1.0, a[0], a[1], a[2], a[3], ads, temp)),
            None, ("Pbad", tuple(a), bool(temp)), "malformed", False)
    lbase = [(("mass", "g"), ("molar", "mmol"), ("mass", "g")), (("molar", "mol"), ("fraction", None), ("mass", "kg")),
             (("percent", None), ("volume_gas", "cm3"), ("volume", "cm3")), (("fraction", None), ("percent", None), ("mass", "g")),
             (("mass", "g"), ("mass", "kg"), (None, None)), (("fraction", None), ("fraction", None), ("mass", "g"))]
    for (bf, uf), (bt, ut), (mb, mu) in lbase:
        base = [bf, bt, uf, ut, mb, mu]
        for i in range(6):
            for b in BAD + ["volume", "fraction"]:
                a = list(base)
                a[i] = b
                for cxx in (cx, ctx_nodens):
                    add(" ".join(["cL"] + cxx.env_tokens() + ["1/1"] + [tok(x) for x in a]),
                        (lambda a=a, cxx=cxx: c_loading(1.0, a[0], a[1], a[2], a[3], cxx.ads, cxx.temp, a[4], a[5])),
                        None, ("Lbad", tuple(a), cxx.name), "malformed", False)
    for (bf, uf), (bt, ut) in [(("mass", "g"), ("volume", "cm3")), (("molar", "mol"), ("mass", "kg")), (("mass", "g"), ("mass", "mg"))]:
        base = [bf, bt, uf, ut]
        for i in range(4):
            for b in BAD + ["fraction", "percent"]:
                a = list(base)
                a[i] = b
                for cxx in (cx, ctx_nodens):
                    add(" ".join(["cM"] + cxx.env_tokens() + ["1/1"] + [tok(x) for x in a]),
                        (lambda a=a, cxx=cxx: c_material(1.0, a[0], a[1], a[2], a[3], cxx.mat)),
                        None, ("Mbad", tuple(a), cxx.name), "malformed", False)
    for b in BAD + ["furlong"]:
        for (bf, bt, mb, mu) in (("mass", "mass", "mass", "g"), ("molar", "molar", "mass", "g")):
            a = [bf, bt, b, b, mb, mu]
            add(" ".join(["cL"] + cx.env_tokens() + ["1/1"] + [tok(x) for x in a]),
                (lambda a=a: c_loading(1.0, a[0], a[1], a[2], a[3], cx.ads, cx.temp, a[4], a[5])), None, ("Lbad-same", tuple(a), cx.name), "malformed", False)
        a = ["mass", "mass", b, b]
        add(" ".join(["cM"] + cx.env_tokens() + ["1/1"] + [tok(x) for x in a]),
            (lambda a=a: c_material(1.0, a[0], a[1], a[2], a[3], cx.mat)), None, ("Mbad-same", tuple(a), cx.name), "malformed", False)
    for a in itertools.product([None, "", "bogus", "F", "K", "C"], repeat=2):
        add(" ".join(["cT", "5/1", tok(a[0]), tok(a[1])]), (lambda a=a: c_temperature(5.0, a[0], a[1])),
            None, ("Tbad", a), "malformed", False)

    # ------------------------------------------------------------------ run implementation, model, compare
    replies = None
    try:
        replies = ck.drive("Units", [c[0] for c in cases])
    except Exception as e:  # driver unusable (e.g. Gen broke the model): keep going with the SI oracle alone
        ck.broken.append({"step": "driver Units", "what": str(e)[:800]})
    n_dis = 0
    for i, (line, thunk, spec, key, bucket, nontriv) in enumerate(cases):
        kind, val = call(thunk)
        ck.count(key, nontrivial=nontriv and kind == "ok", bucket=bucket + ":" + (kind if kind == "ok" else val),
                 sample={"request": line, "implementation": [kind, str(val)], "model": replies[i] if replies else None}
                 if i % 997 == 0 else None)
        # --- property oracle (SI spec) on the valid space
        if spec is not None:
            if kind != "ok" or not close(val, spec, rel=1e-11):
                ck.fail_case({"fn": key[0], "case": list(map(str, key))},
                             {"request": line, "expected_SI": str(float(spec)), "implementation": [kind, str(val)]})
                continue
        # --- correspondence with the Lean model
        if replies is not None:
            r = replies[i].split()
            agree = (r[0] == "ok" and kind == "ok" and close(val, Fr(r[1]), rel=1e-11)) or \
                    (r[0] == "err" and kind == "err" and _same_err(r[1], val))
            if not agree:
                n_dis += 1
                sig = {"fn": key[0], "impl": [kind, str(val)], "model": replies[i]}
                if n_dis <= 3:
                    ck.broken.append({"step": "correspondence Model/Units.lean", "what": {"request": line, **sig}})
        # --- refusal clause, decided without the model: an invalid needed unit/mode/basis => ParameterError
        if spec is None:
            cause = _needs_refusal(key)
            # contexts that lack adsorbate/material properties may legitimately fail on those first
            lacking = len(key) > 2 and key[2] == "nodens"
            if cause and not (kind == "err" and (val == "param" or lacking)):
                ck.fail_case({"fn": key[0], "invalid": cause, "outcome": val if kind == "err" else "number"},
                             {"request": line, "implementation": [kind, str(val)], "expected": "ParameterError"})

    # ------------------------------------------------------------------ arrays map pointwise, index preserved
    arr = np.array([0.0, 1.5, 3.25, 1e6])
    ser = pd.Series(arr, index=[7, 3, 5, 11])
    for (mf, uf), (mt, ut) in rng.sample(list(itertools.product(PRESS, PRESS)), ck.n(12, 40)):
        a1 = c_pressure(arr, mf, mt, uf, ut, stub, 77.0)
        s1 = c_pressure(ser, mf, mt, uf, ut, stub, 77.0)
        z1 = c_pressure(np.float64(1.5), mf, mt, uf, ut, stub, 77.0)
        exp = [frac(x) * cx.scale_p(mf, uf) / cx.scale_p(mt, ut) for x in arr]
        okk = all(close(x, e) for x, e in zip(np.asarray(a1, dtype=float), exp)) and list(getattr(s1, "index", [])) == [7, 3, 5, 11] \
            and all(close(x, e) for x, e in zip(s1.values, exp)) and close(z1, exp[1])
        ck.count(("arr", "P", mf, uf, mt, ut), bucket="array")
        if not okk:
            ck.fail_case({"fn": "P-array", "case": [mf, uf, mt, ut]}, {"array": str(a1), "series": str(s1)})
    for (bf, uf), (bt, ut) in rng.sample(list(itertools.product(LOAD, LOAD)), ck.n(16, 60)):
        a1 = c_loading(arr, bf, bt, uf, ut, stub, 77.0, "mass", "g")
        s1 = c_loading(ser, bf, bt, uf, ut, stub, 77.0, "mass", "g")
        exp = [frac(x) * cx.scale_l(bf, uf, "mass", "g") / cx.scale_l(bt, ut, "mass", "g") for x in arr]
        okk = all(close(x, e) for x, e in zip(np.asarray(a1, dtype=float), exp)) and list(getattr(s1, "index", [])) == [7, 3, 5, 11] \
            and all(close(x, e) for x, e in zip(s1.values, exp))
        ck.count(("arr", "L", bf, uf, bt, ut), bucket="array")
        if not okk:
            ck.fail_case({"fn": "L-array", "case": [bf, uf, bt, ut]}, {"array": str(a1), "series": str(s1)})

    # ------------------------------------------------------------------ consistency hypothesis measured on the real adsorbates
    worst = Fr(0)
    for cxr in contexts[1:]:
        q = cxr.q
        for a, b in (("liquid_density", "liquid_molar_density"), ("gas_density", "gas_molar_density")):
            if q[a] and q[b] and q["molar_mass"]:
                worst = max(worst, abs(q[a] - q[b] * q["molar_mass"]) / q[a])
    ck.cov["consistency_rel_err_max"] = float(worst)
    if worst > Fr(1, 10**9):
        ck.fail_case({"fn": "Consistent"}, {"rel_err": float(worst)})
    ck.cov["exhaustive"] = True
    ck.cov["rule"] = ("every ordered pair of the 10 pressure, 27 loading (x material representations when fraction/percent is "
                      "involved; quick tier: 5 of the 19 sampled for non-stub adsorbates) and 19 material representations, "
                      "temperature spellings, a malformed stream (None/''/unknown/foreign-table tokens in every argument position), "
                      "numpy/pandas arrays; non-trivial = accepted conversion between two different representations; distinct = "
                      "distinct (function, from, to, material representation)")
    ck.cov["correspondence_disagreements"] = n_dis
    ck.assumptions += [
        "thermodynamic consistency rho = rho_bar*M of the adsorbate constants is measured (CoolProp), not proved",
        "IEEE rounding: implementation compared with exact rational model/spec at rel. 1e-11",
        "mmHg = torr = 133.322 Pa and 1 cm3(STP) = 4.461e-5 mol are the library's documented conventions",
    ]


def _same_err(model_name, impl_class):
    m = {"param": "param", "calc": "calc", "key": "other:KeyError", "type": "other:TypeError"}
    return m.get(model_name) == impl_class


def _needs_refusal(key):
    """Which *needed* unit/mode/basis argument is invalid (None if none): decided independently of the model."""
    kind = key[0]
    a = key[1]
    bad = lambda x, table: (not x) or x not in table  # noqa
    if kind == "Pbad":
        mf, mt, uf, ut = a
        modes = ("absolute", "relative", "relative%")
        if bad(mf, modes) or bad(mt, modes):
            return "mode"
        if mf != mt and "absolute" in (mf, mt):
            if not key[2]:
                return "temperature"
            return "unit" if bad(uf if mf == "absolute" else ut, PA) else None
        if mf == mt == "absolute" and ut:
            return "unit" if bad(ut, PA) or bad(uf, PA) else None
        return None
    if kind == "Lbad":
        bf, bt, uf, ut, mb, mu = a
        bases = ("mass", "volume_gas", "volume_liquid", "molar", "percent", "fraction")
        if bad(bf, bases) or bad(bt, bases):
            return "basis"
        if bf != bt:
            for b, u in ((bf, uf), (bt, ut)):
                if b in LTABLE and bad(u, LTABLE[b]):
                    return "unit"
            if (bf in ("fraction", "percent")) != (bt in ("fraction", "percent")):
                mbb = "volume_liquid" if mb == "volume" else mb
                if not mbb or mbb not in LTABLE:
                    return "basis_material"
                return "unit_material" if bad(mu, LTABLE[mbb]) else None
            return None
        if ut and ut != uf:
            if bf not in LTABLE:
                return "unit_on_fraction"
            return "unit" if bad(ut, LTABLE[bf]) or bad(uf, LTABLE[bf]) else None
        return None
    if kind == "Mbad":
        bf, bt, uf, ut = a
        if bad(bf, MTABLE) or bad(bt, MTABLE):
            return "basis"
        if bf != bt:
            return "unit" if bad(uf, MTABLE[bf]) or bad(ut, MTABLE[bt]) else None
        if ut and ut != uf:
            return "unit" if bad(ut, MTABLE[bf]) or bad(uf, MTABLE[bf]) else None
        return None
    if kind == "Tbad":
        okT = lambda x: bool(x) and (x == "K" or "c" in x.lower())  # noqa
        return None if (okT(a[0]) and okT(a[1])) else "unit"
    return None
