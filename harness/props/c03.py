"""C03 — data accessors in requested units agree with permanent conversion.

Lean: Props/C03.lean (accessor = read ∘ permanent conversion for every argument; branch/limit selection; split rule;
interpolation laws).  Tie: correspondence of Model/Access.lean (ℚ) with the real accessors of PointIsotherm and
ModelIsotherm, incl. malformed arguments.  Failing-input search: the property itself — every accessor result
against the stored numbers re-expressed with the independent SI tables of c01.py (= permanent conversion of a
copy, which C02 ties to the same tables), exact branch/limit selection, label-free split rule, interpolation laws.

Isotherm STATES (second generator): real adsorbates (CoolProp) at several temperatures, the temperature stored in K or in
degrees Celsius — constructed so, reached through convert_temperature, or at the end of a history of permanent conversions —
point and model isotherms.  On every state each accessor (pressure, loading, pressure_at, loading_at, other_data, has_branch,
the ordered read of the characterisation routines; ModelIsotherm.pressure / loading / has_branch) is compared with
(1) the SI oracle at the temperature IN KELVIN, (2) the permanent conversion of a clone read natively (same branch, same
limits, same query), (3) the Lean model of the state (Model/Access.lean `accessPressureAt`, `column`, `modelPressureColumn`,
...; theorems in Props/C03/Whole.lean); requests are biased to those that need p0(T) or the densities at T.

FALSY option values (section (8) of the state probe; Props/C03/Fill.lean `interpFill`): every option kind is generated with the member
that Python's truth test takes for "absent" -- fill rules (a number, a (below, above) pair) with the number zero in eight Python / numpy
types, a lower limit of zero, a query pressure / loading of exactly zero, a stored point at the origin -- on loading_at, pressure_at,
spreading_pressure_at, pressure(), loading(), other_data and the ModelIsotherm accessors, in stored and in requested units.
"""
import itertools
import math
import os
from fractions import Fraction as Fr

import c01
import c02
from pgv.core import close, err_class, frac, import_pygaps, qstr, tok
from pgv.models import make, sample_params

ERRMAP = {**c02.ERRMAP, "value": "other:ValueError"}
FRAC = ("fraction", "percent")


def canon_l(P, lab_l, lab_m, v):
    """mol adsorbate per gram material represented by v under (loading rep, material rep)."""
    return frac(v) * P.scale_l(lab_l[0], lab_l[1], lab_m[0], lab_m[1]) / P.grams(lab_m[0], lab_m[1])


def expected_loading(P, stored, req_l, req_m, v):
    """v (stored under labels `stored`) re-expressed in (req_l | req_m)."""
    c = canon_l(P, (stored[2], stored[3]), (stored[4], stored[5]), v)
    return c * P.grams(req_m[0], req_m[1]) / P.scale_l(req_l[0], req_l[1], req_m[0], req_m[1])


def expected_pressure(P, stored, req, v):
    return frac(v) * P.scale_p(stored[0], stored[1]) / P.scale_p(req[0], req[1])


# real adsorbates with every property the conversions need (nominal temperature in K, inside the two-phase region)
REAL = [("N2", 77.355), ("Ar", 87.3), ("CO2", 273.15), ("CO2", 296.0), ("CH4", 111.0), ("C4H10", 273.0), ("H2O", 298.15),
        ("Kr", 120.0), ("O2", 90.0), ("C3H8", 230.0), ("NH3", 250.0)]
CELSIUS = ("°C", "C", "celsius", "degC")


def clone_iso(pg, iso):
    """a copy of a point isotherm (never deepcopy: the CoolProp state is not picklable)"""
    return pg.PointIsotherm(isotherm_data=iso.data_raw.copy(), pressure_key=iso.pressure_key, loading_key=iso.loading_key, **iso.to_dict())


def kelvin_of(iso):
    """temperature of the state in kelvin, from the STORED number and unit (independent of `iso.temperature`)"""
    t = float(iso._temperature)
    return t if iso.temperature_unit == "K" else t + 273.15


def needs_T(stored_basis, target_basis, target_mat_basis, stored_mat_basis):
    """does the loading conversion use a density of the adsorbate at the isotherm temperature?"""
    def phys(b, mb):
        return ("volume_liquid" if mb == "volume" else mb) if b in FRAC else b
    a, b = phys(stored_basis, stored_mat_basis), phys(target_basis, target_mat_basis)
    return a != b and ("volume" in a or "volume" in b)


def pick_request(rng, lab, PST, LST, MST):
    """requested representation, biased to the conversions that need p0(T) / densities at T"""
    if rng.random() < 0.7:
        rq_p = rng.choice([x for x in PST if (x[0] == "absolute") != (lab[0] == "absolute")])
    else:
        rq_p = rng.choice(PST)
    rq_m = (lab[4], lab[5]) if rng.random() < 0.55 else rng.choice(MST)
    if rng.random() < 0.7:
        cand = [x for x in LST if needs_T(lab[2], x[0], rq_m[0], lab[4])]
        rq_l = rng.choice(cand or LST)
    else:
        rq_l = rng.choice(LST)
    return rq_p, rq_l, rq_m


def inv_tolerance(m, nn, np, base=1e-7):
    """Relative tolerance for `model.pressure` evaluated at a loading that went through a unit round trip (a few roundings of
    the argument, amplified by the condition number of the inverse near saturation).  None: too ill-conditioned to compare."""
    try:
        h = 1e-9
        p0 = float(m.pressure(np.float64(nn)))
        p1, p2 = float(m.pressure(np.float64(nn * (1 + h)))), float(m.pressure(np.float64(nn * (1 - h))))
        kappa = abs(p1 - p2) / (2 * h * abs(p0))
    except Exception:  # noqa
        return None
    if not math.isfinite(kappa):
        return None
    tol = max(base, 64 * 2.3e-16 * kappa)
    return tol if tol < 1e-4 else None


def mid_limits(vals):
    """limits strictly between the two smallest and the two largest of the distinct values (no value on a bound)"""
    u = sorted(set(float(v) for v in vals))
    if len(u) < 4:
        return None
    lo, hi = (u[0] + u[1]) / 2, (u[-1] + u[-2]) / 2
    # values that differ in the last bits only (a model on its plateau: ten points within 1e-15 of each other) leave no room for a bound that every
    # rounding of the same numbers puts on the same side: such a set gets no limits (false alarm of the sweep after round 7, thorough seed 2)
    if any(abs(v - b) <= 1e-9 * max(abs(v), abs(b)) for v in u for b in (lo, hi)):
        return None
    return lo, hi


def mtok(marks):
    return "[" + ";".join(str(int(m)) for m in marks) + "]"


def lim_tok(lim):
    return ["-", "-"] if lim is None else [tok(lim[0]), tok(lim[1])]


ZERO_KINDS = ("int", "float", "negzero", "np.float64", "np.int64", "np.float32", "0-d array", "1-element array")


def zero_of(np, kind):
    """the number zero in every type a caller may hand over (all of them falsy in Python except the 1-element list)"""
    return {"int": 0, "float": 0.0, "negzero": -0.0, "np.float64": np.float64(0.0), "np.int64": np.int64(0), "np.float32": np.float32(0.0),
            "0-d array": np.array(0.0), "1-element array": np.array([0.0])}[kind]


def fill_rules(rng, np):
    """Fill rules of every documented kind (a number, a (below, above) pair), each kind WITH ITS FALSY MEMBER (the number zero in several
    types); -> [(name, rule, (value below, value above))].  The zero rule is always present."""
    zk, zk2 = rng.choice(ZERO_KINDS), rng.choice(ZERO_KINDS[:6])
    z, z2 = zero_of(np, zk), zero_of(np, zk2)
    x, y = round(rng.uniform(0.5, 9.0), 3), round(rng.uniform(0.5, 9.0), 3)
    rules = [("zero:" + zk, z, (0.0, 0.0))]
    more = [("number", rng.choice([x, np.float64(x), -x]), None), ("pair", (x, y), (x, y)), ("pair zero below:" + zk2, (z2, y), (0.0, y)),
            ("pair zero above:" + zk2, (x, z2), (x, 0.0)), ("pair of zeros:" + zk2, (z2, zero_of(np, rng.choice(ZERO_KINDS[:6]))), (0.0, 0.0))]
    for name, r, e in rng.sample(more, 3):
        rules.append((name, r, e if e is not None else (float(r), float(r))))
    return rules


def run(ck):
    pg = import_pygaps()
    import numpy as np
    import pandas as pd
    from pygaps.utilities.exceptions import CalculationError, ParameterError
    rng = ck.rng
    thorough = ck.tier == "thorough"
    pg.Adsorbate("pgv_stub", store=True, molar_mass=28.5, saturation_pressure=123456.0, liquid_density=0.81, gas_density=0.0047,
                 liquid_molar_density=0.81 / 28.5, gas_molar_density=0.0047 / 28.5)
    pg.Material("pgv_mat", store=True, density=2.3, molar_mass=321.0)
    worlds = [c02.World(pg, "stub", "pgv_stub", "pgv_mat", 77.0), c02.World(pg, "N2", "N2", "pgv_mat", 77.355)]
    PST = [("absolute", u) for u in c01.PA] + [("relative", None), ("relative%", None)]
    LST = [(b, u) for b in ("molar", "mass", "volume_gas", "volume_liquid") for u in c01.LTABLE[b]] + [("fraction", None), ("percent", None)]
    MST = [(b, u) for b in ("mass", "volume", "molar") for u in c01.MTABLE[b]]

    lines, plan = [], []       # driver requests and what to compare them with

    def ask(line, impl, sig):
        lines.append(line)
        plan.append((impl, sig, line))

    ncase = ck.n(120, 700)
    for ci in range(ncase):
        w = worlds[0] if rng.random() < 0.7 else worlds[1]
        P = w.props
        st = (rng.choice(PST), rng.choice(LST), rng.choice(MST))
        lab = [st[0][0], st[0][1], st[1][0], st[1][1], st[2][0], st[2][1], "K"]
        n = rng.randint(4, 9)
        up = sorted(rng.uniform(0.02, 0.95) for _ in range(n))
        ps = up + [up[-1] * f for f in (0.8, 0.5)]
        ls = list(np.cumsum([rng.uniform(0.1, 1.0) for _ in range(n)])) + [None, None]
        ls[n], ls[n + 1] = ls[n - 1] * 0.97, ls[n - 1] * 0.8
        iso = c02.make_iso(pg, w, lab, ps, ls, w.temp, branch=[0] * n + [1] * 2)
        lines.append(w.ctx_line())
        plan.append(None)
        lines.append(" ".join(["lab"] + [tok(x) for x in lab]))
        plan.append(None)
        rq_p, rq_l, rq_m = rng.choice(PST), rng.choice(LST), rng.choice(MST)
        stored_frac = lab[2] in FRAC
        mat_changes = (rq_m[0], rq_m[1]) != (lab[4], lab[5])
        base_sig = {"stored": [str(x) for x in lab[:6]], "requested": [str(x) for x in (rq_p + rq_l + rq_m)]}

        # ---------------- whole-branch accessors: values = stored re-expressed; selection exact and ordered
        for branch in (None, "ads", "des"):
            idx = list(range(n + 2)) if branch is None else (list(range(n)) if branch == "ads" else [n, n + 1])
            try:
                got = list(iso.pressure(branch=branch, pressure_mode=rq_p[0], pressure_unit=rq_p[1]))
                exp = [expected_pressure(P, lab, rq_p, ps[i]) for i in idx]
                ok = len(got) == len(exp) and all(close(g, e, rel=1e-10) for g, e in zip(got, exp))
            except Exception as e:  # noqa
                got, ok = repr(e), False
            ck.count(("pressure()", tuple(lab[:2]), rq_p, branch), bucket="accessor:pressure", nontrivial=tuple(lab[:2]) != rq_p)
            if not ok:
                ck.fail_case({**base_sig, "accessor": "PointIsotherm.pressure", "clause": "value = permanent conversion"}, {"branch": branch, "got": str(got)[:300]})
            try:
                got = list(iso.loading(branch=branch, loading_basis=rq_l[0], loading_unit=rq_l[1], material_basis=rq_m[0], material_unit=rq_m[1]))
                exp = [expected_loading(P, lab, rq_l, rq_m, ls[i]) for i in idx]
                ok = len(got) == len(exp) and all(close(g, e, rel=1e-10) for g, e in zip(got, exp))
            except Exception as e:  # noqa
                got, ok = repr(e), False
            ck.count(("loading()", tuple(lab[2:6]), rq_l, rq_m, branch), bucket="accessor:loading", sample={**base_sig, "branch": branch, "loading()": str(got)[:120]} if ci % 97 == 0 and branch == "ads" else None)
            if not ok:
                ck.fail_case({**base_sig, "accessor": "PointIsotherm.loading", "clause": "value = permanent conversion",
                              "stored_fraction": stored_frac, "material_changes": mat_changes}, {"branch": branch, "got": str(got)[:300], "expected": [float(x) for x in exp][:4]})
        # model requests for single stored values
        ask(" ".join(["aP", qstr(ps[1]), tok(rq_p[0]), tok(rq_p[1])]), ("val", lambda iso=iso, rq_p=rq_p: iso.pressure(pressure_mode=rq_p[0], pressure_unit=rq_p[1])[1]), {**base_sig, "accessor": "pressure"})
        ask(" ".join(["aLT", qstr(ls[1]), tok(rq_l[0]), tok(rq_l[1]), tok(rq_m[0]), tok(rq_m[1])]),
            ("val", lambda iso=iso, rq_l=rq_l, rq_m=rq_m: iso.loading(loading_basis=rq_l[0], loading_unit=rq_l[1], material_basis=rq_m[0], material_unit=rq_m[1])[1]), {**base_sig, "accessor": "loading"})
        # malformed / partial argument combinations against the model
        for _ in range(3):
            a = [rng.choice([None, "", "bogus", rq_l[0], lab[2]]), rng.choice([None, "", "bogus", rq_l[1], "g"]),
                 rng.choice([None, "", "bogus", rq_m[0]]), rng.choice([None, "", "bogus", rq_m[1], "kg"])]
            ask(" ".join(["aLT", qstr(ls[2])] + [tok(x) for x in a]),
                ("val", lambda a=a, iso=iso: iso.loading(loading_basis=a[0], loading_unit=a[1], material_basis=a[2], material_unit=a[3])[2]), {**base_sig, "accessor": "loading", "args": [str(x) for x in a]})
            b = [rng.choice([None, "", "bogus", rq_p[0]]), rng.choice([None, "", "bogus", rq_p[1], "kPa"])]
            ask(" ".join(["aP", qstr(ps[2])] + [tok(x) for x in b]),
                ("val", lambda b=b, iso=iso: iso.pressure(pressure_mode=b[0], pressure_unit=b[1])[2]), {**base_sig, "accessor": "pressure", "args": [str(x) for x in b]})

        # ---------------- limits: exactly the stored points of the branch inside [lo, hi], in order
        for lo, hi in ((ps[1], ps[n - 2]), (None, ps[2]), (ps[2], None), (0, 0), (0, ps[1]), (None, None)):
            got = list(iso.pressure(branch="ads", limits=(lo, hi)))
            anyt = bool(lo) or bool(hi)
            exp = [p for p in ps[:n] if (not anyt) or ((lo is None or p >= lo) and (hi is None or p <= hi))]
            ck.count(("limits", lo is None, hi is None, anyt), bucket="limits")
            if got != exp:
                ck.fail_case({"accessor": "PointIsotherm.pressure", "clause": "limits select exactly the stored points"}, {"limits": [lo, hi], "got": got, "expected": exp})
        lo_l = float(expected_loading(P, lab, rq_l, rq_m, ls[1])) if not (stored_frac and mat_changes) else None
        if lo_l is not None and lab[2] not in FRAC:
            got = list(iso.loading(branch="ads", loading_basis=rq_l[0], loading_unit=rq_l[1], material_basis=rq_m[0], material_unit=rq_m[1], limits=(lo_l * (1 - 1e-9), None)))
            ck.count(("limits-units", rq_l, rq_m), bucket="limits")
            if len(got) != n - 1:
                ck.fail_case({**base_sig, "accessor": "PointIsotherm.loading", "clause": "limits are interpreted in the requested units"}, {"lower": lo_l, "returned": len(got), "expected": n - 1})

        # limits of pressure() are given in the REQUESTED representation: the slice equals the slice of a converted copy
        try:
            conv_all = [float(expected_pressure(P, lab, rq_p, ps[i])) for i in range(n)]
        except Exception:
            conv_all = None
        if conv_all and all(map(math.isfinite, conv_all)) and conv_all[0] < conv_all[-1]:
            lo_p, hi_p = conv_all[1] * (1 - 1e-9), conv_all[n - 2] * (1 + 1e-9)
            try:
                got = [float(x) for x in iso.pressure(branch="ads", pressure_mode=rq_p[0], pressure_unit=rq_p[1], limits=(lo_p, hi_p))]
                okp = len(got) == n - 2 and all(close(g, e, rel=1e-10) for g, e in zip(got, conv_all[1:n - 1]))
            except Exception as e:  # noqa
                got, okp = repr(e), False
            ck.count(("limits-units-p", tuple(lab[:2]), rq_p), bucket="limits")
            if not okp:
                ck.fail_case({**base_sig, "accessor": "PointIsotherm.pressure", "clause": "limits are interpreted in the requested units"},
                             {"limits": [lo_p, hi_p], "got": str(got)[:300], "expected": conv_all[1:n - 1]})

        # ---------------- interpolation laws (native units), then foreign-unit queries
        q_in = (up[1] + up[2]) / 2
        for kind in ("linear",):
            at_knot = float(iso.loading_at(up[2]))
            mid = float(iso.loading_at(q_in))
            lin = ls[1] + (ls[2] - ls[1]) * (q_in - up[1]) / (up[2] - up[1])
            ck.count(("interp", ci), bucket="interpolation")
            if not close(at_knot, ls[2], rel=1e-12) or not close(mid, lin, rel=1e-12):
                ck.fail_case({"accessor": "PointIsotherm.loading_at", "clause": "coincides at knots / linear between"}, {"knot": [up[2], at_knot, ls[2]], "mid": [q_in, mid, lin]})
            for bad in (up[0] * 0.5, up[-1] * 1.5):
                try:
                    v = iso.loading_at(bad)
                    ck.fail_case({"accessor": "PointIsotherm.loading_at", "clause": "outside the measured range is refused"}, {"query": bad, "value": float(v)})
                except Exception:
                    pass
                v = float(iso.loading_at(bad, interp_fill=(1.25, 7.5)))
                if v != (1.25 if bad < up[0] else 7.5):
                    ck.fail_case({"accessor": "PointIsotherm.loading_at", "clause": "fill rule used outside the range"}, {"query": bad, "value": v})
                zr = zero_of(np, rng.choice(ZERO_KINDS))          # the falsy member of the fill rules: zero outside the data
                try:
                    v = float(np.asarray(iso.loading_at(bad, interp_fill=zr), dtype=float).reshape(-1)[0])
                except Exception as e:  # noqa
                    v = repr(e)[:160]
                if v != 0.0:
                    ck.fail_case({"accessor": "PointIsotherm.loading_at", "clause": "fill rule used outside the range", "fill_kind": "zero"}, {"query": bad, "interp_fill": repr(zr), "value": v})
            # desorption branch: knots and interior
            dq = (ps[n] + ps[n + 1]) / 2
            try:
                dv = float(iso.loading_at(dq, branch="des"))
                dk = float(iso.loading_at(ps[n], branch="des"))
                dl = ls[n + 1] + (ls[n] - ls[n + 1]) * (dq - ps[n + 1]) / (ps[n] - ps[n + 1])
                okd = close(dv, dl, rel=1e-12) and close(dk, ls[n], rel=1e-12)
            except Exception as e:  # noqa
                dv, okd = repr(e), False
            if not okd:
                ck.fail_case({"accessor": "PointIsotherm.loading_at", "clause": "desorption branch interpolation"}, {"query": dq, "got": str(dv)})
            # pressure_at on the desorption branch, THEN on the adsorption branch of the same object (each branch has its own interpolant)
            dql = (ls[n] + ls[n + 1]) / 2
            try:
                pdv = float(iso.pressure_at(dql, branch="des"))
                pdl = ps[n + 1] + (ps[n] - ps[n + 1]) * (dql - ls[n + 1]) / (ls[n] - ls[n + 1])
                okd = close(pdv, pdl, rel=1e-12)
            except Exception as e:  # noqa
                pdv, okd = repr(e), False
            if not okd:
                ck.fail_case({"accessor": "PointIsotherm.pressure_at", "clause": "desorption branch interpolation"}, {"query": dql, "got": str(pdv)})
            try:
                pmid = float(iso.pressure_at((ls[1] + ls[2]) / 2))
                pk = float(iso.pressure_at(ls[2]))
            except Exception as e:  # noqa
                pmid = pk = repr(e)[:200]
            if isinstance(pmid, str) or not close(pmid, (up[1] + up[2]) / 2, rel=1e-12):
                ck.fail_case({"accessor": "PointIsotherm.pressure_at", "clause": "adsorption branch after a desorption query"}, {"loading": (ls[1] + ls[2]) / 2, "got": pmid, "expected": (up[1] + up[2]) / 2})
            if not isinstance(pk, str) and not close(pk, up[2], rel=1e-12):
                ck.fail_case({"accessor": "PointIsotherm.pressure_at", "clause": "coincides at knots"}, {"loading": ls[2], "got": pk, "expected": up[2]})
        # foreign-unit query: pressure given in rq_p, loading returned in (rq_l | rq_m)
        qf = float(expected_pressure(P, lab, rq_p, q_in))
        req_frac = rq_l[0] in FRAC
        try:
            got = float(iso.loading_at(qf, pressure_mode=rq_p[0], pressure_unit=rq_p[1], loading_basis=rq_l[0], loading_unit=rq_l[1],
                                       material_basis=rq_m[0], material_unit=rq_m[1]))
            exp = expected_loading(P, lab, rq_l, rq_m, lin)
            ok = close(got, exp, rel=1e-9)
        except Exception as e:  # noqa
            got, ok, exp = repr(e), False, None
        ck.count(("loading_at", tuple(lab[:6]), rq_p, rq_l, rq_m), bucket="accessor:loading_at")
        if not ok:
            ck.fail_case({**base_sig, "accessor": "PointIsotherm.loading_at", "clause": "value = permanent conversion",
                          "stored_fraction": stored_frac, "requested_fraction": req_frac, "material_changes": mat_changes}, {"query": qf, "got": str(got), "expected": float(exp) if exp is not None else None})
        ask(" ".join(["iP", qstr(qf), tok(rq_p[0]), tok(rq_p[1])]), ("none", None), None)
        ask(" ".join(["aLS", qstr(lin), tok(rq_l[0]), tok(rq_l[1]), tok(rq_m[0]), tok(rq_m[1])]),
            ("val", lambda iso=iso, q_in=q_in, rq_l=rq_l, rq_m=rq_m: iso.loading_at(q_in, loading_basis=rq_l[0], loading_unit=rq_l[1], material_basis=rq_m[0], material_unit=rq_m[1])), {**base_sig, "accessor": "loading_at-output"})
        # pressure_at with a foreign-unit loading
        lq = (ls[1] + ls[2]) / 2
        pexp_native = up[1] + (up[2] - up[1]) * (lq - ls[1]) / (ls[2] - ls[1])
        lf = float(expected_loading(P, lab, rq_l, rq_m, lq))
        if rq_l[1] is not None:          # pressure_at demands a loading unit
            try:
                got = float(iso.pressure_at(lf, loading_basis=rq_l[0], loading_unit=rq_l[1], material_basis=rq_m[0], material_unit=rq_m[1],
                                            pressure_mode=rq_p[0], pressure_unit=rq_p[1]))
                exp = expected_pressure(P, lab, rq_p, pexp_native)
                ok = close(got, exp, rel=1e-9)
            except Exception as e:  # noqa
                got, ok, exp = repr(e), False, None
            ck.count(("pressure_at", tuple(lab[:6]), rq_p, rq_l, rq_m), bucket="accessor:pressure_at")
            if not ok:
                ck.fail_case({**base_sig, "accessor": "PointIsotherm.pressure_at", "clause": "value = permanent conversion",
                              "stored_fraction": stored_frac, "requested_fraction": req_frac, "material_changes": mat_changes}, {"query": lf, "got": str(got), "expected": float(exp) if exp is not None else None})
            ask(" ".join(["iL", "F", qstr(lf), tok(rq_l[0]), tok(rq_l[1]), tok(rq_m[0]), tok(rq_m[1])]), ("none", None), None)

        # ---------------- model isotherm with the same labels: evaluated = bare model after unit conversion
        if ci % 2 == 0:
            name = rng.choice(["Langmuir", "Henry", "Toth", "DSLangmuir"])
            par = sample_params(name, rng)
            miso = pg.ModelIsotherm(model=make(pg, name, par), material=w.mat.name, adsorbate=w.ads.name, temperature=w.temp,
                                    pressure_mode=lab[0], pressure_unit=lab[1], loading_basis=lab[2], loading_unit=lab[3],
                                    material_basis=lab[4], material_unit=lab[5], temperature_unit="K")
            pn = 0.37 if lab[0] != "relative%" else 37.0
            bare = float(miso.model.loading(np.float64(pn)))
            qf = float(expected_pressure(P, lab, rq_p, pn))
            try:
                got = float(miso.loading_at(qf, pressure_mode=rq_p[0], pressure_unit=rq_p[1], loading_basis=rq_l[0], loading_unit=rq_l[1],
                                            material_basis=rq_m[0], material_unit=rq_m[1]))
                exp = expected_loading(P, lab, rq_l, rq_m, bare)
                ok = close(got, exp, rel=1e-9)
            except Exception as e:  # noqa
                got, ok, exp = repr(e), False, None
            ck.count(("model.loading_at", name, tuple(lab[:6]), rq_p, rq_l, rq_m), bucket="accessor:model.loading_at")
            if not ok:
                ck.fail_case({**base_sig, "accessor": "ModelIsotherm.loading_at", "clause": "bare model after unit conversion",
                              "stored_fraction": stored_frac, "requested_fraction": req_frac, "material_changes": mat_changes}, {"model": name, "got": str(got), "expected": float(exp) if exp is not None else None})
            ask(" ".join(["aLT", qstr(bare), tok(rq_l[0]), tok(rq_l[1]), tok(rq_m[0]), tok(rq_m[1])]),
                ("val", lambda miso=miso, pn=pn, rq_l=rq_l, rq_m=rq_m: miso.loading_at(pn, loading_basis=rq_l[0], loading_unit=rq_l[1], material_basis=rq_m[0], material_unit=rq_m[1])), {**base_sig, "accessor": "model.loading_at-output"})
            if rq_l[1] is not None and name in ("Langmuir", "Henry", "Toth"):
                nn = bare
                lf = float(expected_loading(P, lab, rq_l, rq_m, nn))
                # 1e-7 unless the inverse is ill-conditioned at this loading (measured); None: saturated (the bare inverse is NaN or
                # amplifies one rounding of the supplied loading beyond 1e-4) — nothing can be compared there
                tol = inv_tolerance(miso.model, nn, np)
                try:
                    got = float(miso.pressure_at(lf, loading_basis=rq_l[0], loading_unit=rq_l[1], material_basis=rq_m[0], material_unit=rq_m[1],
                                                 pressure_mode=rq_p[0], pressure_unit=rq_p[1]))
                    if tol is None:
                        exp, ok = None, True
                    else:
                        # the bare model's pressure at that loading (the round trip through loading() is ill-conditioned near saturation)
                        exp = expected_pressure(P, lab, rq_p, float(miso.model.pressure(np.float64(nn))))
                        ok = close(got, exp, rel=tol)
                except Exception as e:  # noqa
                    got, ok, exp = repr(e), tol is None, None
                ck.count(("model.pressure_at", name, tuple(lab[:6]), rq_p, rq_l, rq_m), bucket="accessor:model.pressure_at")
                if not ok:
                    ck.fail_case({**base_sig, "accessor": "ModelIsotherm.pressure_at", "clause": "bare model after unit conversion",
                                  "stored_fraction": stored_frac, "requested_fraction": req_frac, "material_changes": mat_changes}, {"model": name, "got": str(got), "expected": float(exp) if exp is not None else None})
                ask(" ".join(["iL", "T", qstr(lf), tok(rq_l[0]), tok(rq_l[1]), tok(rq_m[0]), tok(rq_m[1])]), ("none", None), None)

    # ================================================================== isotherm STATES: temperature unit, histories, real adsorbates
    from pygaps.utilities.math_utilities import find_limit_indices
    from pygaps.utilities.pygaps_utilities import get_iso_loading_and_pressure_ordered
    wcache = {}

    def world_at(name, tK):
        if (name, tK) not in wcache:
            wcache[(name, tK)] = c02.World(pg, f"{name}@{tK!r}K", name, "pgv_mat", tK)
        return wcache[(name, tK)]

    def complete(w):
        return w.props.psat is not None and all(v is not None for v in w.props.q.values())

    def state_lines(w, iso):
        """the Lean side of a state: constants at the kelvin temperature (keyed by the EXACT kelvin value), labels, raw temperature"""
        lab = c02.labels_of(iso)
        traw = frac(float(iso._temperature))
        tk = traw if lab[6] == "K" else traw + Fr(5463, 20)
        for ln in (w.ctx_line(), " ".join(["lab"] + [tok(x) for x in lab]), "tmp " + qstr(traw), "thm0",
                   " ".join(["thm", qstr(tk), tok(w.props.psat)] + w.props.env_tokens())):
            lines.append(ln)
            plan.append(None)

    def temp_spec():
        name, t0 = rng.choice(REAL) if rng.random() < 0.88 else ("pgv_stub", 77.0)
        tk = t0 + rng.uniform(-1.5, 1.5)
        tu = "°C" if rng.random() < 0.65 else "K"
        return name, tk, tu

    def temp_value(tk, unit):
        return round(tk - 273.15, 2) if unit != "K" else round(tk, 3)

    def vals_eq(got, exp, rel):
        return len(got) == len(exp) and all(close(g, e, rel=rel) for g, e in zip(got, exp))

    def build_point_state():
        name, tk, tu = temp_spec()
        route = rng.choice(["constructed", "convert_temperature", "history", "history"])
        st = (rng.choice(PST), rng.choice(LST), rng.choice(MST))
        n = rng.randint(5, 9)
        nd = 0 if rng.random() < 0.15 else rng.randint(2, 3)
        up = sorted(rng.uniform(0.02, 0.95) for _ in range(n))
        ps = up + [up[-1] * f for f in (0.8, 0.5, 0.3)[:nd]]
        la = list(np.cumsum([rng.uniform(0.1, 1.0) for _ in range(n)]))
        ls = la + [la[-1] * f for f in (0.97, 0.8, 0.6)[:nd]]
        other = "K" if tu != "K" else "°C"
        tu0 = tu if route == "constructed" else (other if route == "convert_temperature" else rng.choice(["K", "°C"]))
        lab0 = [st[0][0], st[0][1], st[1][0], st[1][1], st[2][0], st[2][1], tu0]
        iso = c02.make_iso(pg, type("W", (), {"mat": pg.Material.find("pgv_mat"), "ads": pg.Adsorbate.find(name)})(), lab0, ps, ls,
                           temp_value(tk, tu0), branch=[0] * n + [1] * nd)
        hist = []
        if route == "convert_temperature":
            hist.append(("T", (rng.choice(CELSIUS) if tu != "K" else "K",)))
        elif route == "history":
            for _ in range(rng.randint(1, 3)):
                k = rng.random()
                if k < 0.25:
                    hist.append(("P", rng.choice(PST)))
                elif k < 0.45:
                    hist.append(("M", rng.choice(MST)))
                elif k < 0.7:
                    hist.append(("L", rng.choice(LST)))
                elif k < 0.85:
                    x, y, z = rng.choice(PST), rng.choice(LST), rng.choice(MST)
                    hist.append(("A", (x[0], x[1], y[0], y[1], z[0], z[1])))
                else:
                    hist.append(("T", (rng.choice(CELSIUS + ("K",)),)))
            hist.append(("T", (rng.choice(CELSIUS) if tu != "K" else "K",)))
        for hi, (kind, a) in enumerate(hist):
            # a conversion that keeps the mode / basis and changes ONLY the unit (g -> kg, bar -> Pa, mmol -> mol): the class of an interpolator reset tied
            # to the basis change alone (C03-m8: caught on 3 seeds of 4 only while such steps came up by chance, one time in three)
            if route == "history" and kind in ("P", "M", "L") and rng.random() < 0.4:
                cur = c02.labels_of(iso)
                pool = {"P": [x for x in PST if x[0] == cur[0] and x[1] != cur[1]], "L": [x for x in LST if x[0] == cur[2] and x[1] != cur[3]],
                        "M": [x for x in MST if x[0] == cur[4] and x[1] != cur[5]]}[kind]
                if pool:
                    a = rng.choice(pool)
                    hist[hi] = (kind, a)
            if rng.random() < 0.65:          # interpolators cached before the conversion (they must be rebuilt afterwards)
                try:
                    iso.loading_at(float(iso.pressure(branch="ads")[1]))
                    iso.pressure_at(float(iso.loading(branch="ads")[1]))
                except Exception:
                    pass
            c02.apply_op(iso, kind, a)
        w = world_at(name, 77.0 if name == "pgv_stub" else kelvin_of(iso))
        return iso, w, route, [[k, [str(x) for x in a]] for k, a in hist]

    def probe_point(iso, w, route, hist, ci):
        P = w.props
        lab = c02.labels_of(iso)
        d = iso.data_raw
        ps = [float(x) for x in d[iso.pressure_key]]
        ls = [float(x) for x in d[iso.loading_key]]
        es = [float(x) for x in d["enthalpy"]]
        marks = [int(x) for x in d["branch"]]
        nrow = len(ps)
        idx = {None: list(range(nrow)), "ads": [i for i in range(nrow) if marks[i] == 0], "des": [i for i in range(nrow) if marks[i] == 1]}
        rq_p, rq_l, rq_m = pick_request(rng, lab, PST, LST, MST)
        stored_frac, req_frac = lab[2] in FRAC, rq_l[0] in FRAC
        mat_changes = (rq_m[0], rq_m[1]) != (lab[4], lab[5])
        base_sig = {"stored": [str(x) for x in lab[:6]], "requested": [str(x) for x in (rq_p + rq_l + rq_m)], "temperature_unit": str(lab[6]),
                    "stored_temperature": float(iso._temperature), "state": route, "history": hist, "adsorbate": w.name}
        fsig = {"stored_fraction": stored_frac, "requested_fraction": req_frac, "material_changes": mat_changes}
        pkw = dict(pressure_mode=rq_p[0], pressure_unit=rq_p[1])
        lkw = dict(loading_basis=rq_l[0], loading_unit=rq_l[1], material_basis=rq_m[0], material_unit=rq_m[1])
        state_lines(w, iso)
        ck.count(("state", route, str(lab[6]), tuple(lab[:2]), rq_p, tuple(lab[2:6]), rq_l, rq_m), bucket="state:" + route + ":" + str(lab[6]),
                 sample={**base_sig, "kelvin": kelvin_of(iso)} if ci % 37 == 0 else None)

        # ---- (1) SI oracle at the kelvin temperature, whole-branch accessors
        exp_p = [expected_pressure(P, lab, rq_p, v) for v in ps]
        exp_l = [expected_loading(P, lab, rq_l, rq_m, v) for v in ls]
        for branch in (None, "ads", "des"):
            try:
                got = [float(x) for x in iso.pressure(branch=branch, **pkw)]
                ok = vals_eq(got, [exp_p[i] for i in idx[branch]], 1e-10)
            except Exception as e:  # noqa
                got, ok = repr(e), False
            ck.count(("state.pressure()", str(lab[6]), tuple(lab[:2]), rq_p, branch), bucket="accessor:pressure")
            if not ok:
                ck.fail_case({**base_sig, "accessor": "PointIsotherm.pressure", "clause": "value = permanent conversion"},
                             {"branch": branch, "got": str(got)[:300], "expected": [float(exp_p[i]) for i in idx[branch]][:4]})
            try:
                got = [float(x) for x in iso.loading(branch=branch, **lkw)]
                ok = vals_eq(got, [exp_l[i] for i in idx[branch]], 1e-10)
            except Exception as e:  # noqa
                got, ok = repr(e), False
            ck.count(("state.loading()", str(lab[6]), tuple(lab[2:6]), rq_l, rq_m, branch), bucket="accessor:loading")
            if not ok:
                ck.fail_case({**base_sig, **fsig, "accessor": "PointIsotherm.loading", "clause": "value = permanent conversion"},
                             {"branch": branch, "got": str(got)[:300], "expected": [float(exp_l[i]) for i in idx[branch]][:4]})

        # ---- (2) the property literally: permanent conversion of a copy, read natively (same branch, same limits, same query)
        cl = clone_iso(pg, iso)
        try:
            cl.convert(**pkw, **lkw)
        except Exception as e:  # noqa   (refused conversions are C02's business)
            ck.notes.append("state probe: permanent conversion of the copy refused: " + repr(e)[:160])
            cl = None
        if cl is not None:
            clause = "accessor = permanent conversion of a copy, read natively"
            for branch in (None, "ads", "des"):
                for what in ("pressure", "loading"):
                    kw = pkw if what == "pressure" else lkw
                    native = [float(x) for x in getattr(cl, what)(branch=branch)]
                    for lim in (None, mid_limits(native)):
                        try:
                            got = [float(x) for x in getattr(iso, what)(branch=branch, limits=lim, **kw)]
                            exp = [float(x) for x in getattr(cl, what)(branch=branch, limits=lim)]
                            ok = vals_eq(got, exp, 1e-10)
                        except Exception as e:  # noqa
                            got, exp, ok = repr(e), native, False
                        ck.count(("copy", what, branch, lim is None, tuple(lab[:6]), rq_p, rq_l, rq_m), bucket="copy:" + what)
                        if not ok:
                            ck.fail_case({**base_sig, **(fsig if what == "loading" else {}), "accessor": "PointIsotherm." + what, "clause": clause, "limits": lim is not None},
                                         {"branch": branch, "limits": lim, "got": str(got)[:300], "converted_copy": exp[:5]})
            # interpolated values: query given in the requested representation
            for branch in ("ads", "des"):
                cp = [float(x) for x in cl.pressure(branch=branch)]
                cq = [float(x) for x in cl.loading(branch=branch)]
                if len(cp) < 2:
                    continue
                q = (cp[0] + cp[1]) / 2 if branch == "des" else (cp[1] + cp[2]) / 2
                try:
                    got = float(iso.loading_at(q, branch=branch, **pkw, **lkw))
                    exp = float(cl.loading_at(q, branch=branch))
                    ok = close(got, exp, rel=1e-9)
                except Exception as e:  # noqa
                    got, exp, ok = repr(e), None, False
                ck.count(("copy", "loading_at", branch, tuple(lab[:6]), rq_p, rq_l, rq_m), bucket="copy:loading_at")
                if not ok:
                    ck.fail_case({**base_sig, **fsig, "accessor": "PointIsotherm.loading_at", "clause": clause}, {"branch": branch, "query": q, "got": str(got), "converted_copy": exp})
                if rq_l[1] is None:
                    continue
                lq = (cq[0] + cq[1]) / 2 if branch == "des" else (cq[1] + cq[2]) / 2
                try:
                    got = float(iso.pressure_at(lq, branch=branch, **pkw, **lkw))
                    exp = float(cl.pressure_at(lq, branch=branch))
                    ok = close(got, exp, rel=1e-9)
                except Exception as e:  # noqa
                    got, exp, ok = repr(e), None, False
                ck.count(("copy", "pressure_at", branch, tuple(lab[:6]), rq_p, rq_l, rq_m), bucket="copy:pressure_at")
                if not ok:
                    ck.fail_case({**base_sig, **fsig, "accessor": "PointIsotherm.pressure_at", "clause": clause}, {"branch": branch, "query": lq, "got": str(got), "converted_copy": exp})

        # ---- (3) supplementary columns and branch presence: exactly the stored rows of the branch inside the limits, in order
        e_lim = mid_limits(es)
        for branch in (None, "ads", "des", "all"):
            rows = idx[None if branch == "all" else branch]
            for lim in (None, e_lim, (es[1], es[-2]), (None, es[2]), (0, 0), (es[0], None), (0, es[1]), (0.0, es[2])):
                if lim is None or not (lim[0] or lim[1]):
                    exp = [es[i] for i in rows]
                else:
                    exp = [es[i] for i in rows if (lim[0] is None or es[i] >= lim[0]) and (lim[1] is None or es[i] <= lim[1])]
                try:
                    got = [float(x) for x in iso.other_data("enthalpy", branch=branch, limits=lim)]
                except Exception as e:  # noqa
                    got = repr(e)
                ck.count(("other_data", branch, lim is None), bucket="accessor:other_data")
                if got != exp:
                    ck.fail_case({"accessor": "PointIsotherm.other_data", "clause": "exactly the stored points of the branch inside the limits, in order", "state": route},
                                 {"branch": branch, "limits": lim, "got": str(got)[:300], "expected": exp})
                ask(" ".join(["colO", "T", tok([frac(x) for x in es]), mtok(marks), tok(branch)] + lim_tok(lim)),
                    ("vals", lambda branch=branch, lim=lim: iso.other_data("enthalpy", branch=branch, limits=lim)), {"accessor": "other_data", "branch": branch, "limits": lim})
            try:
                got = list(iso.other_data("tag", branch=branch))
            except Exception as e:  # noqa
                got = repr(e)
            if got != [f"r{i}" for i in rows]:
                ck.fail_case({"accessor": "PointIsotherm.other_data", "clause": "text column: the stored rows of the branch, in order", "state": route}, {"branch": branch, "got": str(got)[:200]})
            try:
                hb = bool(iso.has_branch(branch))
            except Exception as e:  # noqa
                hb = repr(e)
            ck.count(("has_branch", branch, bool(rows)), bucket="accessor:has_branch")
            if hb != bool(rows):
                ck.fail_case({"accessor": "PointIsotherm.has_branch", "clause": "true exactly when the branch has stored rows", "state": route}, {"branch": branch, "marks": marks, "got": hb})
        for b in (None, "ads", "des", "all", "all-nol", "bogus", ""):
            ask(" ".join(["hb", mtok(marks), tok(b)]), ("bool", lambda b=b: iso.has_branch(b)), {"accessor": "has_branch", "branch": b})
            ask(" ".join(["br", mtok(marks), tok(b)]), ("list", lambda b=b: [int(i) for i in iso.data(branch=b).index]), {"accessor": "data", "branch": b})
        try:
            iso.other_data("no_such_column")
            ck.fail_case({"accessor": "PointIsotherm.other_data", "clause": "unknown column is refused"}, {})
        except ParameterError:
            pass
        ask(" ".join(["colO", "F", tok([frac(x) for x in es]), mtok(marks), "~", "-", "-"]), ("vals", lambda: iso.other_data("no_such_column")), {"accessor": "other_data", "key": "unknown"})

        # ---- (4) what the characterisation routines read: both columns in the requested units, desorption reversed
        ord_m = (lab[4], lab[5]) if stored_frac else rq_m        # (stored fraction + material change is finding S5a)
        olkw = dict(loading_basis=rq_l[0], loading_unit=rq_l[1], material_basis=ord_m[0], material_unit=ord_m[1])
        exp_lo = [expected_loading(P, lab, rq_l, ord_m, v) for v in ls]
        for branch in ("ads", "des"):
            rows = idx[branch] if branch == "ads" else idx[branch][::-1]
            try:
                gp, gl = get_iso_loading_and_pressure_ordered(iso, branch, olkw, pkw)
                ok = vals_eq([float(x) for x in gp], [exp_p[i] for i in rows], 1e-10) and vals_eq([float(x) for x in gl], [exp_lo[i] for i in rows], 1e-10)
                got = [[float(x) for x in gp][:4], [float(x) for x in gl][:4]]
            except Exception as e:  # noqa
                got, ok = repr(e), False
            ck.count(("ordered", branch, tuple(lab[:6]), rq_p, rq_l, ord_m), bucket="accessor:ordered_read")
            if not ok:
                ck.fail_case({**base_sig, "accessor": "get_iso_loading_and_pressure_ordered", "clause": "both columns in the requested units, rows paired, desorption reversed"},
                             {"branch": branch, "got": str(got)[:300], "expected": [[float(exp_p[i]) for i in rows][:4], [float(exp_lo[i]) for i in rows][:4]]})
            ask(" ".join(["ord", branch, tok([frac(ps[i]) for i in idx[branch]])]),
                ("vals", lambda branch=branch: get_iso_loading_and_pressure_ordered(iso, branch, {}, {})[0]), {"accessor": "ordered_read", "branch": branch})

        # ---- (5) the Lean model of the state: constants at kelvin(temperature unit, stored temperature); whole columns with limits
        ask(" ".join(["aPT", qstr(ps[1]), tok(rq_p[0]), tok(rq_p[1])]), ("val", lambda: iso.pressure(**pkw)[1]), {**base_sig, "accessor": "pressure (state)"})
        ask(" ".join(["aLTT", qstr(ls[1]), tok(rq_l[0]), tok(rq_l[1]), tok(rq_m[0]), tok(rq_m[1])]), ("val", lambda: iso.loading(**lkw)[1]), {**base_sig, "accessor": "loading (state)"})
        ask("kel", ("val", lambda: iso.temperature), {**base_sig, "accessor": "temperature"})
        for branch in (None, "ads", "des"):
            lim = mid_limits([exp_p[i] for i in idx[branch]])
            ask(" ".join(["colP", tok([frac(x) for x in ps]), mtok(marks), tok(branch), tok(rq_p[0]), tok(rq_p[1])] + lim_tok(lim)),
                ("vals", lambda branch=branch, lim=lim: iso.pressure(branch=branch, limits=lim, **pkw)), {**base_sig, "accessor": "pressure column", "branch": branch, "limits": lim})
            lim = mid_limits([exp_l[i] for i in idx[branch]])
            ask(" ".join(["colL", tok([frac(x) for x in ls]), mtok(marks), tok(branch)] + [tok(x) for x in rq_l + rq_m] + lim_tok(lim)),
                ("vals", lambda branch=branch, lim=lim: iso.loading(branch=branch, limits=lim, **lkw)), {**base_sig, "accessor": "loading column", "branch": branch, "limits": lim})
        # native columns with limits ON stored values (inclusive bounds)
        a = idx["ads"]
        ask(" ".join(["colP", tok([frac(x) for x in ps]), mtok(marks), "ads", "~", "~", tok(ps[a[1]]), tok(ps[a[-2]])]),
            ("vals", lambda: iso.pressure(branch="ads", limits=(ps[a[1]], ps[a[-2]]))), {"accessor": "pressure column", "limits": "on stored values"})
        # linear interpolation against interpLin (inside, at a knot, outside)
        pa, la_ = [ps[i] for i in a], [ls[i] for i in a]
        for q in ((pa[1] + pa[2]) / 2, pa[2], pa[0] * 0.5, pa[-1] * 1.5):
            ask(" ".join(["il", tok([frac(x) for x in pa]), tok([frac(x) for x in la_]), qstr(q)]), ("val", lambda q=q: iso.loading_at(q)), {"accessor": "loading_at", "query": q})

        # the whole of loading_at / pressure_at (input conversion -> interpolation -> output conversion) on both branches
        for branch in ("ads", "des"):
            rows = idx[branch] if branch == "ads" else idx[branch][::-1]          # knots with increasing pressure
            if len(rows) < 2:
                continue
            kp, kl = [ps[i] for i in rows], [ls[i] for i in rows]
            for qn_ in ((kp[0] + kp[1]) / 2, kp[-1] * 1.5):
                qq = float(expected_pressure(P, lab, rq_p, qn_))
                ask(" ".join(["lat", tok([frac(x) for x in kp]), tok([frac(x) for x in kl]), qstr(qq)] + [tok(x) for x in rq_p + rq_l + rq_m]),
                    ("val", lambda branch=branch, qq=qq: iso.loading_at(qq, branch=branch, **pkw, **lkw)), {**base_sig, "accessor": "loading_at (whole)", "branch": branch, "query": qq})
            if not (stored_frac and mat_changes):
                lq_ = float(expected_loading(P, lab, rq_l, rq_m, (kl[0] + kl[1]) / 2))
                ask(" ".join(["pat", tok([frac(x) for x in kl]), tok([frac(x) for x in kp]), qstr(lq_)] + [tok(x) for x in rq_l + rq_m + rq_p]),
                    ("val", lambda branch=branch, lq_=lq_: iso.pressure_at(lq_, branch=branch, **lkw, **pkw)), {**base_sig, "accessor": "pressure_at (whole)", "branch": branch, "query": lq_})

        # ---- (6) conversions of SUPPLIED quantities and of interpolated results, observed through a straight-line isotherm with the same labels
        k = rng.uniform(0.5, 3.0)
        lp = [0.0, pa[0], pa[-1]]          # through the origin: small and large supplied quantities stay well-conditioned
        lin = c02.make_iso(pg, type("W", (), {"mat": iso.material, "ads": iso.adsorbate})(), lab, lp, [k * x for x in lp], float(iso._temperature), branch=[0, 0, 0])
        qn = (pa[1] + pa[2]) / 2
        qf = float(expected_pressure(P, lab, rq_p, qn))
        lfq = float(expected_loading(P, lab, rq_l, rq_m, k * qn))
        argsets = [(rq_p[0], rq_p[1])]
        if rng.random() < 0.5:
            argsets.append((rng.choice([None, "", "bogus", rq_p[0], "absolute"]), rng.choice([None, "", "bogus", rq_p[1], "kPa"])))
        for pm_, pu_ in argsets:
            ask(" ".join(["iP", qstr(qf), tok(pm_), tok(pu_)]), ("val", lambda pm_=pm_, pu_=pu_: lin.loading_at(qf, pressure_mode=pm_, pressure_unit=pu_, interp_fill="extrapolate") / k),
                {**base_sig, "accessor": "loading_at-input", "args": [str(pm_), str(pu_)]})
            ask(" ".join(["oPP", qstr(qn), tok(pm_), tok(pu_)]), ("val", lambda pm_=pm_, pu_=pu_: lin.pressure_at(k * qn, pressure_mode=pm_, pressure_unit=pu_, interp_fill="extrapolate")),
                {**base_sig, "accessor": "pressure_at-output", "args": [str(pm_), str(pu_)]})
        largs = [rq_l + rq_m]
        if rng.random() < 0.5:
            largs.append((rng.choice([None, "", "bogus", rq_l[0]]), rng.choice([None, "", "bogus", rq_l[1], "g"]), rng.choice([None, "", "bogus", rq_m[0]]), rng.choice([None, "", "bogus", rq_m[1], "kg"])))
        for la4 in largs:
            ask(" ".join(["iL", "F", qstr(lfq)] + [tok(x) for x in la4]),
                ("val", lambda la4=la4: lin.pressure_at(lfq, loading_basis=la4[0], loading_unit=la4[1], material_basis=la4[2], material_unit=la4[3], interp_fill="extrapolate") * k),
                {**base_sig, "accessor": "pressure_at-input", "args": [str(x) for x in la4]})

        # ---- (7) call sequences on ONE object: every (branch, kind, fill rule) has its own interpolant; no fill rule = refusal outside the range
        for branch in ("ads", "des"):
            rows = idx[branch]
            if len(rows) < 2:
                continue
            bp, bl = [ps[i] for i in rows], [ls[i] for i in rows]
            for fn, xs, ys in (("loading_at", bp, bl), ("pressure_at", bl, bp)):
                f = getattr(iso, fn)
                lo_x, hi_x = min(xs), max(xs)
                i0, i1 = (0, 1)
                xm = (xs[i0] + xs[i1]) / 2
                ylin = ys[i0] + (ys[i1] - ys[i0]) * (xm - xs[i0]) / (xs[i1] - xs[i0])
                seq = []
                try:
                    seq.append(("fill", float(f(hi_x * 1.5, branch=branch, interp_fill=(1.25, 7.5)))))
                    seq.append(("fill-low", float(f(lo_x * 0.5, branch=branch, interp_fill=(1.25, 7.5)))))
                    okf = seq[0][1] == 7.5 and seq[1][1] == 1.25
                except Exception as e:  # noqa
                    seq.append(("fill", repr(e)[:120]))
                    okf = False
                ck.count(("sequence", fn, branch), bucket="call-sequence")
                if not okf:
                    ck.fail_case({"accessor": "PointIsotherm." + fn, "clause": "fill rule used outside the range", "state": route}, {"branch": branch, "calls": seq})
                for bad in (hi_x * 1.5, lo_x * 0.5):
                    try:
                        v = f(bad, branch=branch)
                        ck.fail_case({"accessor": "PointIsotherm." + fn, "clause": "outside the measured range is refused (after a call with a fill rule)", "state": route},
                                     {"branch": branch, "query": bad, "value": float(v), "range": [lo_x, hi_x]})
                    except ValueError:
                        pass
                    except Exception as e:  # noqa
                        ck.fail_case({"accessor": "PointIsotherm." + fn, "clause": "outside the measured range is refused (after a call with a fill rule)", "state": route},
                                     {"branch": branch, "query": bad, "raised": repr(e)[:160]})
                # another kind FIRST (under its own fill rule, so that it is certainly built), then the default under the same rule
                kind = rng.choice(["nearest", "zero"])
                try:
                    f(xm, branch=branch, interpolation_type=kind, interp_fill=(2.5, 3.5))
                    y2 = float(f(xm, branch=branch, interp_fill=(2.5, 3.5)))                # the default is the straight line
                    yk = float(f(xs[i1], branch=branch, interpolation_type=kind))            # any kind: the data at a measured point
                    y3 = float(f(xm, branch=branch))
                    oks = close(y2, ylin, rel=1e-12) and close(yk, ys[i1], rel=1e-12) and close(y3, ylin, rel=1e-12)
                except Exception as e:  # noqa
                    yk, y2, y3, oks = repr(e)[:120], None, None, False
                if not oks:
                    ck.fail_case({"accessor": "PointIsotherm." + fn, "clause": "coincides at knots for every kind / linear by default after another kind", "state": route},
                                 {"branch": branch, "kind": kind, "at_knot": [xs[i1], yk, ys[i1]], "mid": [xm, y2, y3, ylin]})

        # ---- (8) FALSY BUT MEANINGFUL argument values: the member of every option kind that Python's truth test takes for "absent"
        def f1(v):
            return float(np.asarray(v, dtype=float).reshape(-1)[0])

        def fl(v):
            return [float(x) for x in np.asarray(v, dtype=float).reshape(-1)]

        # (8a) fill rules (a number; a (below, above) pair), each kind with the number zero in several types: "refused outside the measured range
        #      UNLESS A FILL RULE IS GIVEN" -- outside the range the rule's value, inside the straight line, at a knot the datum; array and scalar queries
        rules = fill_rules(rng, np)
        clause_f = "a fill rule is given: the rule's value outside the measured range, the interpolated value inside (never refused)"
        for branch in ("ads", "des"):
            rows = idx[branch]
            if len(rows) < 2:
                continue
            bp, bl = [ps[i] for i in rows], [ls[i] for i in rows]
            for fn, xs, ys in (("loading_at", bp, bl), ("pressure_at", bl, bp)):
                f = getattr(iso, fn)
                lo_x, hi_x = min(xs), max(xs)
                xm = (xs[0] + xs[1]) / 2
                ylin = ys[0] + (ys[1] - ys[0]) * (xm - xs[0]) / (xs[1] - xs[0])
                q = [lo_x * 0.5, xm, xs[1], hi_x * 1.5]
                for name, rule, (e_lo, e_hi) in rules:
                    ck.count(("fill", fn, branch, name), bucket="fill-rule:" + name.split(":")[0])
                    try:
                        got = fl(f(q, branch=branch, interp_fill=rule))
                        gs = [f1(f(q[0], branch=branch, interp_fill=rule)), f1(f(q[3], branch=branch, interp_fill=rule))]
                        ok = (len(got) == 4 and got[0] == e_lo and got[3] == e_hi and close(got[1], ylin, rel=1e-12) and close(got[2], ys[1], rel=1e-12)
                              and gs == [e_lo, e_hi])
                    except Exception as e:  # noqa
                        got, gs, ok = repr(e)[:160], None, False
                    if not ok:
                        ck.fail_case({"accessor": "PointIsotherm." + fn, "clause": clause_f, "fill_kind": name.split(":")[0], "state": route},
                                     {"branch": branch, "interp_fill": repr(rule), "fill_type": type(rule).__name__, "query": q, "got": got, "scalar_queries": gs,
                                      "expected": [e_lo, ylin, ys[1], e_hi], "range": [lo_x, hi_x]})
                # the rule belongs to ITS call: zero after a non-zero rule is zero; no rule afterwards is a refusal; zero in another type is zero again
                za, zb = zero_of(np, rng.choice(ZERO_KINDS)), zero_of(np, rng.choice(ZERO_KINDS))
                seq = []
                try:
                    seq.append(["interp_fill=(1.25, 7.5)", f1(f(q[3], branch=branch, interp_fill=(1.25, 7.5)))])
                    seq.append(["interp_fill=" + repr(za), f1(f(q[3], branch=branch, interp_fill=za))])
                    try:
                        seq.append(["no rule", f1(f(q[3], branch=branch))])
                    except ValueError:
                        seq.append(["no rule", "refused"])
                    seq.append(["interp_fill=" + repr(zb), f1(f(q[0], branch=branch, interp_fill=zb))])
                    seq.append(["interp_fill=(0, 7.5)", f1(f(q[3], branch=branch, interp_fill=(0, 7.5)))])
                    oks = [x[1] for x in seq] == [7.5, 0.0, "refused", 0.0, 7.5]
                except Exception as e:  # noqa
                    seq.append(["raised", repr(e)[:160]])
                    oks = False
                ck.count(("fill-sequence", fn, branch), bucket="call-sequence")
                if not oks:
                    ck.fail_case({"accessor": "PointIsotherm." + fn, "clause": "every call is answered under its own fill rule (zero rule / no rule / pair in sequence on one object)", "state": route},
                                 {"branch": branch, "queries": [q[0], q[3]], "calls": seq, "expected": [7.5, 0.0, "refused", 0.0, 7.5]})

        # (8b) the zero rule with the query and the answer in a REQUESTED representation: zero is zero in every unit, and the permanently converted
        #      copy under the same rule agrees (stored fraction + material change is finding S5a: the material stays as stored there, like in (4))
        #      (requested fraction + material change in loading_at is finding S5b: same)
        zname, zrule, _ = rules[0]
        m8 = (lab[4], lab[5]) if (stored_frac or req_frac) else rq_m
        kw8 = dict(loading_basis=rq_l[0], loading_unit=rq_l[1], material_basis=m8[0], material_unit=m8[1])
        copy_ok = cl is not None and m8 == tuple(rq_m)
        for branch in ("ads", "des"):
            rows = idx[branch] if branch == "ads" else idx[branch][::-1]
            if len(rows) < 2:
                continue
            kp, kl = [ps[i] for i in rows], [ls[i] for i in rows]
            pm_, lm_ = (kp[0] + kp[1]) / 2, (kl[0] + kl[1]) / 2
            qq = [float(expected_pressure(P, lab, rq_p, v)) for v in (min(kp) * 0.5, pm_, max(kp) * 1.5)]
            e_mid = expected_loading(P, lab, rq_l, m8, lm_)
            ck.count(("fill-foreign", "loading_at", branch, zname, tuple(lab[:6]), rq_p, rq_l, m8), bucket="fill-rule:zero, requested units")
            try:
                got = fl(iso.loading_at(qq, branch=branch, interp_fill=zrule, **pkw, **kw8))
                ok = len(got) == 3 and got[0] == 0.0 and got[2] == 0.0 and close(got[1], e_mid, rel=1e-9)
                ref = None
                if ok and copy_ok:
                    ref = fl(cl.loading_at(qq, branch=branch, interp_fill=zrule))
                    ok = vals_eq(got, ref, 1e-9)
            except Exception as e:  # noqa
                got, ref, ok = repr(e)[:160], None, False
            if not ok:
                ck.fail_case({**base_sig, "accessor": "PointIsotherm.loading_at", "clause": clause_f, "fill_kind": "zero", "units": "requested"},
                             {"branch": branch, "interp_fill": repr(zrule), "query": qq, "got": got, "expected": [0.0, float(e_mid), 0.0], "converted_copy": ref})
            if rq_l[1] is None:
                continue
            lq3 = [float(expected_loading(P, lab, rq_l, m8, v)) for v in (min(kl) * 0.5, lm_, max(kl) * 1.5)]
            e_mid = expected_pressure(P, lab, rq_p, pm_)
            ck.count(("fill-foreign", "pressure_at", branch, zname, tuple(lab[:6]), rq_p, rq_l, m8), bucket="fill-rule:zero, requested units")
            try:
                got = fl(iso.pressure_at(lq3, branch=branch, interp_fill=zrule, **kw8, **pkw))
                ok = len(got) == 3 and got[0] == 0.0 and got[2] == 0.0 and close(got[1], e_mid, rel=1e-9)
                ref = None
                if ok and copy_ok:
                    ref = fl(cl.pressure_at(lq3, branch=branch, interp_fill=zrule))
                    ok = vals_eq(got, ref, 1e-9)
            except Exception as e:  # noqa
                got, ref, ok = repr(e)[:160], None, False
            if not ok:
                ck.fail_case({**base_sig, "accessor": "PointIsotherm.pressure_at", "clause": clause_f, "fill_kind": "zero", "units": "requested"},
                             {"branch": branch, "interp_fill": repr(zrule), "query": lq3, "got": got, "expected": [0.0, float(e_mid), 0.0], "converted_copy": ref})

        # (8c) the same rule in another spelling is the same rule (number c = pair (c, c) = numpy number c), also for the integral of the interpolant;
        #      without a rule a pressure above the measured range is refused there too
        p_hi = max(pa) * 1.5
        try:
            sv = [f1(iso.spreading_pressure_at(p_hi, interp_fill=r)) for r in (zrule, (0.0, 0.0), 0, np.float64(0.0))]
            oks = all(math.isfinite(v) and close(v, sv[1], rel=1e-12) for v in sv)
        except Exception as e:  # noqa
            sv, oks = repr(e)[:200], False
        ck.count(("fill-spreading", zname), bucket="fill-rule:spreading pressure")
        if not oks:
            ck.fail_case({"accessor": "PointIsotherm.spreading_pressure_at", "clause": "one fill rule in several spellings (number, pair, numpy number) gives one answer, never a refusal", "state": route},
                         {"pressure": p_hi, "fills": [repr(zrule), "(0.0, 0.0)", "0", "np.float64(0.0)"], "got": sv})
        try:
            v = iso.spreading_pressure_at(p_hi)
            ck.fail_case({"accessor": "PointIsotherm.spreading_pressure_at", "clause": "outside the measured range is refused without a fill rule", "state": route}, {"pressure": p_hi, "value": f1(v)})
        except (CalculationError, ValueError):
            pass

        # (8d) zero as a DATUM, as a QUERY and as a LIMIT: the same isotherm with the origin (0, 0) as first adsorption point
        # zero UPPER limits -- (None, 0), (0, 0), ... -- are generated below under the clause "limits select exactly the stored points inside them"
        # (finding S60-C03: the tree takes limits whose members are all falsy for "no limits" and returns the whole branch).
        d_rows = idx["des"]
        zp, zl = [0.0] + pa, [0.0] + la_
        z = c02.make_iso(pg, type("W", (), {"mat": iso.material, "ads": iso.adsorbate})(), lab, zp + [ps[i] for i in d_rows], zl + [ls[i] for i in d_rows],
                         float(iso._temperature), branch=[0] * len(zp) + [1] * len(d_rows))
        zmarks = [0] * len(zp) + [1] * len(d_rows)
        for q0 in (0.0, rng.choice([0, np.float64(0.0), np.int64(0), np.float32(0.0), [0.0], np.array([0.0])])):
            ck.count(("zero-query", type(q0).__name__, tuple(lab[:6]), rq_p, rq_l, ord_m), bucket="zero query")
            res = {}
            for nm, th in (("loading_at(0)", lambda: z.loading_at(q0)), ("pressure_at(0)", lambda: z.pressure_at(q0)),
                           ("loading_at(0, requested units)", lambda: z.loading_at(q0, **pkw, **olkw)),
                           ("pressure_at(0, requested units)", (lambda: z.pressure_at(q0, **olkw, **pkw)) if rq_l[1] is not None else (lambda: 0.0))):
                try:
                    res[nm] = f1(th())
                except Exception as e:  # noqa
                    res[nm] = repr(e)[:120]
            if any(v != 0.0 for v in res.values()):
                ck.fail_case({**base_sig, "accessor": "PointIsotherm.loading_at / pressure_at", "clause": "coincides with the data at a measured point (the point at zero)"},
                             {"query": repr(q0), "got": res, "expected": 0.0, "first_points": [zp[:2], zl[:2]]})
        try:
            got = fl(z.loading_at([0.0, pa[0] / 2]))
            ok = got[0] == 0.0 and close(got[1], la_[0] / 2, rel=1e-12)
        except Exception as e:  # noqa
            got, ok = repr(e)[:160], False
        if not ok:
            ck.fail_case({"accessor": "PointIsotherm.loading_at", "clause": "coincides at knots / linear between (first segment from zero)", "state": route}, {"query": [0.0, pa[0] / 2], "got": got, "expected": [0.0, la_[0] / 2]})
        zc_p = [float(expected_pressure(P, lab, rq_p, v)) for v in zp]
        zc_l = [float(expected_loading(P, lab, rq_l, ord_m, v)) for v in zl]
        z0 = rng.choice([0, 0.0, np.float64(0.0), np.int64(0)])
        for what, kw, nat, conv in (("pressure", pkw, zp, zc_p), ("loading", olkw, zl, zc_l)):
            for lim, kw_, exp in (((z0, nat[2]), {}, nat[:3]), ((z0, conv[2] * (1 + 1e-9)), kw, conv[:3]), (None, kw, conv)):
                ck.count(("zero-limit", what, lim is None, bool(kw_), type(z0).__name__), bucket="limits")
                try:
                    got = fl(getattr(z, what)(branch="ads", limits=lim, **kw_))
                    ok = vals_eq(got, exp, 1e-10) and got[0] == 0.0
                except Exception as e:  # noqa
                    got, ok = repr(e)[:160], False
                if not ok:
                    ck.fail_case({**base_sig, "accessor": "PointIsotherm." + what, "clause": "limits select exactly the stored points (lower limit zero, first point at zero)", "units": "requested" if kw_ else "stored"},
                                 {"limits": None if lim is None else [repr(lim[0]), lim[1]], "got": got, "expected": exp})
        # an UPPER limit of zero is a limit: inside (-inf | 0, 0] lies the origin point only (pressure, loading), nothing of a positive column.
        # `limits_class` is set only for the PREDICTED outcome of finding S60-C03 (every given limit falsy AND the whole branch returned);
        # any other wrong selection under the same clause stays a violation.
        z_es = [float(x) for x in z.data_raw["enthalpy"]][:len(zp)]
        for lim in ((None, 0), (0, 0), (0.0, 0.0), (None, 0.0), (rng.choice([None, 0, np.float64(0.0)]), rng.choice([np.float64(0.0), np.int64(0), -0.0]))):
            for acc, call, vals in (("pressure", lambda kw: z.pressure(branch="ads", limits=lim, **kw), zp),
                                    ("loading", lambda kw: z.loading(branch="ads", limits=lim, **kw), zl),
                                    ("other_data", lambda kw: z.other_data("enthalpy", branch="ads", limits=lim), z_es)):
                for kw_ in ({},) if acc == "other_data" else ({}, pkw if acc == "pressure" else olkw):
                    conv = vals if not kw_ else (zc_p if acc == "pressure" else zc_l)
                    exp = [v for v in conv if (lim[0] is None or v >= lim[0]) and v <= lim[1]]
                    ck.count(("zero-upper-limit", acc, repr(lim), bool(kw_)), bucket="limits: upper limit zero")
                    try:
                        got = fl(call(kw_))
                    except Exception as e:  # noqa
                        got = repr(e)[:160]
                    if isinstance(got, str) or not vals_eq(got, exp, 1e-10):
                        sig = {"accessor": "PointIsotherm." + acc, "clause": "limits select exactly the stored points inside them"}
                        if not any(lim) and not isinstance(got, str) and vals_eq(got, conv, 1e-10):
                            sig["limits_class"] = "upper limit is zero (all limits falsy)"
                        ck.fail_case(sig, {"limits": [repr(x) for x in lim], "units": "requested" if kw_ else "stored", "got": got, "expected": exp, "branch_values": conv[:4]})
        ask(" ".join(["colP", tok([frac(x) for x in zp + [ps[i] for i in d_rows]]), mtok(zmarks), "ads", "~", "~", tok(0), tok(zp[2])]),
            ("vals", lambda: z.pressure(branch="ads", limits=(0, zp[2]))), {"accessor": "pressure column", "limits": "(0, stored value), first point at zero"})
        for q in (0.0, pa[0] / 2):
            ask(" ".join(["il", tok([frac(x) for x in zp]), tok([frac(x) for x in zl]), qstr(q)]), ("val", lambda q=q: z.loading_at(q)), {"accessor": "loading_at", "query": q, "first point": "origin"})

    def build_model_state():
        name, tk, tu = temp_spec()
        route = rng.choice(["constructed", "convert_temperature"])
        st = (rng.choice(PST), rng.choice(LST), rng.choice(MST))
        other = "K" if tu != "K" else "°C"
        tu0 = tu if route == "constructed" else other
        lab0 = [st[0][0], st[0][1], st[1][0], st[1][1], st[2][0], st[2][1], tu0]
        # DR / DA are defined on relative pressures below 1 only and stay out of this generator of arbitrary representations; that their RT term
        # comes from the temperature in kelvin whatever unit it is stored in (finding S43, repaired in the repository: `ModelIsotherm.__init__`
        # used to hand the raw stored number to `model.__init_parameters__`) is checked by `dr_da_celsius` below
        mname = rng.choice(["Langmuir", "Henry", "Henry", "Toth", "DSLangmuir", "Virial"])
        par = sample_params(mname, rng)
        m = make(pg, mname, par)
        sc = 100.0 if lab0[0] == "relative%" else 1.0
        if mname == "Virial":
            l0, l1 = rng.uniform(0.02, 0.2), rng.uniform(0.8, 2.0)
            m.loading_range = (l0, l1)
            m.pressure_range = (float(m.pressure(np.float64(l0))), float(m.pressure(np.float64(l1))))
        else:
            p0, p1 = rng.uniform(0.01, 0.1) * sc, rng.uniform(0.5, 0.95) * sc
            m.pressure_range = (p0, p1)
            m.loading_range = (float(m.loading(np.float64(p0))), float(m.loading(np.float64(p1))))
        own = "des" if rng.random() < 0.25 else "ads"
        miso = pg.ModelIsotherm(model=m, branch=own, material="pgv_mat", adsorbate=name, temperature=temp_value(tk, tu0),
                                pressure_mode=lab0[0], pressure_unit=lab0[1], loading_basis=lab0[2], loading_unit=lab0[3],
                                material_basis=lab0[4], material_unit=lab0[5], temperature_unit=tu0)
        if route == "convert_temperature":
            miso.convert_temperature(rng.choice(CELSIUS) if tu != "K" else "K")
        w = world_at(name, 77.0 if name == "pgv_stub" else kelvin_of(miso))
        return miso, w, route, mname, par, own

    def probe_model(miso, w, route, mname, par, own, ci):
        P = w.props
        lab = c02.labels_of(miso)
        m = miso.model
        rq_p, rq_l, rq_m = pick_request(rng, lab, PST, LST, MST)
        stored_frac, req_frac = lab[2] in FRAC, rq_l[0] in FRAC
        if stored_frac:
            rq_m = (lab[4], lab[5])                  # (stored fraction + material change is finding S5d/S5e)
        mat_changes = (rq_m[0], rq_m[1]) != (lab[4], lab[5])
        base_sig = {"stored": [str(x) for x in lab[:6]], "requested": [str(x) for x in (rq_p + rq_l + rq_m)], "temperature_unit": str(lab[6]),
                    "stored_temperature": float(miso._temperature), "state": route, "adsorbate": w.name, "model": mname, "model_branch": own}
        fsig = {"stored_fraction": stored_frac, "requested_fraction": req_frac, "material_changes": mat_changes}
        pkw = dict(pressure_mode=rq_p[0], pressure_unit=rq_p[1])
        lkw = dict(loading_basis=rq_l[0], loading_unit=rq_l[1], material_basis=rq_m[0], material_unit=rq_m[1])
        state_lines(w, miso)
        ck.count(("model-state", route, mname, str(lab[6]), tuple(lab[:6]), rq_p, rq_l, rq_m), bucket="state:model:" + str(lab[6]))
        npts = rng.randint(3, 12)
        if mname == "Virial":
            nl = [float(x) for x in np.linspace(m.loading_range[0], m.loading_range[1], npts)]
            npr = [float(m.pressure(np.float64(x))) for x in nl]
        else:
            npr = [float(x) for x in np.linspace(m.pressure_range[0], m.pressure_range[1], npts)]
            nl = [float(m.loading(np.float64(x))) for x in npr]
        exp_p = [expected_pressure(P, lab, rq_p, v) for v in npr]
        exp_l = [expected_loading(P, lab, rq_l, rq_m, v) for v in nl]
        other_b = "des" if own == "ads" else "ads"
        for what, exp, kw in (("pressure", exp_p, pkw), ("loading", exp_l, lkw)):
            lim0 = mid_limits(exp)
            limz = None if lim0 is None else (rng.choice([0, 0.0, np.float64(0.0)]), lim0[1])     # a lower limit of zero is a limit (all values are positive)
            for branch, lim in ((None, None), (own, None), (None, lim0), (own, lim0), (own, limz)):
                e = [x for x in exp if lim is None or (lim[0] < x < lim[1])]
                try:
                    got = [float(x) for x in getattr(miso, what)(points=npts, branch=branch, limits=lim, **kw)]
                    ok = vals_eq(got, e, 1e-9)
                except Exception as ex:  # noqa
                    got, ok = repr(ex), False
                ck.count(("model." + what + "()", mname, str(lab[6]), tuple(lab[:6]), rq_p, rq_l, rq_m, branch, lim is None), bucket="accessor:model." + what)
                if not ok:
                    ck.fail_case({**base_sig, **(fsig if what == "loading" else {}), "accessor": "ModelIsotherm." + what,
                                  "clause": "model points re-expressed in the requested units, strictly inside the limits"},
                                 {"points": npts, "branch": branch, "limits": lim, "got": str(got)[:300], "expected": [float(x) for x in e][:5]})
            # an upper limit of zero is a limit: no (positive) model point lies strictly below zero (finding S60-C03: taken for "no limits")
            for lim in ((None, 0), (0, 0), (0.0, 0.0), (None, 0.0)):
                ck.count(("model-zero-upper-limit", what, repr(lim)), bucket="limits: upper limit zero")
                try:
                    got = [float(x) for x in getattr(miso, what)(points=npts, branch=own, limits=lim, **kw)]
                except Exception as ex:  # noqa
                    got = repr(ex)[:160]
                e0 = [x for x in exp if (lim[0] is None or lim[0] < x) and x < lim[1]]
                if isinstance(got, str) or not vals_eq(got, e0, 1e-9):
                    sig = {"accessor": "ModelIsotherm." + what, "clause": "limits select exactly the stored points inside them"}
                    if not any(lim) and not isinstance(got, str) and vals_eq(got, exp, 1e-9):
                        sig["limits_class"] = "upper limit is zero (all limits falsy)"
                    ck.fail_case(sig, {"limits": [repr(x) for x in lim], "points": npts, "got": got[:6] if not isinstance(got, str) else got, "expected": [float(x) for x in e0]})
            try:
                getattr(miso, what)(points=npts, branch=other_b, **kw)
                ck.fail_case({**base_sig, "accessor": "ModelIsotherm." + what, "clause": "a branch the model was not fitted on is refused"}, {"branch": other_b})
            except ParameterError:
                pass
            except Exception as ex:  # noqa
                ck.fail_case({**base_sig, "accessor": "ModelIsotherm." + what, "clause": "a branch the model was not fitted on is refused"}, {"branch": other_b, "raised": repr(ex)[:200]})
        for b in (own, other_b, None, "all"):
            hb = miso.has_branch(b)
            ck.count(("model.has_branch", own, b), bucket="accessor:has_branch")
            if bool(hb) != (b == own):
                ck.fail_case({"accessor": "ModelIsotherm.has_branch", "clause": "true exactly for the branch the model was fitted on"}, {"own": own, "asked": b, "got": hb})
            ask(" ".join(["mhb", own, tok(b)]), ("bool", lambda b=b: miso.has_branch(b)), {"accessor": "model.has_branch", "branch": b})
        # evaluated / inverted at a point, foreign units (the same oracles as above, now in every temperature state)
        pn, bare = npr[len(npr) // 2], nl[len(nl) // 2]
        qf = float(expected_pressure(P, lab, rq_p, pn))
        try:
            got = float(miso.loading_at(qf, **pkw, **lkw))
            exp = expected_loading(P, lab, rq_l, rq_m, bare)
            ok = close(got, exp, rel=1e-7 if mname == "Virial" else 1e-9)
        except Exception as ex:  # noqa
            got, ok, exp = repr(ex), False, None
        ck.count(("state.model.loading_at", mname, str(lab[6]), tuple(lab[:6]), rq_p, rq_l, rq_m), bucket="accessor:model.loading_at")
        if not ok and mname != "Virial":
            ck.fail_case({**base_sig, **fsig, "accessor": "ModelIsotherm.loading_at", "clause": "bare model after unit conversion"}, {"got": str(got), "expected": float(exp) if exp is not None else None})
        # a query of exactly zero (falsy) is a query: these models pass through the origin, in every representation
        if mname != "Virial":
            q0 = rng.choice([0, 0.0, np.float64(0.0), np.int64(0)])
            res = {}
            calls = [("loading_at(0)", lambda: miso.loading_at(q0)), ("loading_at(0, requested units)", lambda: miso.loading_at(q0, **pkw, **lkw))]
            if mname in ("Langmuir", "Henry", "Toth"):
                calls.append(("pressure_at(0)", lambda: miso.pressure_at(q0)))
                if rq_l[1] is not None:
                    calls.append(("pressure_at(0, requested units)", lambda: miso.pressure_at(q0, **lkw, **pkw)))
            for nm, th in calls:
                try:
                    res[nm] = float(np.asarray(th(), dtype=float).reshape(-1)[0])
                except Exception as ex:  # noqa
                    res[nm] = repr(ex)[:120]
            ck.count(("model-zero-query", mname, type(q0).__name__, tuple(lab[:6]), rq_p, rq_l, rq_m), bucket="zero query")
            if any(v != 0.0 for v in res.values()):
                ck.fail_case({**base_sig, "accessor": "ModelIsotherm.loading_at / pressure_at", "clause": "bare model after unit conversion (query of exactly zero)"},
                             {"query": repr(q0), "got": res, "expected": 0.0})
        if rq_l[1] is not None and mname in ("Langmuir", "Henry", "Toth", "Virial"):
            lf = float(expected_loading(P, lab, rq_l, rq_m, bare))
            tol = inv_tolerance(m, bare, np)
            try:
                got = float(miso.pressure_at(lf, **lkw, **pkw))
                if tol is None:
                    exp, ok = None, True
                else:
                    exp = expected_pressure(P, lab, rq_p, float(m.pressure(np.float64(bare))))
                    ok = close(got, exp, rel=tol)
            except Exception as ex:  # noqa
                got, ok, exp = repr(ex), tol is None, None
            ck.count(("state.model.pressure_at", mname, str(lab[6]), tuple(lab[:6]), rq_p, rq_l, rq_m), bucket="accessor:model.pressure_at")
            if not ok:
                ck.fail_case({**base_sig, **fsig, "accessor": "ModelIsotherm.pressure_at", "clause": "bare model after unit conversion"}, {"got": str(got), "expected": float(exp) if exp is not None else None})
        # the reading layer on a model isotherm (60 points, reversed for a desorption model)
        if mname != "Virial":
            p60 = [float(x) for x in np.linspace(m.pressure_range[0], m.pressure_range[1], 60)]
            e_p = [expected_pressure(P, lab, rq_p, v) for v in p60]
            e_l = [expected_loading(P, lab, rq_l, rq_m, float(m.loading(np.float64(v)))) for v in p60]
            if own == "des":
                e_p, e_l = e_p[::-1], e_l[::-1]
            try:
                gp, gl = get_iso_loading_and_pressure_ordered(miso, own, lkw, pkw)
                ok = vals_eq([float(x) for x in gp], e_p, 1e-9) and vals_eq([float(x) for x in gl], e_l, 1e-9)
                got = [[float(x) for x in gp][:3], [float(x) for x in gl][:3]]
            except Exception as ex:  # noqa
                got, ok = repr(ex), False
            ck.count(("ordered-model", own, mname, tuple(lab[:6]), rq_p, rq_l, rq_m), bucket="accessor:ordered_read")
            if not ok:
                ck.fail_case({**base_sig, **fsig, "accessor": "get_iso_loading_and_pressure_ordered", "clause": "both columns in the requested units, rows paired, desorption reversed"},
                             {"got": str(got)[:300], "expected": [[float(x) for x in e_p[:3]], [float(x) for x in e_l[:3]]]})
        # ---- Lean model of the columns (models that calculate loading)
        if mname != "Virial":
            for branch in (None, own, "all", other_b):
                lim = mid_limits(exp_p) if rng.random() < 0.6 else None
                ask(" ".join(["mP", qstr(m.pressure_range[0]), qstr(m.pressure_range[1]), str(npts), own, tok(branch), tok(rq_p[0]), tok(rq_p[1])] + lim_tok(lim)),
                    ("vals", lambda branch=branch, lim=lim: miso.pressure(points=npts, branch=branch, limits=lim, **pkw)),
                    {**base_sig, "accessor": "model.pressure column", "branch": branch, "limits": lim})
        if mname == "Henry":
            K = float(par["K"])
            for branch in (None, own, "all"):
                lim = mid_limits(exp_l) if rng.random() < 0.6 else None
                ask(" ".join(["mL", qstr(K), qstr(m.pressure_range[0]), qstr(m.pressure_range[1]), str(npts), own, tok(branch)] + [tok(x) for x in rq_l + rq_m] + lim_tok(lim)),
                    ("vals", lambda branch=branch, lim=lim: miso.loading(points=npts, branch=branch, limits=lim, **lkw)),
                    {**base_sig, "accessor": "model.loading column", "branch": branch, "limits": lim})
            # input / output conversions of the model class, observed through the straight line n = K p
            argsets = [(rq_p[0], rq_p[1])]
            if rng.random() < 0.5:
                argsets.append((rng.choice([None, "", "bogus", rq_p[0], "absolute"]), rng.choice([None, "", "bogus", rq_p[1], "kPa"])))
            for pm_, pu_ in argsets:
                ask(" ".join(["iP", qstr(qf), tok(pm_), tok(pu_)]), ("val", lambda pm_=pm_, pu_=pu_: miso.loading_at(qf, pressure_mode=pm_, pressure_unit=pu_) / K),
                    {**base_sig, "accessor": "model.loading_at-input", "args": [str(pm_), str(pu_)]})
                ask(" ".join(["oPM", qstr(pn), tok(pm_), tok(pu_)]), ("val", lambda pm_=pm_, pu_=pu_: miso.pressure_at(K * pn, pressure_mode=pm_, pressure_unit=pu_)),
                    {**base_sig, "accessor": "model.pressure_at-output", "args": [str(pm_), str(pu_)]})
            lfq = float(expected_loading(P, lab, rq_l, rq_m, bare))
            ask(" ".join(["mlat", qstr(K), qstr(qf)] + [tok(x) for x in rq_p + rq_l + rq_m]), ("val", lambda: miso.loading_at(qf, **pkw, **lkw)), {**base_sig, "accessor": "model.loading_at (whole)"})
            ask(" ".join(["mpat", qstr(K), qstr(lfq)] + [tok(x) for x in rq_l + rq_m + rq_p]), ("val", lambda: miso.pressure_at(lfq, **lkw, **pkw)), {**base_sig, "accessor": "model.pressure_at (whole)"})
            largs = [rq_l + rq_m]
            if rng.random() < 0.5:
                largs.append((rng.choice([None, "", "bogus", rq_l[0]]), rng.choice([None, "", "bogus", rq_l[1], "g"]), rng.choice([None, "", "bogus", rq_m[0]]), rng.choice([None, "", "bogus", rq_m[1], "kg"])))
            for la4 in largs:
                ask(" ".join(["iL", "T", qstr(lfq)] + [tok(x) for x in la4]),
                    ("val", lambda la4=la4: miso.pressure_at(lfq, loading_basis=la4[0], loading_unit=la4[1], material_basis=la4[2], material_unit=la4[3]) * K),
                    {**base_sig, "accessor": "model.pressure_at-input", "args": [str(x) for x in la4]})

    # ------------------------------------------------------------------ (9) limits on NON-ASCENDING selections; isotherms that were built from ONE table
    # Limit selection against the accessor's OWN whole selection: `acc(branch, limits=(lo, hi), units)` must be exactly the members x of
    # `acc(branch, units)` (no limits: the values are tied to the SI oracle in (1)) with lo <= x <= hi, in the same order -- the same floats, so the
    # comparison is exact, in stored and in requested units, with bounds ON values and between values, one-sided and two-sided, for the ascending
    # adsorption branch, the DESCENDING desorption branch and the whole hysteresis data set (up, then down), and for supplementary columns that are
    # not monotonic at all.  (A selection that is not by value -- bisection, first/last crossing, positions of a sorted copy -- differs here.)
    reported = {}

    def few(key, cap=6):
        """at most `cap` replay files per kind of failure (every fail_case writes a file)"""
        reported[key] = reported.get(key, 0) + 1
        return reported[key] <= cap

    def limit_sets(vals):
        u = sorted(set(vals))
        out = []
        if len(u) >= 2:
            i = rng.randrange(0, len(u) - 1)
            j = rng.randrange(i, len(u) - 1)
            out += [((u[i] + u[i + 1]) / 2, None), (None, (u[j] + u[j + 1]) / 2), ((u[i] + u[i + 1]) / 2, (u[j] + u[j + 1]) / 2 if j > i else u[-1] * 2 if u[-1] > 0 else None)]
        a, b = sorted((rng.choice(u), rng.choice(u)))
        out += [(a, b), (a, None), (None, b)]
        # all-falsy limits are finding S60-C03 (generated in (8)); a bound of exactly zero next to a real one is fine, the values here are positive anyway
        return [lim for lim in out if (lim[0] or lim[1]) and not (lim[0] is not None and lim[1] is not None and lim[0] > lim[1])]

    def inside(vals, lim):
        return [x for x in vals if (lim[0] is None or x >= lim[0]) and (lim[1] is None or x <= lim[1])]

    def probe_limits(iso, sig, kws, others=()):
        """kws: [(name of the unit set, pressure kwargs, loading kwargs)]"""
        for branch in (None, "ads", "des"):
            calls = []
            for uname, pkw_, lkw_ in kws:
                calls.append(("pressure", uname, lambda lim, indexed=False, pkw_=pkw_, branch=branch: iso.pressure(branch=branch, limits=lim, indexed=indexed, **pkw_)))
                calls.append(("loading", uname, lambda lim, indexed=False, lkw_=lkw_, branch=branch: iso.loading(branch=branch, limits=lim, indexed=indexed, **lkw_)))
            for key in others:
                calls.append(("other_data", "stored", lambda lim, indexed=False, key=key, branch=branch: iso.other_data(key, branch=branch, limits=lim, indexed=indexed)))
            for acc, uname, call in calls:
                try:
                    whole = [float(x) for x in call(None)]
                    labels = list(call(None, indexed=True).index)
                except Exception:  # noqa   (a refused whole-column request is reported by (1) / (2))
                    continue
                if not whole or not all(map(math.isfinite, whole)):
                    continue
                for lim in limit_sets(whole):
                    exp = inside(whole, lim)
                    exp_lab = [lb for lb, x in zip(labels, whole) if (lim[0] is None or x >= lim[0]) and (lim[1] is None or x <= lim[1])]
                    try:
                        got = [float(x) for x in call(lim)]
                        got_lab = list(call(lim, indexed=True).index)
                    except Exception as e:  # noqa
                        got, got_lab = repr(e), None
                    ck.count(("order-limits", acc, uname, branch, lim[0] is None, lim[1] is None, len(exp) == len(whole), len(exp) == 0), bucket="limits: non-ascending selections")
                    if (got != exp or got_lab != exp_lab) and few(("limits", acc, uname, branch, sig.get("state"))):
                        ck.fail_case({**{k: v for k, v in sig.items() if k not in ("stored", "adsorbate", "table")}, "accessor": "PointIsotherm." + acc,
                                      "clause": "limits select exactly the stored points of the branch inside them, in measurement order", "branch": str(branch), "units": uname},
                                     {"isotherm": {k: v for k, v in sig.items() if k in ("stored", "adsorbate", "table")}, "limits": list(lim), "whole_selection": whole, "got": got, "expected": exp, "got_row_labels": str(got_lab), "expected_row_labels": str(exp_lab)})

    # Two isotherms (and the caller) that hold ONE table: DataFrames in every column layout -- among them the INTERNAL one (pressure key, loading key,
    # 'branch', other keys sorted: what `iso.data()` / `iso.data_raw` of another isotherm have) -- are handed to the constructor twice; one of the
    # isotherms is then converted permanently.  The other isotherm, and the caller's table, must be what they were: stored numbers, every accessor in
    # stored and in requested units (SI oracle on the ORIGINAL numbers; = the converted one read natively), interpolation at the measured points.
    def frame_layouts(keys, extra):
        pk, lk = keys
        return {"internal": [pk, lk, "branch"] + sorted(extra), "internal, no other columns": [pk, lk, "branch"], "branch last": [pk, lk] + sorted(extra) + ["branch"],
                "others first": sorted(extra, reverse=True) + ["branch", lk, pk], "no branch column": [pk, lk] + sorted(extra)}

    def probe_shared_table(ci):
        w = worlds[0] if rng.random() < 0.7 else worlds[1]
        P = w.props
        st = (rng.choice(PST), rng.choice(LST), rng.choice(MST))
        lab = [st[0][0], st[0][1], st[1][0], st[1][1], st[2][0], st[2][1], "K"]
        n, nd = rng.randint(5, 8), rng.randint(3, 7)
        up = sorted(rng.uniform(0.02, 0.95) for _ in range(n))
        ps = up + sorted((rng.uniform(up[0] * 0.5, up[-1] * 0.99) for _ in range(nd)), reverse=True)
        la = list(np.cumsum([rng.uniform(0.1, 1.0) for _ in range(n)]))
        ls = la + sorted((rng.uniform(la[0] * 0.5, la[-1] * 0.99) for _ in range(nd)), reverse=True)
        ps, ls = [float(x) for x in ps], [float(x) for x in ls]
        if len(set(ps)) < n + nd or len(set(ls)) < n + nd:
            return
        marks = [0] * n + [1] * nd
        keys = rng.choice([("pressure", "loading"), ("P", "L"), ("p_rel", "uptake")])
        extra = {"enthalpy": [round(rng.uniform(1.0, 9.0), 6) for _ in range(n + nd)], "zeta": [float(i % 3) + 0.5 for i in range(n + nd)]}
        layout = rng.choice(["internal", "internal", "internal, no other columns", "branch last", "others first", "no branch column", "data() of an isotherm", "data_raw of an isotherm"])
        cols = {keys[0]: ps, keys[1]: ls, "branch": marks, **extra}
        common = dict(pressure_key=keys[0], loading_key=keys[1], material=w.mat.name, adsorbate=w.ads.name, temperature=w.temp, pressure_mode=lab[0], pressure_unit=lab[1],
                      loading_basis=lab[2], loading_unit=lab[3], material_basis=lab[4], material_unit=lab[5], temperature_unit="K")
        if layout.endswith("of an isotherm"):
            first = pg.PointIsotherm(isotherm_data=pd.DataFrame({k: cols[k] for k in [keys[1], "zeta", keys[0], "enthalpy"]}), branch=list(marks), **common)
            table = first.data() if layout.startswith("data()") else first.data_raw
            others = ["enthalpy", "zeta"]
        else:
            order = frame_layouts(keys, extra)[layout]
            table = pd.DataFrame({k: cols[k] for k in order})
            others = [k for k in order if k in extra]
        bkw = {} if "branch" in table.columns else {"branch": list(marks)}
        before = table.copy(deep=True)
        sig = {"stored": [str(x) for x in lab[:6]], "table": layout, "state": "two isotherms built from one table"}
        iso_a = pg.PointIsotherm(isotherm_data=table, **bkw, **common)
        iso_b = pg.PointIsotherm(isotherm_data=table, **bkw, **common)
        ck.count(("shared-table", layout, keys, tuple(lab[:6])), bucket="shared table: " + layout)
        # limits on this longer hysteresis loop (stored units) before anything is converted; the extra columns are not monotonic
        probe_limits(iso_a, sig, [("stored", {}, {})], others=others)
        if rng.random() < 0.5:                       # interpolators of both cached before the conversion
            for z in (iso_a, iso_b):
                try:
                    z.loading_at(ps[1]), z.pressure_at(ls[1])
                except Exception:  # noqa
                    pass
        k = rng.random()
        op = ("P", rng.choice([x for x in PST if x != st[0]])) if k < 0.35 else ("L", rng.choice([x for x in LST if x != st[1]])) if k < 0.6 else \
            ("M", rng.choice([x for x in MST if x != st[2]])) if k < 0.75 else ("A", rng.choice(PST) + rng.choice(LST) + rng.choice(MST))
        try:
            c02.apply_op(iso_b, op[0], op[1])
        except Exception as e:  # noqa   (a refused conversion is C02's business; the table must still be the caller's)
            ck.notes.append("shared table: conversion refused: " + repr(e)[:120])
        sig["converted_other"] = op[0]
        labb = c02.labels_of(iso_b)

        def report(clause, detail, acc="PointIsotherm.__init__", **more):
            if not few((acc, clause, sig["table"], more.get("units")), cap=4):
                return
            ck.fail_case({**{k: v for k, v in sig.items() if k != "stored"}, "accessor": acc, "clause": clause, **more},
                         {"stored": sig["stored"], "pressure": ps, "loading": ls, "branch_marks": marks, "keys": list(keys),
                          "conversion_of_the_other_isotherm": [op[0], [str(x) for x in op[1]]], **detail})
        # the caller's table
        same = list(table.columns) == list(before.columns) and list(table.index) == list(before.index) and all(
            list(table[c]) == list(before[c]) for c in before.columns)
        if not same:
            bad = [c for c in before.columns if c not in table.columns or list(table[c]) != list(before[c])]
            report("the caller's table is unchanged by a permanent conversion of an isotherm built from it",
                   {"columns_changed": bad, "before": [float(x) for x in before[bad[0]]][:4] if bad else None, "after": [float(x) for x in table[bad[0]]][:4] if bad and bad[0] in table.columns else None})
        # the other isotherm: labels, stored numbers, accessors
        if c02.labels_of(iso_a)[:6] != lab[:6]:
            report("labels of the isotherm that was not converted", {"labels": [str(x) for x in c02.labels_of(iso_a)]})
        idx = {None: list(range(n + nd)), "ads": list(range(n)), "des": list(range(n, n + nd))}
        rq_p, rq_l, rq_m = (labb[0], labb[1]), (labb[2], labb[3]), (labb[4], labb[5])
        pkw_ = dict(pressure_mode=rq_p[0], pressure_unit=rq_p[1])
        lkw_ = dict(loading_basis=rq_l[0], loading_unit=rq_l[1], material_basis=rq_m[0], material_unit=rq_m[1])
        fs = {"stored_fraction": lab[2] in FRAC, "requested_fraction": rq_l[0] in FRAC, "material_changes": rq_m != (lab[4], lab[5])}
        for branch in (None, "ads", "des"):
            for acc, vals, kw, expf in (("pressure", ps, pkw_, lambda v: expected_pressure(P, lab, rq_p, v)), ("loading", ls, lkw_, lambda v: expected_loading(P, lab, rq_l, rq_m, v))):
                exp0 = [vals[i] for i in idx[branch]]
                try:
                    got = [float(x) for x in getattr(iso_a, acc)(branch=branch)]
                except Exception as e:  # noqa
                    got = repr(e)
                ck.count(("shared-table", acc, branch, op[0]), bucket="shared table: accessors of the other isotherm")
                if got != exp0:
                    report("the accessors of an isotherm return its stored points whatever happens to another isotherm built from the same table",
                           {"branch": branch, "got": got if isinstance(got, str) else got[:5], "stored_at_construction": exp0[:5]}, acc="PointIsotherm." + acc, units="stored")
                try:
                    exp = [expf(v) for v in exp0]
                    native_b = [float(x) for x in getattr(iso_b, acc)(branch=branch)]
                    got = [float(x) for x in getattr(iso_a, acc)(branch=branch, **kw)]
                except Exception as e:  # noqa
                    got, exp, native_b = repr(e), None, None
                if exp is None:
                    if "ParameterError" not in got and "CalculationError" not in got:
                        report("accessor = permanent conversion of a copy, read natively", {"branch": branch, "got": got}, acc="PointIsotherm." + acc, units="requested", **(fs if acc == "loading" else {}))
                    continue
                if not (vals_eq(got, exp, 1e-10) and vals_eq(native_b, exp, 1e-9)):
                    report("accessor = permanent conversion of a copy, read natively (the copy: a second isotherm built from the same table)",
                           {"branch": branch, "got": got[:5], "converted_one_read_natively": native_b[:5], "SI_oracle": [float(x) for x in exp][:5]},
                           acc="PointIsotherm." + acc, units="requested", **(fs if acc == "loading" else {}))
        try:
            got = [float(iso_a.loading_at(p)) for p in ps[:n]]
            ok = vals_eq(got, ls[:n], 1e-12)
        except Exception as e:  # noqa
            got, ok = repr(e), False
        if not ok:
            report("interpolated values coincide with the data at measured points", {"got": got if isinstance(got, str) else got[:5], "measured": ls[:5]}, acc="PointIsotherm.loading_at")
        # limits in the units of the converted one, on the unconverted and on the converted isotherm (descending branch, hysteresis loop)
        probe_limits(iso_a, sig, [("requested", pkw_, lkw_)])
        probe_limits(iso_b, {**sig, "state": "the converted one of two isotherms built from one table"}, [("stored", {}, {})], others=others)

    for ci in range(ck.n(40, 260)):
        probe_shared_table(ci)

    for ci in range(ck.n(45, 320)):
        try:
            iso, w, route, hist = build_point_state()
        except Exception as e:  # noqa   (a refused conversion inside the history: C02's business)
            ck.notes.append("state generator: history refused: " + repr(e)[:160])
            continue
        if complete(w):
            probe_point(iso, w, route, hist, ci)
            rq = pick_request(rng, c02.labels_of(iso), PST, LST, MST)
            probe_limits(iso, {"state": route, "stored": [str(x) for x in c02.labels_of(iso)[:6]], "adsorbate": w.name},
                         [("stored", {}, {}), ("requested", dict(pressure_mode=rq[0][0], pressure_unit=rq[0][1]),
                                               dict(loading_basis=rq[1][0], loading_unit=rq[1][1], material_basis=rq[2][0], material_unit=rq[2][1]))], others=("enthalpy",))
    for ci in range(ck.n(30, 220)):
        miso, w, route, mname, par, own = build_model_state()
        if complete(w):
            probe_model(miso, w, route, mname, par, own, ci)

    # ------------------------------------------------------------------ find_limit_indices: positions of the points inside the limits
    for _ in range(ck.n(60, 400)):
        nx = rng.randint(0, 12)
        xs = sorted(round(rng.uniform(0.1, 10.0), 1) for _ in range(nx))
        def pick_lim():
            r = rng.random()
            if r < 0.2 or not xs:
                return rng.choice([None, 0, 0.05, 20.0])
            if r < 0.45:
                return rng.choice(xs)                       # on a stored value
            return round(rng.uniform(0.0, 11.0), 3) + 0.00037   # generic: never on a stored value
        limits = None if rng.random() < 0.15 else (pick_lim(), pick_lim())
        sm = rng.choice([3, 3, 0, 1, 5])
        try:
            got = tuple(int(v) for v in find_limit_indices(np.array(xs, dtype=float), limits, sm))
        except CalculationError:
            got = "refused"
        except Exception as e:  # noqa
            got = repr(e)
        ck.count(("find_limit_indices", tuple(xs), limits, sm), bucket="find_limit_indices")
        lo, hi = limits if limits is not None else (None, None)
        ask(" ".join(["fli", tok([frac(x) for x in xs])] + lim_tok(limits) + [str(sm)]), ("ints", lambda xs=xs, limits=limits, sm=sm: find_limit_indices(np.array(xs, dtype=float), limits, sm)),
            {"accessor": "find_limit_indices", "array": xs, "limits": limits, "smallest": sm})
        generic = all(v is None or v not in xs for v in (lo, hi))
        if generic:
            inside = [k for k, x in enumerate(xs) if (not lo or x >= lo) and (not hi or x < hi)]
            must_refuse = (len(inside) - 1 < sm) if inside else True
            if isinstance(got, tuple):
                okf = (not must_refuse) and list(range(got[0], got[1] + 1)) == inside
            else:
                okf = got == "refused" and must_refuse
            if not okf:
                ck.fail_case({"accessor": "find_limit_indices", "clause": "the positions delimit exactly the points inside the limits"},
                             {"array": xs, "limits": limits, "smallest": sm, "got": got, "inside": inside})

    # ------------------------------------------------------------------ branch guessing: depends on the pressures only
    seqs = [[1, 2, 3, 2, 1], [5, 4, 3, 2, 1], [1, 2, 3, 4], [1, 3, 3, 2], [2, 2, 2], [1], [3, 1, 2, 5, 4], [1, 2, 5, 5, 1]]
    for _ in range(ck.n(15, 60)):
        k = rng.randint(1, 9)
        seqs.append([round(rng.uniform(0, 5), 2) for _ in range(k)])
    from pygaps.utilities.math_utilities import split_ads_data
    for sq in seqs:
        n = len(sq)
        labelings = [None, list(range(3, 3 + n)), list(range(1, n + 1)), [f"r{i}" for i in range(n)], list(reversed(range(n))), [7] * n if n > 1 else [0]]
        dtypes = [float, "float32", int if all(float(x).is_integer() for x in sq) else float, object]
        res = []
        for lb_, dt in itertools.product(labelings, dtypes):
            df = pd.DataFrame({"p": pd.Series(sq, dtype=dt), "l": range(n)})
            if lb_ is not None:
                df.index = lb_
            try:
                res.append((str(lb_)[:20], str(dt), [int(x) for x in split_ads_data(df, "p")]))
            except Exception as e:  # noqa
                res.append((str(lb_)[:20], str(dt), "EXC:" + type(e).__name__))
        ck.count(("split", tuple(sq)), bucket="split")
        ask("split " + tok([frac(x) for x in sq]), ("list", lambda res=res: res[0][2]), {"accessor": "split_ads_data", "pressures": sq})
        outs = {str(r[2]) for r in res}
        if len(outs) != 1:
            ck.fail_case({"accessor": "split_ads_data", "clause": "depends only on the sequence of pressures"}, {"pressures": sq, "results": [list(r) for r in res if str(r[2]) != str(res[0][2])][:3], "default": res[0][2]})
        # the rule itself: split at the first maximum
        if isinstance(res[0][2], list):
            m = sq.index(max(sq)) + 1
            exp = [0] * n if m == n else ([1] * n if m == 1 else [0] * m + [1] * (n - m))
            if res[0][2] != exp:
                ck.fail_case({"accessor": "split_ads_data", "clause": "split at the pressure maximum"}, {"pressures": sq, "got": res[0][2], "expected": exp})

    # ------------------------------------------------------------------ correspondence with the Lean model
    try:
        replies = ck.drive("Access", lines)
    except Exception as e:
        replies = None
        ck.broken.append({"step": "driver Access", "what": str(e)[:600]})
    n_dis = 0
    if replies:
        for pl, rep in zip(plan, replies):
            if pl is None:
                continue
            (kind, thunk), sig, line = pl
            if kind == "none":
                continue
            try:
                val = thunk()
                got = ("ok", val)
            except Exception as e:  # noqa
                got = ("err", err_class(e))
            r = rep.split()
            ck.count(("corr", line), nontrivial=False, bucket="correspondence:" + (r[0] if r[0] != "err" else "err:" + r[1]))
            if r[0] == "err":
                agree = got[0] == "err" and ERRMAP.get(r[1], r[1]) == got[1]
            elif r[0] == "none":            # interpLin: outside the measured range
                agree = got[0] == "err" and got[1] == "other:ValueError"
            elif r[0] != "ok" or got[0] != "ok":
                agree = False
            elif kind == "list":
                agree = str(got[1]).replace(" ", "").replace(",", ";") == r[1]
            elif kind == "ints":
                agree = "[" + ";".join(str(int(v)) for v in got[1]) + "]" == r[1]
            elif kind == "bool":
                agree = (r[1] == "T") == bool(got[1])
            elif kind == "vals":
                mv = [Fr(x) for x in r[1].strip("[]").split(";") if x]
                gv = [float(x) for x in got[1]]
                agree = len(mv) == len(gv) and all(close(g, e, rel=1e-9) for g, e in zip(gv, mv))
            else:
                agree = close(float(got[1]), Fr(r[1]), rel=1e-9)
            if not agree:
                n_dis += 1
                if n_dis <= (40 if os.environ.get("PGV_C03_DEBUG") else 3):
                    ck.broken.append({"step": "correspondence Model/Access.lean", "what": {"request": line, "model": rep[:120], "implementation": [got[0], str(got[1])[:80]], **(sig or {})}})
    ck.cov["correspondence_disagreements"] = n_dis
    # ------------------------------------------------------------------ DR / DA model isotherms stored in °C (finding S43)
    # "values ... model-evaluated at given points ... in any supported unit": the same model isotherm stored at T kelvin and at T-273.15 °C is the
    # same isotherm; a fit of the same data in either temperature unit returns the same parameters
    def dr_da_celsius():
        import numpy as np
        from pygaps.modelling import get_isotherm_model
        common = dict(material="pgv-synth", adsorbate="N2", pressure_mode="relative", loading_basis="molar", loading_unit="mmol", material_basis="mass", material_unit="g")
        for i in range(ck.n(6, 30)):
            name = rng.choice(["DR", "DA"])
            par = {"n_m": rng.uniform(1, 10), "e": rng.uniform(3000, 12000)}
            if name == "DA":
                par["m"] = rng.uniform(1.2, 3.0)
            tk = rng.uniform(70, 120)
            ck.count(("dr-da-celsius", name, i), bucket="DR/DA stored in °C")
            try:
                isos = []
                for t, u in ((tk, "K"), (tk - 273.15, "°C")):
                    m = get_isotherm_model(name, parameters={k: np.float64(v) for k, v in par.items()})
                    isos.append(pg.ModelIsotherm(model=m, temperature=t, temperature_unit=u, **common))
                ps = np.array(sorted(rng.uniform(0.01, 0.95) for _ in range(5)))
                a, b = np.asarray(isos[0].loading_at(ps), dtype=float), np.asarray(isos[1].loading_at(ps), dtype=float)
                if not np.allclose(a, b, rtol=1e-9, atol=0):
                    ck.fail_case({"clause": "model isotherm stored in °C evaluates differently from the same isotherm stored in K", "model": name, "path": "model instance"},
                                 {"params": par, "T_K": tk, "pressure": ps.tolist(), "kelvin": a.tolist(), "celsius": b.tolist()})
                    continue
                # (parameters at 10 %: a DA fit on five points is ill-conditioned along e ~ m, and the two kelvin temperatures differ in the last bit — the optimiser stops
                #  1.6e-3 apart in e (false alarm at boost 3, seed 2, after round 7); the defect class, the stored °C number taken for kelvin, moves e by a factor >= 1.27)
                fits = [pg.ModelIsotherm(pressure=ps, loading=a, model=name, temperature=t, temperature_unit=u, **common) for t, u in ((tk, "K"), (tk - 273.15, "°C"))]
                fa, fb = np.asarray(fits[0].loading_at(ps), dtype=float), np.asarray(fits[1].loading_at(ps), dtype=float)
                pa, pb = fits[0].model.params, fits[1].model.params
                if not (np.allclose(fa, fb, rtol=1e-6, atol=0) and all(abs(float(pa[k]) - float(pb[k])) <= 0.1 * abs(float(pa[k])) for k in pa)):
                    ck.fail_case({"clause": "model isotherm stored in °C evaluates differently from the same isotherm stored in K", "model": name, "path": "fit"},
                                 {"params": par, "T_K": tk, "pressure": ps.tolist(), "fit_kelvin": {k: float(v) for k, v in pa.items()}, "fit_celsius": {k: float(v) for k, v in pb.items()}})
            except pg.utilities.exceptions.CalculationError:
                ck.count(("dr-da-celsius-refused", name, i), nontrivial=False, bucket="DR/DA stored in °C: fit refused")
    dr_da_celsius()

    ck.cov["rule"] = ("seeded (stored representation x requested representation) pairs over the 10 x 27 x 19 space, stub and N2 adsorbates, two-branch data with extra columns: "
                      "pressure()/loading() per branch, limits (None, 0, equal-to-data), loading_at/pressure_at at knots / interior / outside / with fill, foreign-unit queries, "
                      "ModelIsotherm.loading_at/pressure_at on 4 closed-form models, malformed argument combinations; branch guessing on pressure sequences x 6 row labellings x 4 dtypes; "
                      "distinct = distinct (accessor, stored labels, requested representation, branch); "
                      "isotherm STATES: 11 real adsorbates (CoolProp) + stub at jittered temperatures, temperature stored in K or in degrees Celsius, reached by construction / "
                      "convert_temperature (every spelling) / histories of 1-3 permanent conversions with cached interpolators; point isotherms (5-9 adsorption, 0/2/3 desorption rows) and "
                      "model isotherms (Langmuir, Henry, Toth, DSLangmuir, Virial; ads or des); requests biased to pressure-mode changes (p0(T)) and volume-basis loading changes (densities at T); "
                      "per state: SI oracle at the kelvin temperature, permanent conversion of a clone read natively (same branch / limits / query), other_data, has_branch, ordered read, "
                      "ModelIsotherm.pressure/loading columns with strict limits and branch guard, call sequences (fill rule, interpolation kind) on one object; find_limit_indices on sorted arrays; "
                      "falsy option values: fill rules (number / pair) with zero in 8 Python and numpy types on loading_at / pressure_at (array and scalar queries, both branches, "
                      "stored and requested units, against the converted copy, call sequence zero rule / no rule / pair), spreading_pressure_at under the zero rule in 4 spellings, "
                      "a twin with the origin as first point (queries of exactly zero, limits (0, x) in stored and requested units), zero queries and zero lower limits on model isotherms; "
                      "Lean correspondence of every one of these (state accessors with the adsorbate tabulated at the exact kelvin temperature)")
    ck.assumptions += ["scipy.interpolate.interp1d for non-linear kinds (only 'coincides at knots' is claimed for them)",
                       "CoolProp values (saturation pressure, densities) enter as the constants returned by the real Adsorbate accessors at the kelvin temperature of the state",
                       "numpy.linspace / numpy.searchsorted (modelled by `linspace` / `searchLeft`, compared on every run)"]
