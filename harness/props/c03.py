"""C03 — data accessors in requested units agree with permanent conversion.

Lean: Props/C03.lean (accessor = read ∘ permanent conversion for every argument; branch/limit selection; split rule;
interpolation laws).  Tie: correspondence of Model/Access.lean (ℚ) with the real accessors of PointIsotherm and
ModelIsotherm, incl. malformed arguments.  Failing-input search: the property itself — every accessor result
against the stored numbers re-expressed with the independent SI tables of c01.py (= permanent conversion of a
copy, which C02 ties to the same tables), exact branch/limit selection, label-free split rule, interpolation laws.
"""
import itertools
import math
from fractions import Fraction as Fr

import c01
import c02
from pgv.core import close, err_class, frac, import_pygaps, qstr, tok
from pgv.models import make, sample_params

ERRMAP = c02.ERRMAP
FRAC = ("fraction", "percent")


def canon_l(P, lab_l, lab_m, v):
    """mol adsorbate per gram material represented by v under (loading rep, material rep)."""
    return frac(v) * P.scale_l(lab_l[0], lab_l[1], lab_m[0], lab_m[1]) / P.grams(lab_m[0], lab_m[1])


def expected_loading(P, stored, req_l, req_m, v):
    """v (stored under labels `stored`) re-expressed in (req_l | req_m)."""
    c = canon_l(P, (stored[2], stored[3]), (stored[4], stored[5]), v)
    return c * P.grams(req_m[0], req_m[1]) / P.scale_l(req_l[0], req_l[1], req_m[0], req_m[1])


def expected_pressure(P, stored, req, v):
    return frac(v) * P.scale_p(stored[0], stored[1]) / P.scale_p(req[0], req[1])


def run(ck):
    pg = import_pygaps()
    import numpy as np
    import pandas as pd
    from pygaps.utilities.exceptions import CalculationError, ParameterError
    rng = ck.rng
    thorough = ck.tier == "thorough"
    pg.Adsorbate("pgv_stub", store=True, molar_mass=28.5, saturation_pressure=123456.0, liquid_density=0.81, gas_density=0.0047,
                 liquid_molar_density=0.81 / 28.5, gas_molar_density=0.0047 / 28.5)
    pg.Material("pgv_mat", store=True, density=2.3, molar_mass=321.0)
    worlds = [c02.World(pg, "stub", "pgv_stub", "pgv_mat", 77.0), c02.World(pg, "N2", "N2", "pgv_mat", 77.355)]
    PST = [("absolute", u) for u in c01.PA] + [("relative", None), ("relative%", None)]
    LST = [(b, u) for b in ("molar", "mass", "volume_gas", "volume_liquid") for u in c01.LTABLE[b]] + [("fraction", None), ("percent", None)]
    MST = [(b, u) for b in ("mass", "volume", "molar") for u in c01.MTABLE[b]]

    lines, plan = [], []       # driver requests and what to compare them with

    def ask(line, impl, sig):
        lines.append(line)
        plan.append((impl, sig, line))

    ncase = ck.n(120, 700)
    for ci in range(ncase):
        w = worlds[0] if rng.random() < 0.7 else worlds[1]
        P = w.props
        st = (rng.choice(PST), rng.choice(LST), rng.choice(MST))
        lab = [st[0][0], st[0][1], st[1][0], st[1][1], st[2][0], st[2][1], "K"]
        n = rng.randint(4, 9)
        up = sorted(rng.uniform(0.02, 0.95) for _ in range(n))
        ps = up + [up[-1] * f for f in (0.8, 0.5)]
        ls = list(np.cumsum([rng.uniform(0.1, 1.0) for _ in range(n)])) + [None, None]
        ls[n], ls[n + 1] = ls[n - 1] * 0.97, ls[n - 1] * 0.8
        iso = c02.make_iso(pg, w, lab, ps, ls, w.temp, branch=[0] * n + [1] * 2)
        lines.append(w.ctx_line())
        plan.append(None)
        lines.append(" ".join(["lab"] + [tok(x) for x in lab]))
        plan.append(None)
        rq_p, rq_l, rq_m = rng.choice(PST), rng.choice(LST), rng.choice(MST)
        stored_frac = lab[2] in FRAC
        mat_changes = (rq_m[0], rq_m[1]) != (lab[4], lab[5])
        base_sig = {"stored": [str(x) for x in lab[:6]], "requested": [str(x) for x in (rq_p + rq_l + rq_m)]}

        # ---------------- whole-branch accessors: values = stored re-expressed; selection exact and ordered
        for branch in (None, "ads", "des"):
            idx = list(range(n + 2)) if branch is None else (list(range(n)) if branch == "ads" else [n, n + 1])
            try:
                got = list(iso.pressure(branch=branch, pressure_mode=rq_p[0], pressure_unit=rq_p[1]))
                exp = [expected_pressure(P, lab, rq_p, ps[i]) for i in idx]
                ok = len(got) == len(exp) and all(close(g, e, rel=1e-10) for g, e in zip(got, exp))
            except Exception as e:  # noqa
                got, ok = repr(e), False
            ck.count(("pressure()", tuple(lab[:2]), rq_p, branch), bucket="accessor:pressure", nontrivial=tuple(lab[:2]) != rq_p)
            if not ok:
                ck.fail_case({**base_sig, "accessor": "PointIsotherm.pressure", "clause": "value = permanent conversion"}, {"branch": branch, "got": str(got)[:300]})
            try:
                got = list(iso.loading(branch=branch, loading_basis=rq_l[0], loading_unit=rq_l[1], material_basis=rq_m[0], material_unit=rq_m[1]))
                exp = [expected_loading(P, lab, rq_l, rq_m, ls[i]) for i in idx]
                ok = len(got) == len(exp) and all(close(g, e, rel=1e-10) for g, e in zip(got, exp))
            except Exception as e:  # noqa
                got, ok = repr(e), False
            ck.count(("loading()", tuple(lab[2:6]), rq_l, rq_m, branch), bucket="accessor:loading", sample={**base_sig, "branch": branch, "loading()": str(got)[:120]} if ci % 97 == 0 and branch == "ads" else None)
            if not ok:
                ck.fail_case({**base_sig, "accessor": "PointIsotherm.loading", "clause": "value = permanent conversion",
                              "stored_fraction": stored_frac, "material_changes": mat_changes}, {"branch": branch, "got": str(got)[:300], "expected": [float(x) for x in exp][:4]})
        # model requests for single stored values
        ask(" ".join(["aP", qstr(ps[1]), tok(rq_p[0]), tok(rq_p[1])]), ("val", lambda iso=iso, rq_p=rq_p: iso.pressure(pressure_mode=rq_p[0], pressure_unit=rq_p[1])[1]), {**base_sig, "accessor": "pressure"})
        ask(" ".join(["aLT", qstr(ls[1]), tok(rq_l[0]), tok(rq_l[1]), tok(rq_m[0]), tok(rq_m[1])]),
            ("val", lambda iso=iso, rq_l=rq_l, rq_m=rq_m: iso.loading(loading_basis=rq_l[0], loading_unit=rq_l[1], material_basis=rq_m[0], material_unit=rq_m[1])[1]), {**base_sig, "accessor": "loading"})
        # malformed / partial argument combinations against the model
        for _ in range(3):
            a = [rng.choice([None, "", "bogus", rq_l[0], lab[2]]), rng.choice([None, "", "bogus", rq_l[1], "g"]),
                 rng.choice([None, "", "bogus", rq_m[0]]), rng.choice([None, "", "bogus", rq_m[1], "kg"])]
            ask(" ".join(["aLT", qstr(ls[2])] + [tok(x) for x in a]),
                ("val", lambda a=a, iso=iso: iso.loading(loading_basis=a[0], loading_unit=a[1], material_basis=a[2], material_unit=a[3])[2]), {**base_sig, "accessor": "loading", "args": [str(x) for x in a]})
            b = [rng.choice([None, "", "bogus", rq_p[0]]), rng.choice([None, "", "bogus", rq_p[1], "kPa"])]
            ask(" ".join(["aP", qstr(ps[2])] + [tok(x) for x in b]),
                ("val", lambda b=b, iso=iso: iso.pressure(pressure_mode=b[0], pressure_unit=b[1])[2]), {**base_sig, "accessor": "pressure", "args": [str(x) for x in b]})

        # ---------------- limits: exactly the stored points of the branch inside [lo, hi], in order
        for lo, hi in ((ps[1], ps[n - 2]), (None, ps[2]), (ps[2], None), (0, 0), (0, ps[1]), (None, None)):
            got = list(iso.pressure(branch="ads", limits=(lo, hi)))
            anyt = bool(lo) or bool(hi)
            exp = [p for p in ps[:n] if (not anyt) or ((lo is None or p >= lo) and (hi is None or p <= hi))]
            ck.count(("limits", lo is None, hi is None, anyt), bucket="limits")
            if got != exp:
                ck.fail_case({"accessor": "PointIsotherm.pressure", "clause": "limits select exactly the stored points"}, {"limits": [lo, hi], "got": got, "expected": exp})
        lo_l = float(expected_loading(P, lab, rq_l, rq_m, ls[1])) if not (stored_frac and mat_changes) else None
        if lo_l is not None and lab[2] not in FRAC:
            got = list(iso.loading(branch="ads", loading_basis=rq_l[0], loading_unit=rq_l[1], material_basis=rq_m[0], material_unit=rq_m[1], limits=(lo_l * (1 - 1e-9), None)))
            ck.count(("limits-units", rq_l, rq_m), bucket="limits")
            if len(got) != n - 1:
                ck.fail_case({**base_sig, "accessor": "PointIsotherm.loading", "clause": "limits are interpreted in the requested units"}, {"lower": lo_l, "returned": len(got), "expected": n - 1})

        # limits of pressure() are given in the REQUESTED representation: the slice equals the slice of a converted copy
        try:
            conv_all = [float(expected_pressure(P, lab, rq_p, ps[i])) for i in range(n)]
        except Exception:
            conv_all = None
        if conv_all and all(map(math.isfinite, conv_all)) and conv_all[0] < conv_all[-1]:
            lo_p, hi_p = conv_all[1] * (1 - 1e-9), conv_all[n - 2] * (1 + 1e-9)
            try:
                got = [float(x) for x in iso.pressure(branch="ads", pressure_mode=rq_p[0], pressure_unit=rq_p[1], limits=(lo_p, hi_p))]
                okp = len(got) == n - 2 and all(close(g, e, rel=1e-10) for g, e in zip(got, conv_all[1:n - 1]))
            except Exception as e:  # noqa
                got, okp = repr(e), False
            ck.count(("limits-units-p", tuple(lab[:2]), rq_p), bucket="limits")
            if not okp:
                ck.fail_case({**base_sig, "accessor": "PointIsotherm.pressure", "clause": "limits are interpreted in the requested units"},
                             {"limits": [lo_p, hi_p], "got": str(got)[:300], "expected": conv_all[1:n - 1]})

        # ---------------- interpolation laws (native units), then foreign-unit queries
        q_in = (up[1] + up[2]) / 2
        for kind in ("linear",):
            at_knot = float(iso.loading_at(up[2]))
            mid = float(iso.loading_at(q_in))
            lin = ls[1] + (ls[2] - ls[1]) * (q_in - up[1]) / (up[2] - up[1])
            ck.count(("interp", ci), bucket="interpolation")
            if not close(at_knot, ls[2], rel=1e-12) or not close(mid, lin, rel=1e-12):
                ck.fail_case({"accessor": "PointIsotherm.loading_at", "clause": "coincides at knots / linear between"}, {"knot": [up[2], at_knot, ls[2]], "mid": [q_in, mid, lin]})
            for bad in (up[0] * 0.5, up[-1] * 1.5):
                try:
                    v = iso.loading_at(bad)
                    ck.fail_case({"accessor": "PointIsotherm.loading_at", "clause": "outside the measured range is refused"}, {"query": bad, "value": float(v)})
                except Exception:
                    pass
                v = float(iso.loading_at(bad, interp_fill=(1.25, 7.5)))
                if v != (1.25 if bad < up[0] else 7.5):
                    ck.fail_case({"accessor": "PointIsotherm.loading_at", "clause": "fill rule used outside the range"}, {"query": bad, "value": v})
            # desorption branch: knots and interior
            dq = (ps[n] + ps[n + 1]) / 2
            try:
                dv = float(iso.loading_at(dq, branch="des"))
                dk = float(iso.loading_at(ps[n], branch="des"))
                dl = ls[n + 1] + (ls[n] - ls[n + 1]) * (dq - ps[n + 1]) / (ps[n] - ps[n + 1])
                okd = close(dv, dl, rel=1e-12) and close(dk, ls[n], rel=1e-12)
            except Exception as e:  # noqa
                dv, okd = repr(e), False
            if not okd:
                ck.fail_case({"accessor": "PointIsotherm.loading_at", "clause": "desorption branch interpolation"}, {"query": dq, "got": str(dv)})
            # pressure_at on the desorption branch, THEN on the adsorption branch of the same object (each branch has its own interpolant)
            dql = (ls[n] + ls[n + 1]) / 2
            try:
                pdv = float(iso.pressure_at(dql, branch="des"))
                pdl = ps[n + 1] + (ps[n] - ps[n + 1]) * (dql - ls[n + 1]) / (ls[n] - ls[n + 1])
                okd = close(pdv, pdl, rel=1e-12)
            except Exception as e:  # noqa
                pdv, okd = repr(e), False
            if not okd:
                ck.fail_case({"accessor": "PointIsotherm.pressure_at", "clause": "desorption branch interpolation"}, {"query": dql, "got": str(pdv)})
            try:
                pmid = float(iso.pressure_at((ls[1] + ls[2]) / 2))
                pk = float(iso.pressure_at(ls[2]))
            except Exception as e:  # noqa
                pmid = pk = repr(e)[:200]
            if isinstance(pmid, str) or not close(pmid, (up[1] + up[2]) / 2, rel=1e-12):
                ck.fail_case({"accessor": "PointIsotherm.pressure_at", "clause": "adsorption branch after a desorption query"}, {"loading": (ls[1] + ls[2]) / 2, "got": pmid, "expected": (up[1] + up[2]) / 2})
            if not isinstance(pk, str) and not close(pk, up[2], rel=1e-12):
                ck.fail_case({"accessor": "PointIsotherm.pressure_at", "clause": "coincides at knots"}, {"loading": ls[2], "got": pk, "expected": up[2]})
        # foreign-unit query: pressure given in rq_p, loading returned in (rq_l | rq_m)
        qf = float(expected_pressure(P, lab, rq_p, q_in))
        req_frac = rq_l[0] in FRAC
        try:
            got = float(iso.loading_at(qf, pressure_mode=rq_p[0], pressure_unit=rq_p[1], loading_basis=rq_l[0], loading_unit=rq_l[1],
                                       material_basis=rq_m[0], material_unit=rq_m[1]))
            exp = expected_loading(P, lab, rq_l, rq_m, lin)
            ok = close(got, exp, rel=1e-9)
        except Exception as e:  # noqa
            got, ok, exp = repr(e), False, None
        ck.count(("loading_at", tuple(lab[:6]), rq_p, rq_l, rq_m), bucket="accessor:loading_at")
        if not ok:
            ck.fail_case({**base_sig, "accessor": "PointIsotherm.loading_at", "clause": "value = permanent conversion",
                          "stored_fraction": stored_frac, "requested_fraction": req_frac, "material_changes": mat_changes}, {"query": qf, "got": str(got), "expected": float(exp) if exp is not None else None})
        ask(" ".join(["iP", qstr(qf), tok(rq_p[0]), tok(rq_p[1])]), ("none", None), None)
        ask(" ".join(["aLS", qstr(lin), tok(rq_l[0]), tok(rq_l[1]), tok(rq_m[0]), tok(rq_m[1])]),
            ("val", lambda iso=iso, q_in=q_in, rq_l=rq_l, rq_m=rq_m: iso.loading_at(q_in, loading_basis=rq_l[0], loading_unit=rq_l[1], material_basis=rq_m[0], material_unit=rq_m[1])), {**base_sig, "accessor": "loading_at-output"})
        # pressure_at with a foreign-unit loading
        lq = (ls[1] + ls[2]) / 2
        pexp_native = up[1] + (up[2] - up[1]) * (lq - ls[1]) / (ls[2] - ls[1])
        lf = float(expected_loading(P, lab, rq_l, rq_m, lq))
        if rq_l[1] is not None:          # pressure_at demands a loading unit
            try:
                got = float(iso.pressure_at(lf, loading_basis=rq_l[0], loading_unit=rq_l[1], material_basis=rq_m[0], material_unit=rq_m[1],
                                            pressure_mode=rq_p[0], pressure_unit=rq_p[1]))
                exp = expected_pressure(P, lab, rq_p, pexp_native)
                ok = close(got, exp, rel=1e-9)
            except Exception as e:  # noqa
                got, ok, exp = repr(e), False, None
            ck.count(("pressure_at", tuple(lab[:6]), rq_p, rq_l, rq_m), bucket="accessor:pressure_at")
            if not ok:
                ck.fail_case({**base_sig, "accessor": "PointIsotherm.pressure_at", "clause": "value = permanent conversion",
                              "stored_fraction": stored_frac, "requested_fraction": req_frac, "material_changes": mat_changes}, {"query": lf, "got": str(got), "expected": float(exp) if exp is not None else None})
            ask(" ".join(["iL", "F", qstr(lf), tok(rq_l[0]), tok(rq_l[1]), tok(rq_m[0]), tok(rq_m[1])]), ("none", None), None)

        # ---------------- model isotherm with the same labels: evaluated = bare model after unit conversion
        if ci % 2 == 0:
            name = rng.choice(["Langmuir", "Henry", "Toth", "DSLangmuir"])
            par = sample_params(name, rng)
            miso = pg.ModelIsotherm(model=make(pg, name, par), material=w.mat.name, adsorbate=w.ads.name, temperature=w.temp,
                                    pressure_mode=lab[0], pressure_unit=lab[1], loading_basis=lab[2], loading_unit=lab[3],
                                    material_basis=lab[4], material_unit=lab[5], temperature_unit="K")
            pn = 0.37 if lab[0] != "relative%" else 37.0
            bare = float(miso.model.loading(np.float64(pn)))
            qf = float(expected_pressure(P, lab, rq_p, pn))
            try:
                got = float(miso.loading_at(qf, pressure_mode=rq_p[0], pressure_unit=rq_p[1], loading_basis=rq_l[0], loading_unit=rq_l[1],
                                            material_basis=rq_m[0], material_unit=rq_m[1]))
                exp = expected_loading(P, lab, rq_l, rq_m, bare)
                ok = close(got, exp, rel=1e-9)
            except Exception as e:  # noqa
                got, ok, exp = repr(e), False, None
            ck.count(("model.loading_at", name, tuple(lab[:6]), rq_p, rq_l, rq_m), bucket="accessor:model.loading_at")
            if not ok:
                ck.fail_case({**base_sig, "accessor": "ModelIsotherm.loading_at", "clause": "bare model after unit conversion",
                              "stored_fraction": stored_frac, "requested_fraction": req_frac, "material_changes": mat_changes}, {"model": name, "got": str(got), "expected": float(exp) if exp is not None else None})
            ask(" ".join(["aLT", qstr(bare), tok(rq_l[0]), tok(rq_l[1]), tok(rq_m[0]), tok(rq_m[1])]),
                ("val", lambda miso=miso, pn=pn, rq_l=rq_l, rq_m=rq_m: miso.loading_at(pn, loading_basis=rq_l[0], loading_unit=rq_l[1], material_basis=rq_m[0], material_unit=rq_m[1])), {**base_sig, "accessor": "model.loading_at-output"})
            if rq_l[1] is not None and name in ("Langmuir", "Henry", "Toth"):
                nn = bare
                lf = float(expected_loading(P, lab, rq_l, rq_m, nn))
                try:
                    got = float(miso.pressure_at(lf, loading_basis=rq_l[0], loading_unit=rq_l[1], material_basis=rq_m[0], material_unit=rq_m[1],
                                                 pressure_mode=rq_p[0], pressure_unit=rq_p[1]))
                    # the bare model's pressure at that loading (the round trip through loading() is ill-conditioned near saturation)
                    exp = expected_pressure(P, lab, rq_p, float(miso.model.pressure(np.float64(nn))))
                    ok = close(got, exp, rel=1e-7)
                except Exception as e:  # noqa
                    got, ok, exp = repr(e), False, None
                ck.count(("model.pressure_at", name, tuple(lab[:6]), rq_p, rq_l, rq_m), bucket="accessor:model.pressure_at")
                if not ok:
                    ck.fail_case({**base_sig, "accessor": "ModelIsotherm.pressure_at", "clause": "bare model after unit conversion",
                                  "stored_fraction": stored_frac, "requested_fraction": req_frac, "material_changes": mat_changes}, {"model": name, "got": str(got), "expected": float(exp) if exp is not None else None})
                ask(" ".join(["iL", "T", qstr(lf), tok(rq_l[0]), tok(rq_l[1]), tok(rq_m[0]), tok(rq_m[1])]), ("none", None), None)

    # ------------------------------------------------------------------ branch guessing: depends on the pressures only
    seqs = [[1, 2, 3, 2, 1], [5, 4, 3, 2, 1], [1, 2, 3, 4], [1, 3, 3, 2], [2, 2, 2], [1], [3, 1, 2, 5, 4], [1, 2, 5, 5, 1]]
    for _ in range(ck.n(15, 60)):
        k = rng.randint(1, 9)
        seqs.append([round(rng.uniform(0, 5), 2) for _ in range(k)])
    from pygaps.utilities.math_utilities import split_ads_data
    for sq in seqs:
        n = len(sq)
        labelings = [None, list(range(3, 3 + n)), list(range(1, n + 1)), [f"r{i}" for i in range(n)], list(reversed(range(n))), [7] * n if n > 1 else [0]]
        dtypes = [float, "float32", int if all(float(x).is_integer() for x in sq) else float, object]
        res = []
        for lb_, dt in itertools.product(labelings, dtypes):
            df = pd.DataFrame({"p": pd.Series(sq, dtype=dt), "l": range(n)})
            if lb_ is not None:
                df.index = lb_
            try:
                res.append((str(lb_)[:20], str(dt), [int(x) for x in split_ads_data(df, "p")]))
            except Exception as e:  # noqa
                res.append((str(lb_)[:20], str(dt), "EXC:" + type(e).__name__))
        ck.count(("split", tuple(sq)), bucket="split")
        ask("split " + tok([frac(x) for x in sq]), ("list", lambda res=res: res[0][2]), {"accessor": "split_ads_data", "pressures": sq})
        outs = {str(r[2]) for r in res}
        if len(outs) != 1:
            ck.fail_case({"accessor": "split_ads_data", "clause": "depends only on the sequence of pressures"}, {"pressures": sq, "results": [list(r) for r in res if str(r[2]) != str(res[0][2])][:3], "default": res[0][2]})
        # the rule itself: split at the first maximum
        if isinstance(res[0][2], list):
            m = sq.index(max(sq)) + 1
            exp = [0] * n if m == n else ([1] * n if m == 1 else [0] * m + [1] * (n - m))
            if res[0][2] != exp:
                ck.fail_case({"accessor": "split_ads_data", "clause": "split at the pressure maximum"}, {"pressures": sq, "got": res[0][2], "expected": exp})

    # ------------------------------------------------------------------ correspondence with the Lean model
    try:
        replies = ck.drive("Access", lines)
    except Exception as e:
        replies = None
        ck.broken.append({"step": "driver Access", "what": str(e)[:600]})
    n_dis = 0
    if replies:
        for pl, rep in zip(plan, replies):
            if pl is None:
                continue
            (kind, thunk), sig, line = pl
            if kind == "none":
                continue
            try:
                val = thunk()
                got = ("ok", val)
            except Exception as e:  # noqa
                got = ("err", err_class(e))
            r = rep.split()
            ck.count(("corr", line), nontrivial=False, bucket="correspondence:" + (r[0] if r[0] != "err" else "err:" + r[1]))
            if kind == "list":
                agree = r[0] == "ok" and got[0] == "ok" and str(got[1]).replace(" ", "").replace(",", ";") == r[1]
            elif r[0] == "ok":
                agree = got[0] == "ok" and close(float(got[1]), Fr(r[1]), rel=1e-9)
            else:
                agree = got[0] == "err" and ERRMAP.get(r[1], r[1]) == got[1]
            if not agree:
                n_dis += 1
                if n_dis <= 3:
                    ck.broken.append({"step": "correspondence Model/Access.lean", "what": {"request": line, "model": rep[:120], "implementation": [got[0], str(got[1])[:80]], **(sig or {})}})
    ck.cov["correspondence_disagreements"] = n_dis
    ck.cov["rule"] = ("seeded (stored representation x requested representation) pairs over the 10 x 27 x 19 space, stub and N2 adsorbates, two-branch data with extra columns: "
                      "pressure()/loading() per branch, limits (None, 0, equal-to-data), loading_at/pressure_at at knots / interior / outside / with fill, foreign-unit queries, "
                      "ModelIsotherm.loading_at/pressure_at on 4 closed-form models, malformed argument combinations; branch guessing on pressure sequences x 6 row labellings x 4 dtypes; "
                      "distinct = distinct (accessor, stored labels, requested representation, branch)")
    ck.assumptions += ["scipy.interpolate.interp1d for non-linear kinds (only 'coincides at knots' is claimed for them)"]
