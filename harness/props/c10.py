"""C10 — model equations: inverse, zero, bounds, monotone, Henry limit.

Tie: the ℝ and Float copies of every closed-form model function are regenerated from modelling/*.py on
every run; the tie lemmas (Gen = published equation) and the property theorems are re-checked; the Float
copies are run against the Python originals (translator validation).  Failing-input search: the property
oracle below (compositions, zero point, sign, monotonicity, saturation, Henry slope) on the real model
classes over seeded parameter vectors in the declared bounds.

Beyond the moderate grid (sections 1-3) the oracle is run
  2b. over the whole declared parameter box x pressures from the extreme low-coverage end (K p down to 1e-18, denormal-free) to near
      saturation / the validity limit: round trips with the tolerance of each inverse class (conditioned near saturation), the Henry
      limit decade by decade, sign / saturation / monotonicity, and -- for the rational models -- the EXACT value of the published
      equation (Model/ModelEval.lean run at Q by Drv/ModelEval.lean; theorems Props/C10/Exact.lean);
  2d. CERTIFIED numerical inverses (TSLangmuir / TemkinApprox / JensenSeaton `pressure`, FH-VST / W-VST `loading`): a deterministic grid of
      coverage strata 0 ... 0.99 (dense from 0.8 upwards, one jittered point per stratum) x parameter vectors from the moderate and the wide
      box with the shape parameter on its corners (FH-VST a1v in [-0.9, 5]: inside `fhvst_strictMonoOn`, the inverse is unique) x the
      scalar argument kinds (float, numpy scalar, 0-d, length-1): whenever the inverse RETURNS, the closed-form direction evaluated at the
      returned point gives the argument back (residual certificate, 1e-6; measured <= 1e-10) -- a refusal (CalculationError) is fine, an
      answer that is not a root is not (Props/C10/PressureExplicit.lean `fhvst_certified_root_unique`, `fhvst_other_point_not_root`, W-VST alike);
  2c. every model method x every argument kind (python float/int, numpy scalars, 0-d, 1-d, length-1, read-only, strided, reversed,
      2-d, float32, integer arrays, lists, pandas Series): argument bitwise unchanged, result = element-wise scalar results, a
      second call gives the identical answer (Props/C10/Range.lean `call_*`);
  3b. the same through ModelIsotherm.loading_at / pressure_at / spreading_pressure_at with and without unit conversion;
  3c. whole-range evaluation ModelIsotherm.pressure(points, ...) / .loading(points, ...) against Model/ModelEval.lean
      (linspace, bare model, linear conversion, strict limits);
  3d. model isotherms in every stored STATE (harness/pgv/c10state.py): real CoolProp adsorbates over their two-phase range, the
      temperature number stored in K or in degrees Celsius (constructed so / reached by convert_temperature), every stored pressure
      mode / unit, loading basis / unit (volume bases, fraction, percent), material basis, all 16 models, the model's own branch:
      loading_at / pressure_at / spreading_pressure_at / pressure(points) / loading(points) with requests biased to pressure-mode changes
      (p0(T)) and volume bases (densities at T) against (1) the bare model on the argument re-expressed with the SI tables of c01 and the
      adsorbate's constants at the KELVIN temperature computed by the harness, (2) the Lean model of the state at Q (Model/ModelEval.lean
      `kelvinOf`, `convP`, `loadingAtS`, `pressureAtS`, `wholePressureS`, `wholeLoadingS`; theorems Props/C10/State.lean), (3) the twin
      isotherm stored in the other temperature unit.
None of these depends on the translation or the proofs having succeeded (`ck.proof_ok`): when a tie breaks they are the search
for a concrete failing input.
"""
import math
from fractions import Fraction as Fr

from pgv.core import import_pygaps

from pgv import c10lib as L
from pgv.core import frac, parse_q, qstr
from pgv.models import (HENRY, PEXPLICIT, QUAD_INV, REL_ONLY, ROOT_INV, SAT, bits, henry_probe, logu, make, p_grid, relerr,
                        sample_params, unbits)


def run(ck):
    pg = import_pygaps()
    import numpy as np
    from pygaps.utilities.exceptions import CalculationError
    rng = ck.rng
    thorough = ck.tier == "thorough"
    nvec = ck.n(40, 300)
    npts = ck.n(12, 25)
    info = ck.gen_info.get("Models", {}).get("models", {})
    models = list(info) or ["Henry", "Langmuir", "DSLangmuir", "TSLangmuir", "BET", "GAB", "Freundlich", "DR", "DA", "Quadratic",
                            "TemkinApprox", "Toth", "JensenSeaton", "Virial", "FHVST", "WVST"]

    # ------------------------------------------------------------------ 1. translator validation: Gen.F vs Python
    lines, meta = [], []
    for name in models:
        fns = info.get(name, {}).get("functions", {})
        order = info.get(name, {}).get("params")
        if order is None:          # the translator could not render this model (already recorded as a broken tie): the oracle below still runs
            continue
        for _ in range(max(6, nvec // 6)):
            par = sample_params(name, rng)
            if name == "Quadratic" and rng.random() < 0.3:
                par["Ka"] *= -1 if rng.random() < 0.5 else 1
                par["Kb"] *= -0.01
            m = make(pg, name, par)
            plist = [par[k] for k in order] + ([m.minus_rt] if name in REL_ONLY else [])
            xs = p_grid(name, par, rng, 3)[:5]
            for fn, kind in fns.items():
                if not kind.startswith("closed"):
                    continue
                for x in xs:
                    arg = x
                    if fn == "pressure" and name not in PEXPLICIT:
                        arg = float(m.loading(x)) if name not in ROOT_INV else x
                    if fn == "loading" and name in PEXPLICIT:
                        continue
                    lines.append(f"ev {name} {fn} [{';'.join(bits(v) for v in plist)}] {bits(arg)}")
                    meta.append((name, fn, par, arg, m))
    tv_bad = 0
    if lines:
        try:
            replies = ck.drive("ModelsF", lines)
        except Exception as e:
            replies = None
            ck.broken.append({"step": "driver ModelsF", "what": str(e)[:600]})
        if replies:
            for (name, fn, par, arg, m), rep, line in zip(meta, replies, lines):
                try:
                    with np.errstate(all="ignore"):
                        py = float(getattr(m, fn)(np.float64(arg)))
                except Exception as e:  # noqa
                    py = None
                t = rep.split()
                ck.count(("tv", name, fn, arg, tuple(par.values())), bucket=f"translator:{name}.{fn}")
                if t[0] != "ok" or py is None:
                    ok = (t[0] != "ok" and py is None)
                else:
                    lean = unbits(t[1])
                    tol = 1e-6 if (name in QUAD_INV and fn == "pressure") else 1e-11
                    ok = (math.isnan(lean) and math.isnan(py)) or relerr(lean, py) <= tol or abs(lean - py) < 1e-300
                if not ok:
                    tv_bad += 1
                    if tv_bad <= 3:
                        ck.broken.append({"step": "translator validation Gen.F vs Python", "what": {"request": line, "lean": rep, "python": py}})
    ck.cov["translator_cases"] = len(lines)
    ck.cov["translator_disagreements"] = tv_bad

    # ------------------------------------------------------------------ 2. property oracle on the real classes
    worst = {}

    def note(k, v):
        worst[k] = max(worst.get(k, 0.0), v)

    for name in models:
        for iv in range(nvec):
            par = sample_params(name, rng)
            if name in L.QUAD_DEGENERATE and iv % 6 == 4:
                # the leading coefficient of the quadratic solved by `pressure` vanishes / nearly vanishes (C = N, C = 1, Kb = 0: inside the bounds)
                par = L.quad_degenerate_params(name, par, rng)
            m = make(pg, name, par)
            ps = p_grid(name, par, rng, npts)
            sig0 = {"model": name}
            if name in PEXPLICIT:
                # pressure-explicit: arguments are loadings
                nmax = par.get("n_m", 5.0)
                ns = sorted(rng.uniform(0, 0.9) * nmax for _ in range(npts))
                with np.errstate(all="ignore"):
                    pp = np.asarray(m.pressure(np.array(ns)), dtype=float)
                ck.count(("prop", name, tuple(par.values())), bucket="oracle:" + name, sample={"model": name, "params": par, "loadings": ns[:3]} if iv == 0 else None)
                if float(m.pressure(np.float64(0.0))) != 0.0:
                    ck.fail_case({**sig0, "clause": "zero"}, {"params": par})
                if np.any(np.diff(pp) < -1e-12 * np.abs(pp[1:])) or np.any(pp < 0):
                    ck.fail_case({**sig0, "clause": "monotone/nonneg"}, {"params": par, "loadings": ns, "pressures": pp.tolist()})
                # Henry slope: n/p -> K
                n0 = 1e-9 * nmax
                hs = n0 / float(m.pressure(np.float64(n0)))
                if relerr(hs, HENRY[name](par)) > 1e-6:
                    ck.fail_case({**sig0, "clause": "henry"}, {"params": par, "slope": hs, "expected": HENRY[name](par)})
                # numerical inverse where the library reports success
                for n1, p1 in list(zip(ns, pp))[::4]:
                    if n1 <= 0:
                        continue
                    try:
                        with np.errstate(all="ignore"):
                            back = float(np.asarray(m.loading(np.float64(p1))).ravel()[0])
                    except CalculationError:
                        continue
                    tol = (2e-4 + 1e-3 * n1) if name == "Virial" else 1e-4 * max(n1, 1e-12)
                    note(name + ".loading∘pressure", abs(back - n1) / max(n1, 1e-300))
                    if abs(back - n1) > tol:
                        ck.fail_case({**sig0, "clause": "loading(pressure(n))=n"}, {"params": par, "n": n1, "p": float(p1), "back": back})
                        break
                continue
            with np.errstate(all="ignore"):
                nn = np.asarray(m.loading(np.array(ps)), dtype=float)
            ck.count(("prop", name, tuple(par.values())), bucket="oracle:" + name, sample={"model": name, "params": par, "pressures": ps[:3]} if iv == 0 else None)
            # scalar / 0-d / 1-d agree
            s0 = float(m.loading(np.float64(ps[1])))
            z0 = float(np.asarray(m.loading(np.array(ps[1]))))
            # (numpy's scalar and array exp() may differ in the last bit; far down the exponential tail that is 1-2e-14 relative)
            if max(relerr(s0, nn[1]), relerr(z0, nn[1])) > 1e-13:
                ck.fail_case({**sig0, "clause": "scalar-vs-array"}, {"params": par, "p": ps[1], "scalar": s0, "zero_d": z0, "array": float(nn[1])})
            # zero point
            if name not in REL_ONLY:
                with np.errstate(all="ignore"):
                    for zero in (0.0, np.float64(0.0), np.array(0.0), np.array([0.0])):
                        try:
                            z = float(np.asarray(m.loading(zero)).ravel()[0])
                        except Exception as e:  # noqa
                            z = repr(e)
                        if z != 0.0:
                            ck.fail_case({**sig0, "clause": "zero", "fn": "loading"}, {"params": par, "arg": repr(zero), "got": z})
                        if name not in ROOT_INV and name != "Freundlich" or name == "Freundlich":
                            if name in ROOT_INV:
                                continue
                            try:
                                z = float(np.asarray(m.pressure(zero)).ravel()[0])
                            except Exception as e:  # noqa
                                z = repr(e)
                            if z != 0.0:
                                ck.fail_case({**sig0, "clause": "zero", "fn": "pressure"}, {"params": par, "arg": repr(zero), "got": z})
            # sign, monotone, saturation
            if np.any(nn < 0) or np.any(~np.isfinite(nn)):
                ck.fail_case({**sig0, "clause": "nonneg/finite"}, {"params": par, "pressures": ps, "loadings": nn.tolist()})
            if np.any(np.diff(nn) < -1e-12 * np.abs(nn[1:])):
                ck.fail_case({**sig0, "clause": "monotone"}, {"params": par, "pressures": ps, "loadings": nn.tolist()})
            if name in SAT and np.any(nn > SAT[name](par) * (1 + 1e-12)):
                ck.fail_case({**sig0, "clause": "saturation"}, {"params": par, "loadings": nn.tolist(), "sat": SAT[name](par)})
            # Henry slope
            if name in HENRY:
                k = HENRY[name](par)
                p0 = L.henry_probe_of(name, par)
                hs = float(m.loading(np.float64(p0))) / p0
                note(name + ".henry", relerr(hs, k))
                if relerr(hs, k) > 1e-6:
                    ck.fail_case({**sig0, "clause": "henry"}, {"params": par, "p": p0, "slope": hs, "expected": k})
            # inverse compositions
            tol = 1e-5 if name in QUAD_INV else (1e-4 if name in ROOT_INV else 1e-10)
            for p1, n1 in list(zip(ps, nn))[:: (ck.n(3, 2))]:
                if n1 <= 0 or p1 <= 0:
                    continue
                if n1 < 1e-290:
                    continue      # a subnormal loading (DR/DA far down the exponential tail) carries no relative accuracy: outside the denormal-free domain
                if name in SAT and n1 > 0.95 * SAT[name](par) and name in QUAD_INV | {"Toth", "Langmuir"}:
                    continue      # cancellation close to saturation (tolerance table: up to 0.95 of saturation)
                try:
                    with np.errstate(all="ignore"):
                        back = float(np.asarray(m.pressure(np.float64(n1))).ravel()[0])
                except CalculationError:
                    continue
                e = relerr(back, p1)
                if name in QUAD_INV:
                    # moderate grid: error on the scale of the pressure range (the grid runs up to 0.95 of saturation, where the inverse is
                    # ill-conditioned); the RELATIVE accuracy of these inverses, conditioned, is the business of the wide sweep (2b)
                    e = abs(back - p1) / (abs(p1) + 1e-3 * ps[-1])
                note(name + ".pressure∘loading", e)
                tol1 = tol
                if name in REL_ONLY:
                    # conditioning of the inverse towards p -> 1 (c10lib.dubinin_condition): ten roundings of the loading
                    tol1 = max(tol, 1e-15 * L.dubinin_condition(name, par, p1, float(n1)))
                    if not math.isfinite(tol1):
                        continue
                if not e <= tol1:
                    ck.fail_case({**sig0, "clause": "pressure(loading(p))=p"}, {"params": par, "p": p1, "n": float(n1), "back": back, "tol": tol1})
                if name not in QUAD_INV and name not in ROOT_INV:
                    with np.errstate(all="ignore"):
                        fwd = float(m.loading(np.float64(back)))
                    if relerr(fwd, n1) > 1e-9:
                        ck.fail_case({**sig0, "clause": "loading(pressure(n))=n"}, {"params": par, "n": float(n1), "fwd": fwd})
            # array form of the inverse
            if name in QUAD_INV:
                with np.errstate(all="ignore"):
                    arr = np.asarray(m.pressure(np.array([0.0, nn[2], nn[3]])), dtype=float)
                if arr[0] != 0.0 or abs(arr[1] - ps[2]) > 1e-5 * (ps[2] + 1e-3 * ps[-1]):
                    ck.fail_case({**sig0, "clause": "inverse-array"}, {"params": par, "got": arr.tolist(), "expected": [0.0, ps[2], ps[3]]})

    # ------------------------------------------------------------------ 2b/2c. wide sweep and argument kinds on the bare models
    if not getattr(ck, "proof_ok", True):
        # the hand-written reference does not depend on the generated files: make sure it is there when the main build stopped early
        ck.lake_build(["PgVerif.Drv.ModelEval"])
    wide_sweep(ck, pg, np, models, note)
    certified_inverses(ck, pg, np, models, note)
    import pandas as pd
    arg_kinds_bare(ck, pg, np, pd, models)

    # ------------------------------------------------------------------ 3. model isotherm wraps the model with unit conversion
    import c01
    import c02
    import c03
    pg.Adsorbate("pgv_stub", store=True, molar_mass=28.5, saturation_pressure=123456.0, liquid_density=0.81, gas_density=0.0047,
                 liquid_molar_density=0.81 / 28.5, gas_molar_density=0.0047 / 28.5)
    pg.Material("pgv_mat", store=True, density=2.3, molar_mass=321.0)
    w = c02.World(pg, "stub", "pgv_stub", "pgv_mat", 77.0)
    PST = [("absolute", u) for u in c01.PA] + [("relative", None), ("relative%", None)]
    LST = [(b, u) for b in ("molar", "mass", "volume_gas", "volume_liquid") for u in c01.LTABLE[b]] + [("fraction", None), ("percent", None)]
    MST = [(b, u) for b in ("mass", "volume", "molar") for u in c01.MTABLE[b]]
    for it in range(ck.n(80, 400)):
        name = rng.choice(["Langmuir", "Henry", "Toth", "DSLangmuir", "Freundlich"])
        par = sample_params(name, rng)
        st_p, st_l, st_m = rng.choice(PST), rng.choice(LST[:-2]), rng.choice(MST)       # stored: physical loading (fraction: finding S5)
        rq_p, rq_l, rq_m = rng.choice(PST), rng.choice(LST), rng.choice(MST)
        lab = [st_p[0], st_p[1], st_l[0], st_l[1], st_m[0], st_m[1], "K"]
        miso = pg.ModelIsotherm(model=make(pg, name, par), material="pgv_mat", adsorbate="pgv_stub", temperature=77.0,
                                pressure_mode=lab[0], pressure_unit=lab[1], loading_basis=lab[2], loading_unit=lab[3],
                                material_basis=lab[4], material_unit=lab[5], temperature_unit="K")
        # a pressure of moderate coverage: near saturation pressure(loading) amplifies the last bit of the unit conversions without bound
        pn = 0.37 / max([1.0] + [v for k_, v in par.items() if k_.startswith("K")])
        bare = float(miso.model.loading(np.float64(pn)))
        qf = float(c03.expected_pressure(w.props, lab, rq_p, pn))
        sig = {"clause": "model-isotherm-wraps", "model": name, "stored": [str(x) for x in lab[:6]], "requested": [str(x) for x in rq_p + rq_l + rq_m]}
        ck.count(("wrap", name, tuple(lab[:6]), rq_p, rq_l, rq_m), bucket="model-isotherm")
        try:
            got = float(miso.loading_at(qf, pressure_mode=rq_p[0], pressure_unit=rq_p[1], loading_basis=rq_l[0], loading_unit=rq_l[1],
                                        material_basis=rq_m[0], material_unit=rq_m[1]))
            exp = float(c03.expected_loading(w.props, lab, rq_l, rq_m, bare))
            okk = relerr(got, exp) <= 1e-9
        except Exception as e:  # noqa
            got, exp, okk = repr(e), None, False
        if not okk:
            ck.fail_case(sig, {"params": par, "bare": bare, "through_isotherm": got, "expected": exp})
        if name != "DSLangmuir" and isinstance(got, float):
            # (fraction / percent requests: the loading the isotherm itself reports in that representation, so that this is the
            #  round trip pressure_at(loading_at(p, **u), **u) = p and does not depend on finding S5 of C03)
            lf = float(c03.expected_loading(w.props, lab, rq_l, rq_m, bare)) if rq_l[1] is not None else got
            try:
                # (for a fraction / percent input the library insists on *a* loading unit although none applies: any valid one)
                back = float(miso.pressure_at(lf, loading_basis=rq_l[0], loading_unit=rq_l[1] if rq_l[1] is not None else "g", material_basis=rq_m[0], material_unit=rq_m[1],
                                              pressure_mode=rq_p[0], pressure_unit=rq_p[1]))
                # the wrapper must return the bare model's pressure at that loading (not the round trip through loading(),
                # which is ill-conditioned near saturation), converted to the requested representation
                qb = float(c03.expected_pressure(w.props, lab, rq_p, float(miso.model.pressure(np.float64(bare)))))
                okk = relerr(back, qb) <= 1e-7
            except Exception as e:  # noqa
                back, okk, qb = repr(e), False, None
            if not okk:
                ck.fail_case({**sig, "fn": "pressure_at"}, {"params": par, "loading": lf, "got": back, "expected": qb})
    # ------------------------------------------------------------------ 3b/3c. argument kinds and whole-range evaluation through ModelIsotherm
    through_isotherm(ck, pg, np, pd, models, w, PST, LST, MST, c03)
    whole_range(ck, pg, np, pd, models, w, PST, LST, MST, c03)
    # ------------------------------------------------------------------ 3d. model isotherms in every stored STATE (temperature unit, real adsorbates)
    from pgv import c10state
    c10state.run(ck, pg, np, pd, models, c01, c02, c03, PST, LST, MST, _domain_values, _call, _capped)
    ck.cov["worst_relative_errors"] = {k: float(f"{v:.3g}") for k, v in sorted(worst.items())}
    ck.cov["rule"] = ("translator validation: every closed-form generated Float function vs its Python original on seeded parameter "
                      "vectors in bounds; property oracle: 16 models x seeded log-uniform parameter vectors x pressure grids in the validity "
                      "range (denser near 0 and the BET/GAB pole): compositions, zero point (scalar/0-d/1-d), sign, monotonicity, saturation, "
                      "Henry slope, scalar-vs-array; distinct = distinct (model, parameter vector[, function, argument]); "
                      "wide sweep: declared parameter box (affinities 1e-9..1e9, capacities 1e-4..1e4) x reduced pressures 1e-18..1e4 / 0.999 of the pole: "
                      "round trips (conditioned tolerance near saturation), Henry limit per decade, exact rational reference (Lean, Q); "
                      "argument kinds: 3 methods x 17 kinds on the bare models and through ModelIsotherm.*_at (unchanged argument, element-wise = scalar, "
                      "second call identical); whole-range ModelIsotherm.pressure()/loading() vs Model/ModelEval.lean; "
                      "model-isotherm STATES: real adsorbates (CoolProp, two-phase range) + stub x temperature stored in K / degrees Celsius (constructed / convert_temperature) x "
                      "stored pressure mode/unit x loading basis/unit x material basis x 16 models x own branch: loading_at, pressure_at, spreading_pressure_at (scalar, 1-d), "
                      "pressure(points), loading(points) with strict limits, requests biased to mode changes and volume bases, vs the SI oracle at the harness's kelvin temperature, "
                      "the Lean model of the state (Q) and the twin stored in the other temperature unit")
    ck.assumptions += ["numerical inverses (scipy.optimize.root / minimize) are specified by residual, checked only where the library reports success",
                       "IEEE rounding: tolerances per class of inverse (DESIGN section 7 table)",
                       "CoolProp values (saturation pressure, densities) enter as the constants returned by the real Adsorbate accessors at the kelvin temperature "
                       "the harness computes from the stored number and unit of the state",
                       "scipy.integrate.quad (spreading pressure of Toth, Jensen-Seaton, DR, DA): values of a quadrature that issued an IntegrationWarning are not compared"]


# ====================================================================================================================
#  helpers of the extended oracles
# ====================================================================================================================

def _call(np, f, arg):
    try:
        with np.errstate(all="ignore"):
            return "ok", f(arg)
    except Exception as e:  # noqa
        return "err", e


def _capped(ck, per_sig=3):
    """fail_case that writes at most `per_sig` replays per signature (one defect shows up on thousands of points)."""
    seen = {}

    def fail(sig, detail):
        key = tuple(sorted((k, str(v)) for k, v in sig.items()))
        seen[key] = seen.get(key, 0) + 1
        if seen[key] > per_sig:
            return False
        return ck.fail_case(sig, detail)
    return fail


def _first(np, res):
    return float(np.asarray(res, dtype=float).ravel()[0])


def _domain_values(np, name, par, m, rng, k=5):
    """k increasing pressures at moderate coverage and the loadings that belong to them (both inside the validity range)."""
    s = L.kscale(name, par)
    if name in PEXPLICIT:
        nmax = par.get("n_m", 5.0)
        ns = sorted(rng.uniform(0.05, 0.8) * nmax for _ in range(k))
        with np.errstate(all="ignore"):
            ps = [float(m.pressure(np.float64(x))) for x in ns]
        return ps, ns
    if name in ("BET", "GAB"):
        ps = sorted(rng.uniform(0.02, 0.8) * s for _ in range(k))
    elif name in REL_ONLY:
        ps = sorted(rng.uniform(0.01, 0.9) for _ in range(k))
    else:
        ps = sorted(logu(rng, 0.02, 3.0) * s for _ in range(k))
    with np.errstate(all="ignore"):
        ns = [float(m.loading(np.float64(x))) for x in ps]
    return ps, ns


def _ints_for(name, par, fn):
    """Integers for the integer argument kinds, inside the validity range where there is one below 1."""
    if fn == "pressure":
        sat = SAT[name](par) if name in SAT else (par.get("n_m") if name in PEXPLICIT else None)
        return [i for i in (1, 2, 3) if sat is None or i < 0.9 * sat] or [1]
    if name in ("BET", "GAB"):
        pole = L.kscale(name, par)
        return [i for i in (1, 2, 3) if i < 0.9 * pole] or [1]
    if name in REL_ONLY:
        return [1]
    return [1, 2, 3]


def check_kinds(ck, np, pd, f, sig, vals, ints, kinds, must_work, closed, tol, compare=True, detail=None, f32_values=True):
    """One callable x the argument kinds: the argument is bitwise unchanged, the result has the argument's shape and equals the
    element-wise scalar results, a second call with the same object gives the identical answer; kinds in `must_work` may not raise
    where the scalar evaluation of every element works."""
    detail = detail or {}
    cache = {}
    fail = _capped(ck, 2)

    def ref_of(v):
        if v not in cache:
            st, r = _call(np, f, np.float64(v))
            try:
                cache[v] = (st, _first(np, r) if st == "ok" else repr(r)[:120])
            except Exception as e:  # noqa
                cache[v] = ("err", repr(e)[:120])
        return cache[v]

    for v in vals:          # scalar references first, from fresh scalars (nothing an in-place callee could have touched)
        ref_of(float(v))
    nbad = 0
    for kind, (arg, elems) in L.arg_kinds(np, pd, vals, ints).items():
        if kind not in kinds:
            continue
        ck.count(("kind", tuple(sorted(sig.items())), kind, tuple(vals)), bucket="kinds:" + kind)
        sk = {**sig, "argument": kind}
        before = L.snap(np, pd, arg)
        st1, r1 = _call(np, f, arg)
        if L.snap(np, pd, arg) != before:
            nbad += fail({**sk, "clause": "argument-unchanged"}, {**detail, "argument_before": repr(elems), "argument_after": repr(arg)[:300]})
            continue
        if st1 == "err":
            if kind in must_work and all(ref_of(e)[0] == "ok" for e in elems):
                nbad += fail({**sk, "clause": "scalars-and-arrays-alike", "how": "raises"}, {**detail, "argument": repr(arg)[:300], "error": repr(r1)[:300],
                                                                                                       "scalar_results": [ref_of(e)[1] for e in elems]})
            continue
        try:
            o1 = L.flat(np, r1)
        except Exception as e:  # noqa
            nbad += fail({**sk, "clause": "scalars-and-arrays-alike", "how": "not-numeric"}, {**detail, "argument": repr(arg)[:300], "result": repr(r1)[:300]})
            continue
        st2, r2 = _call(np, f, arg)
        o2 = L.flat(np, r2) if st2 == "ok" else None
        if L.snap(np, pd, arg) != before:
            nbad += fail({**sk, "clause": "argument-unchanged"}, {**detail, "argument_before": repr(elems), "argument_after": repr(arg)[:300]})
            continue
        if o2 is None or not L.same_numbers(o1, o2):
            nbad += fail({**sk, "clause": "second-call-identical"}, {**detail, "argument": repr(arg)[:300], "first": o1, "second": o2 if o2 is not None else repr(r2)[:200]})
            continue
        if len(o1) != len(elems) or (closed and isinstance(arg, np.ndarray) and arg.ndim >= 1 and np.shape(r1) != arg.shape):
            nbad += fail({**sk, "clause": "scalars-and-arrays-alike", "how": "shape"}, {**detail, "argument": repr(arg)[:300], "result_shape": list(np.shape(r1))})
            continue
        if not compare:
            continue
        if kind in ("f32", "f32scalar") and not f32_values:
            continue
        if kind in ("int", "i64", "i32") and not closed:
            continue            # (the integers need not lie in the range where a numerical inverse has a unique root)
        # (float32 input: numpy.log / a unit conversion of a float32 array works in single precision, 6e-8 times the sensitivity of the model)
        t = max(tol, 1e-3) if kind in ("f32", "f32scalar") else tol
        for e, o in zip(elems, o1):
            st, rv = ref_of(e)
            # an exponential-type value (Virial pressure = exp(polynomial)) carries a relative rounding error of eps * |ln value|: 1e-13 at 1e196
            te = t
            try:
                if rv is not None and math.isfinite(float(rv)) and float(rv) != 0:
                    te = max(t, 8 * 2.2e-16 * abs(math.log(abs(float(rv)))))
            except (TypeError, ValueError, OverflowError):
                pass
            if st == "ok" and not L.near(o, rv, te):
                nbad += fail({**sk, "clause": "scalars-and-arrays-alike", "how": "value"},
                                     {**detail, "argument": repr(arg)[:300], "element": e, "in_array": o, "as_scalar": rv, "tol": t})
                break
    return nbad


# ====================================================================================================================
#  2b. the whole declared parameter box x extreme low coverage ... validity limit
# ====================================================================================================================

def wide_sweep(ck, pg, np, models, note):
    from pygaps.utilities.exceptions import CalculationError
    rng = ck.rng
    fail = _capped(ck)
    nvec = ck.n(30, 250)
    n_low, n_high = ck.n(6, 12), ck.n(6, 12)
    ex_lines, ex_meta = [], []
    for name in models:
        for iv in range(nvec):
            par = L.sample_params_wide(name, rng) if iv % 2 else sample_params(name, rng)
            if name in L.QUAD_DEGENERATE and iv % 5 == 3:
                par = L.quad_degenerate_params(name, par, rng)      # C = N / C = 1 / Kb = 0 and their neighbourhood (findings S51-C10b)
            m = make(pg, name, par)
            sig0 = {"model": name, "region": "wide"}
            ck.count(("wide", name, tuple(par.values())), bucket="wide:" + name)
            if name in PEXPLICIT:
                # Henry limit decade by decade in the loading: n / p(n) -> K
                nmax = par.get("n_m", 5.0)
                ds = [d for d in range(0, 300) if 1e-9 * nmax * 10.0 ** (-d) > 1e-280 and 1e-9 * nmax * 10.0 ** (-d) / par["K"] > 1e-280]
                n0 = np.array([1e-9 * nmax * 10.0 ** (-d) for d in ds])
                with np.errstate(all="ignore"):
                    pp = np.asarray(m.pressure(n0.copy()), dtype=float)
                for d, a, b in zip(ds, n0, pp):
                    e = relerr(float(a) / float(b), par["K"]) if b > 0 else float("inf")
                    tol = 2e-7 * 10.0 ** (-d) + 1e-13
                    note(name + ".henry-decades/tol", e / tol)
                    if not e <= tol:
                        fail({**sig0, "clause": "henry"}, {"params": par, "n": float(a), "p": float(b), "slope": float(a) / float(b) if b else None, "expected": par["K"], "tol": tol})
                        break
                continue
            pts = sorted(L.sweep_pressures(name, par, rng, n_low, n_high), key=lambda t_: t_[1])
            if name in REL_ONLY:
                pts = [t_ for t_ in pts if t_[0] <= 0.99]      # (the inverse is ill-conditioned as p -> 1: covered by the moderate grid)
            xs = [x for x, _ in pts]
            ps = [p for _, p in pts]
            with np.errstate(all="ignore"):
                nn = np.asarray(m.loading(np.array(ps)), dtype=float)
            det = {"params": par, "pressures": ps, "loadings": nn.tolist()}
            if np.any(nn < 0) or np.any(~np.isfinite(nn)):
                fail({**sig0, "clause": "nonneg/finite"}, det)
            if np.any(np.diff(nn) < -1e-12 * np.abs(nn[1:])):
                fail({**sig0, "clause": "monotone"}, det)
            if name in SAT and np.any(nn > SAT[name](par) * (1 + 1e-12)):
                fail({**sig0, "clause": "saturation"}, {**det, "sat": SAT[name](par)})
            # exact value of the published rational equation (Lean, Q)
            if name in L.RATIONAL:
                plist = "[" + ";".join(qstr(float(par[k])) for k in m.param_names) + "]"
                for x, p1, n1 in list(zip(xs, ps, nn))[:: ck.n(2, 1)]:
                    if n1 > 1e-290 and math.isfinite(n1):
                        ex_lines.append(f"ev {name} loading {plist} {qstr(p1)}")
                        ex_meta.append((name, "loading", par, x, p1, float(n1)))
            # round trips with the tolerance of the inverse class
            pmax = ps[-1] if ps else 1.0
            for x, p1, n1 in zip(xs, ps, nn):
                if not (n1 > 1e-290) or not math.isfinite(n1):
                    continue            # (loading underflows: DR/DA far down the exponential tail)
                if name in ROOT_INV and (iv % 2 or not 1e-6 <= x <= 1e2):
                    continue            # numerical inverses: the box and range on which the library's solver was measured
                amp = 1.0
                if name in QUAD_INV:
                    # the quadratic-formula inverses (BET, GAB, DSLangmuir, Quadratic): RELATIVE accuracy over the whole box, from the extreme
                    # low-coverage end (findings S51-C10a: the textbook form of the root cancelled there; Props/C10/Findings.lean
                    # `textbook_sqrt_error`, `stable_sqrt_error`) to the validity limit, times the conditioning of the inverse (exact, rational),
                    # times -- BET / GAB -- the rounding of 1 - N p in the loading that is handed in
                    amp = L.quad_inverse_condition(name, par, p1) * (1 / (1 - x) if name in ("BET", "GAB") else 1.0)
                    amp = max(1.0, amp)
                    if not amp <= 1e6:
                        continue        # (so close to saturation that the loading itself does not determine the pressure to 1e-4)
                elif name in ("Langmuir", "Toth"):
                    th = n1 / par["n_m"]
                    if th >= 1 - 1e-9:
                        continue
                    # conditioning of the inverse (Props/C10/Exact.lean `exact_langmuirInv_rel`): d ln p / d ln n = 1 / (1 - theta^t)
                    amp = max(1.0, 1 / (1 - th), 1 / (1 - th ** par.get("t", 1.0)))
                try:
                    with np.errstate(all="ignore"):
                        back = _first(np, m.pressure(np.float64(n1)))
                except CalculationError:
                    continue
                e = relerr(back, p1)
                tol = (1e-4 if name in ROOT_INV else 1e-10) * amp
                if name in REL_ONLY:
                    tol = max(tol, 1e-15 * L.dubinin_condition(name, par, p1, float(n1)))
                    if not math.isfinite(tol):
                        continue
                note(name + ".wide.pressure∘loading/tol", e / tol)
                if not e <= tol:
                    fail({**sig0, "clause": "pressure(loading(p))=p"}, {"params": par, "p": p1, "K*p": x, "n": float(n1), "back": back, "tol": tol})
                    break
                if name == "Langmuir" and math.isfinite(back):
                    ex_lines.append(f"ev {name} pressure {plist} {qstr(float(n1))}")
                    ex_meta.append((name, "pressure", par, x, float(n1), back))
                if name in QUAD_INV and math.isfinite(back) and back > 1e-290:
                    # `pressure` alone against the exact model: the EXACT loading (Lean, Q) at the pressure the library returned is the
                    # loading that was asked for, to the accuracy the conditioning of the forward map leaves
                    ex_lines.append(f"ev {name} loading {plist} {qstr(back)}")
                    ex_meta.append((name, "residual", par, x, float(n1), (back, amp)))
            # the other composition from the saturation end: loading(pressure(n)) = n for n up to (1 - 1e-12) n_m
            if name in ("Langmuir", "Toth"):
                for _ in range(ck.n(3, 6)):
                    n1 = par["n_m"] * (1 - logu(rng, 1e-12, 0.5))
                    with np.errstate(all="ignore"):
                        p1 = float(m.pressure(np.float64(n1)))
                        fwd = float(m.loading(np.float64(p1))) if math.isfinite(p1) else float("nan")
                    if not math.isfinite(p1):
                        continue        # Toth with a small exponent: the pressure overflows before the loading reaches n_m
                    note(name + ".wide.loading∘pressure", relerr(fwd, n1))
                    if not relerr(fwd, n1) <= 1e-9:
                        fail({**sig0, "clause": "loading(pressure(n))=n"}, {"params": par, "n": n1, "p": p1, "fwd": fwd})
                        break
            # Henry limit decade by decade below the probe of the moderate oracle
            if name in HENRY:
                k = HENRY[name](par)
                p0 = L.henry_probe_of(name, par)
                alpha = L.henry_alpha(name, par)
                ds = [d for d in range(1, 300) if p0 * 10.0 ** (-d) > 1e-280 and k * p0 * 10.0 ** (-d) > 1e-280]
                pa = np.array([p0 * 10.0 ** (-d) for d in ds])
                with np.errstate(all="ignore"):
                    na = np.asarray(m.loading(pa.copy()), dtype=float) if ds else []
                for d, a, b in zip(ds, pa, na):
                    e = relerr(float(b) / float(a), k)
                    tol = 4e-9 * 10.0 ** (-d * alpha) + 1e-13
                    note(name + ".henry-decades/tol", e / tol)
                    if not e <= tol:
                        fail({**sig0, "clause": "henry"}, {"params": par, "p": float(a), "slope": float(b) / float(a), "expected": k, "tol": tol})
                        break
    # exact reference
    if ex_lines:
        try:
            replies = ck.drive("ModelEval", ex_lines)
        except Exception as e:  # noqa
            replies = None
            ck.broken.append({"step": "driver ModelEval", "what": str(e)[:600]})
        for (name, fn, par, x, arg, got), rep in zip(ex_meta, replies or []):
            t = rep.split()
            ck.count(("exact", name, fn, arg, tuple(par.values())), bucket=f"exact:{name}.{fn}")
            if t[0] != "ok":
                ck.broken.append({"step": "driver ModelEval", "what": {"model": name, "fn": fn, "reply": rep}})
                continue
            ex = parse_q(t[1])
            if fn == "residual":
                back, amp = got
                icond = 1 / L.quad_inverse_condition(name, par, back) if name in ("BET", "GAB") else 1.0      # d ln n / d ln p > 1 towards the pole
                tol = 2e-12 * max(1.0, icond)          # measured on the repaired tree: <= 1.5e-14 * icond (thorough, 5 seeds)
                e = float(abs(Fr(arg) - ex) / abs(Fr(arg)))
                note(f"{name}.pressure.exact-residual/tol", e / tol)
                if not e <= tol:
                    fail({"model": name, "region": "wide", "clause": "loading(pressure(n))=n", "fn": "pressure", "oracle": "exact"},
                         {"params": par, "loading": arg, "K*p": x, "library_pressure": back, "exact_loading_there": float(ex), "relative_error": e, "tol": tol})
                continue
            if fn == "loading":
                cond = 1 / (1 - x) if name in ("BET", "GAB") else 1.0       # 1 - N p is a difference of rounded numbers near the pole
                tol = 2e-13 + 2e-15 * cond
            else:
                th = arg / par["n_m"]
                tol = 2e-13 * max(1.0, 1 / (1 - th))
            e = float(abs(Fr(got) - ex) / abs(ex)) if ex != 0 else (0.0 if got == 0 else float("inf"))
            note(f"{name}.{fn}.vs-exact/tol", e / tol)
            if not e <= tol:
                fail({"model": name, "region": "wide", "clause": "value-of-the-published-equation", "fn": fn},
                             {"params": par, "argument": arg, "K*p": x, "library": got, "exact": float(ex), "relative_error": e, "tol": tol})
    ck.cov["exact_reference_cases"] = len(ex_lines)


# ====================================================================================================================
#  2d. numerical inverses are certified at the returned point (coverage strata up to 0.99 x parameter corners)
# ====================================================================================================================

def certified_inverses(ck, pg, np, models, note):
    """`pressure(loading(p)) = p` / `loading(pressure(n)) = n` WHEREVER THE NUMERICAL INVERSE RETURNS (the property: "numerical inverses ...
    only where the library reports success"): a refusal is outside the quantifier, an answer is inside it whatever the solver's own flag said.
    The point handed to the inverse is the closed-form direction's value at a known argument, so a root exists; the certificate is the
    closed-form direction evaluated at the RETURNED point (it does not assume that the root is unique).  Stratified: one jittered point in each
    of 18 coverage strata 0 ... 0.99 per parameter vector, so that a failure region of a fraction of a percent of the (coverage x parameter)
    box -- a solver that stalls on the steep approach to saturation for some shapes only -- is hit in the quick tier."""
    from pygaps.utilities.exceptions import CalculationError
    rng = ck.rng
    fail = _capped(ck)
    stats = {}
    for name in models:
        if name not in L.CERTIFIED:
            continue
        pexp = name in PEXPLICIT
        st = stats.setdefault(name, {"answered": 0, "refused": 0, "start_value_returned": 0, "worst_residual": 0.0})
        for iv in range(ck.n(L.CERTIFIED[name], 6 * L.CERTIFIED[name])):
            par = L.certified_params(name, rng, iv)
            m = make(pg, name, par)
            fwd, inv = (m.pressure, m.loading) if pexp else (m.loading, m.pressure)
            xs = L.certified_arguments(np, name, par, m, rng)
            ck.count(("cert", name, tuple(par.values())), bucket="certified-inverse:" + name)
            for j, (cov, x) in enumerate(xs):
                with np.errstate(all="ignore"):
                    y = float(fwd(np.float64(x)))
                if not (math.isfinite(y) and 1e-290 < y < 1e290):
                    continue
                kind = L.CERT_KINDS[(iv + j) % len(L.CERT_KINDS)]
                arg = L.cert_kind(np, kind, y)
                try:
                    with np.errstate(all="ignore"):
                        res = inv(arg)
                except CalculationError:
                    st["refused"] += 1          # the library reports the failure: outside the quantifier
                    continue
                except Exception as e:  # noqa
                    fail({"model": name, "region": "certified-inverse", "clause": "scalars-and-arrays-alike", "how": "raises", "fn": inv.__name__, "argument": kind},
                         {"params": par, "coverage": cov, "argument_value": y, "error": repr(e)[:300]})
                    continue
                st["answered"] += 1
                sig = {"model": name, "region": "certified-inverse", "clause": "numerical-inverse-certified-at-returned-point", "fn": inv.__name__, "argument": kind}
                try:
                    flat = np.asarray(res, dtype=float).ravel()
                    back = float(flat[0])
                    assert flat.size == 1
                except Exception:  # noqa
                    fail({**sig, "how": "not-one-number"}, {"params": par, "coverage": cov, "argument_value": y, "result": repr(res)[:300]})
                    continue
                with np.errstate(all="ignore"):
                    yb = float(fwd(np.float64(back)))
                e = relerr(yb, y) if math.isfinite(yb) else float("inf")
                if e <= 1e-6:
                    st["worst_residual"] = max(st["worst_residual"], e)
                    note(name + ".certified-inverse.residual", e)
                    continue
                det = {"params": par, "coverage_of_the_known_root": cov, "known_root": x, "argument_value": y, "returned": back,
                       ("pressure" if pexp else "loading") + "_at_returned": yb, "relative_residual": e, "tol": 1e-6}
                if pexp and back == 0.0:
                    # known findings S24c (FH-VST) / S24b (W-VST): the hybr iteration overflows in its first step and the START VALUE 0 comes back
                    # with success -- filed under the signature of those findings (measured: 1-12 of 10 000 points, small n_m; nothing else)
                    st["start_value_returned"] += 1
                    fail({"model": name, "clause": "loading(pressure(n))=n", "how": "start value 0.0 returned"}, det)
                    continue
                fail(sig, det)
    ck.cov["certified_inverses"] = {k: {**v, "worst_residual": float(f"{v['worst_residual']:.3g}")} for k, v in stats.items()}


# ====================================================================================================================
#  2c. every method x every argument kind on the bare models
# ====================================================================================================================

def arg_kinds_bare(ck, pg, np, pd, models):
    rng = ck.rng
    for name in models:
        for iv in range(ck.n(3, 12)):
            par = sample_params(name, rng)
            m = make(pg, name, par)
            pvals, nvals = _domain_values(np, name, par, m, rng)
            for fn in ("loading", "pressure", "spreading_pressure"):
                if fn == "spreading_pressure" and name in L.NO_SPREAD:
                    continue
                vals = nvals if fn == "pressure" else pvals
                if not all(math.isfinite(v) and v > 0 for v in vals) or len(set(vals)) < len(vals):
                    continue
                closed = L.closed_form(name, fn)
                scalar_only = fn == "spreading_pressure" and name in L.QUAD_SPREAD
                kinds = L.SCALAR_KINDS if scalar_only else L.SCALAR_KINDS + L.ARRAY_KINDS + L.SEQ_KINDS
                if not closed and not scalar_only:
                    kinds = tuple(k_ for k_ in kinds if k_ != "2d")          # a root solver takes vectors
                must = kinds if (closed or scalar_only) else ()
                must = tuple(k_ for k_ in must if k_ not in L.SEQ_KINDS)      # bare model methods take numbers and arrays
                # numerical inverses: the vector solve agrees with the scalar one to the solver's tolerance; the VST / Virial
                # inverses only for the unchanged argument and the repeatable answer (known findings S24, S24b, S24c)
                compare = closed or scalar_only or (name in ROOT_INV and name not in PEXPLICIT)
                tol = 1e-13 if closed else (1e-12 if scalar_only else 1e-3)
                if fn == "pressure" and name in QUAD_INV:
                    # quadratic-formula inverses in their cancellation-free form: a last-bit difference between numpy's scalar and array
                    # paths is amplified by the conditioning of the inverse at most (coverage <= 0.8 here; observed 2e-16 .. 1e-14)
                    tol = 1e-11
                check_kinds(ck, np, pd, getattr(m, fn), {"model": name, "fn": fn}, vals, _ints_for(name, par, fn), kinds, must, closed, tol,
                            compare=compare, detail={"params": par})


# ====================================================================================================================
#  3b. the same through ModelIsotherm.loading_at / pressure_at / spreading_pressure_at
# ====================================================================================================================

def _labels(rng, PST, LST, MST):
    st_p, st_l, st_m = rng.choice(PST), rng.choice(LST[:-2]), rng.choice(MST)
    return [st_p[0], st_p[1], st_l[0], st_l[1], st_m[0], st_m[1], "K"]


def _miso(pg, m, lab):
    return pg.ModelIsotherm(model=m, material="pgv_mat", adsorbate="pgv_stub", temperature=77.0,
                            pressure_mode=lab[0], pressure_unit=lab[1], loading_basis=lab[2], loading_unit=lab[3],
                            material_basis=lab[4], material_unit=lab[5], temperature_unit="K")


def through_isotherm(ck, pg, np, pd, models, w, PST, LST, MST, c03):
    rng = ck.rng
    P = w.props
    for it in range(ck.n(16, 96)):
        name = models[it % len(models)]
        par = sample_params(name, rng)
        lab = _labels(rng, PST, LST, MST)
        m = make(pg, name, par)
        miso = _miso(pg, m, lab)
        bare = miso.model
        pvals, nvals = _domain_values(np, name, par, bare, rng)
        if not all(math.isfinite(v) and v > 0 for v in pvals + nvals) or len(set(pvals)) < 5 or len(set(nvals)) < 5:
            continue
        convert = rng.random() < 0.5
        rq_p, rq_l, rq_m = rng.choice(PST), rng.choice(LST[:-2]), rng.choice(MST)
        kw_p = dict(pressure_mode=rq_p[0], pressure_unit=rq_p[1]) if convert else {}
        kw_l = dict(loading_basis=rq_l[0], loading_unit=rq_l[1], material_basis=rq_m[0], material_unit=rq_m[1]) if convert else {}
        f_p = P.scale_p(lab[0], lab[1]) / P.scale_p(rq_p[0], rq_p[1]) if convert else Fr(1)      # stored -> requested
        f_l = c03.expected_loading(P, lab, rq_l, rq_m, 1.0) if convert else Fr(1)
        qs = [float(frac(v) * f_p) for v in pvals]          # the pressures / loadings in the requested representation
        ls = [float(frac(v) * f_l) for v in nvals]
        base = {"model": name, "through": "ModelIsotherm", "converted": convert}
        det = {"params": par, "stored": [str(x) for x in lab[:6]], "requested": [str(x) for x in rq_p + rq_l + rq_m] if convert else None}
        all_kinds = L.SCALAR_KINDS + L.ARRAY_KINDS + L.SEQ_KINDS
        for meth, fn, vals, kw in (("loading_at", "loading", qs, {**kw_p, **kw_l}), ("pressure_at", "pressure", ls, {**kw_p, **kw_l}),
                                   ("spreading_pressure_at", "spreading_pressure", qs if (not convert or (lab[0] == "absolute" and rq_p[0] == "absolute")) else pvals,
                                    kw_p if (convert and lab[0] == "absolute" and rq_p[0] == "absolute") else {})):
            if fn == "spreading_pressure" and name in L.NO_SPREAD:
                continue
            closed = L.closed_form(name, fn)
            scalar_only = fn == "spreading_pressure" and name in L.QUAD_SPREAD
            kinds = L.SCALAR_KINDS if scalar_only else all_kinds
            if not closed and not scalar_only:
                kinds = tuple(k_ for k_ in kinds if k_ != "2d")
            must = kinds if (closed or scalar_only) else ()          # `numpy.asarray` in the accessor: sequences are arguments here
            compare = closed or scalar_only or (name in ROOT_INV and name not in PEXPLICIT)
            tol = 1e-13 if closed else (1e-12 if scalar_only else 1e-3)
            if fn == "pressure" and name in QUAD_INV:
                tol = 1e-11
            f = (lambda a, meth=meth, kw=kw: getattr(miso, meth)(a, **kw))
            nbad = check_kinds(ck, np, pd, f, {**base, "fn": meth}, vals, [1, 2, 3], kinds, must, closed, tol, compare=compare, detail=det, f32_values=not kw)
            # ... and the numbers are the bare model's after unit conversion (vector call, the caller's array kept)
            if nbad or not closed or name in QUAD_INV and fn == "pressure":
                continue
            arr = np.array(vals)
            st, got = _call(np, f, arr)
            if fn == "loading":
                exp = [float(frac(float(bare.loading(np.float64(float(frac(q) / f_p))))) * f_l) for q in vals]
            elif fn == "pressure":
                exp = [float(frac(float(bare.pressure(np.float64(float(frac(l_) / f_l))))) * f_p) for l_ in vals]
            else:
                fq = f_p if kw else Fr(1)
                exp = [float(bare.spreading_pressure(np.float64(float(frac(q) / fq)))) for q in vals]
            ck.count(("wrapv", name, meth, tuple(lab[:6]), convert), bucket="model-isotherm-vector")
            okk = st == "ok" and len(L.flat(np, got)) == len(exp) and all(L.near(a, b, 1e-9 if fn != "pressure" else 1e-7) for a, b in zip(L.flat(np, got), exp))
            if not okk:
                ck.fail_case({**base, "clause": "model-isotherm-wraps", "fn": meth}, {**det, "argument": vals, "got": L.flat(np, got) if st == "ok" else repr(got)[:300], "expected": exp})


# ====================================================================================================================
#  3c. whole-range evaluation ModelIsotherm.pressure(points, ...) / .loading(points, ...)
# ====================================================================================================================

def whole_range(ck, pg, np, pd, models, w, PST, LST, MST, c03):
    rng = ck.rng
    P = w.props
    cases, lines = [], []
    for it in range(ck.n(32, 192)):
        name = models[it % len(models)]
        par = sample_params(name, rng)
        m = make(pg, name, par)
        pvals, nvals = _domain_values(np, name, par, m, rng)
        if not all(math.isfinite(v) and v > 0 for v in pvals + nvals) or pvals[0] >= pvals[-1] or nvals[0] >= nvals[-1]:
            continue
        m.pressure_range = (pvals[0], pvals[-1])
        m.loading_range = (nvals[0], nvals[-1])
        lab = _labels(rng, PST, LST, MST)
        miso = _miso(pg, m, lab)
        npts = rng.choice([1, 2, 3, 5, 17, 60])
        lo, hi = (nvals[0], nvals[-1]) if name in PEXPLICIT else (pvals[0], pvals[-1])
        cases.append((name, par, miso, lab, npts, lo, hi))
        lines.append(f"lin {qstr(lo)} {qstr(hi)} {npts}")
    try:
        grids = ck.drive("ModelEval", lines)
    except Exception as e:  # noqa
        ck.broken.append({"step": "driver ModelEval", "what": str(e)[:600]})
        return
    plan, lines2 = [], []

    def pick_limits(approx):
        """limits for the accessor: not given / falsy / midpoints between two neighbouring expected values"""
        srt = sorted(set(approx))
        mids = [0.5 * (a + b) for a, b in zip(srt, srt[1:]) if b - a > 1e-6 * max(abs(a), abs(b))]
        r = rng.random()
        if r < 0.25 or not srt:
            return None
        if r < 0.35:
            return (None, None)
        if r < 0.45:
            return (0, None)
        if not mids:
            return (None, srt[-1] * 2 if srt[-1] > 0 else None)
        a = rng.choice(mids)
        b = rng.choice(mids)
        a, b = min(a, b), max(a, b)
        r = rng.random()
        return (a, None) if r < 0.3 else ((None, b) if r < 0.6 else ((a, b) if a < b else (a, None)))

    def lim_tok(lim):
        if lim is None:
            return "- -"
        return " ".join("~" if x is None else qstr(x) for x in lim)

    for (name, par, miso, lab, npts, lo, hi), rep in zip(cases, grids):
        t = rep.split()
        if t[0] != "ok":
            ck.broken.append({"step": "driver ModelEval", "what": rep})
            continue
        grid = [parse_q(x) for x in t[1][1:-1].split(";")] if t[1] != "[]" else []
        gf = [float(g) for g in grid]
        bare = miso.model
        convert = rng.random() < 0.6
        rq_p, rq_l, rq_m = rng.choice(PST), rng.choice(LST), rng.choice(MST)
        f_p = P.scale_p(lab[0], lab[1]) / P.scale_p(rq_p[0], rq_p[1]) if convert else Fr(1)
        f_l = c03.expected_loading(P, lab, rq_l, rq_m, 1.0) if convert else Fr(1)
        kw_p = dict(pressure_mode=rq_p[0], pressure_unit=rq_p[1]) if convert else {}
        kw_l = dict(loading_basis=rq_l[0], loading_unit=rq_l[1], material_basis=rq_m[0], material_unit=rq_m[1]) if convert else {}
        with np.errstate(all="ignore"):
            if name in PEXPLICIT:
                l_src = gf
                p_src = [float(bare.pressure(np.float64(g))) for g in gf]
            else:
                p_src = gf
                l_src = [float(bare.loading(np.float64(g))) for g in gf]
        for acc, src, f_, kw in (("pressure", p_src, f_p, kw_p), ("loading", l_src, f_l, kw_l)):
            if not all(math.isfinite(v) for v in src):
                continue
            approx = [float(frac(v) * f_) for v in src]
            lim = pick_limits(approx)
            indexed = rng.random() < 0.3
            plan.append((name, par, miso, lab, npts, acc, kw, lim, indexed, convert, (rq_p, rq_l, rq_m)))
            lines2.append(f"sel [{';'.join(qstr(v) for v in src)}] {qstr(f_)} {lim_tok(lim)}")
            if npts >= 2 and rng.random() < 0.35:
                # strictness of the limits: values of the accessor's OWN unfiltered answer as limits (exact ties whatever the conversion);
                # the unfiltered answer itself is compared with the model by the entry above or by another case
                st, u = _call(np, lambda a: getattr(miso, acc)(**a), dict(points=npts, **kw))
                if st == "ok" and len(L.flat(np, u)) >= 2 and all(math.isfinite(v) for v in L.flat(np, u)):
                    u = L.flat(np, u)
                    lo_, hi_ = min(u), max(u)
                    tie = rng.choice([(lo_, hi_), (lo_, None), (None, hi_), (u[len(u) // 2], None)])
                    plan.append((name, par, miso, lab, npts, acc, kw, tie, False, convert, (rq_p, rq_l, rq_m)))
                    lines2.append(f"sel [{';'.join(qstr(v) for v in u)}] 1/1 {lim_tok(tie)}")
    try:
        sels = ck.drive("ModelEval", lines2)
    except Exception as e:  # noqa
        ck.broken.append({"step": "driver ModelEval", "what": str(e)[:600]})
        return
    for (name, par, miso, lab, npts, acc, kw, lim, indexed, convert, rq), rep, line in zip(plan, sels, lines2):
        t = rep.split()
        if t[0] != "ok":
            ck.broken.append({"step": "driver ModelEval", "what": {"request": line[:300], "reply": rep}})
            continue
        exp = [float(parse_q(x)) for x in t[1][1:-1].split(";")] if t[1] != "[]" else []
        args = dict(points=npts, **kw)
        if lim is not None:
            args["limits"] = lim
        if indexed:
            args["indexed"] = True
        sig = {"clause": "model-isotherm-whole-range", "model": name, "accessor": acc, "converted": convert}
        ck.count(("range", name, acc, tuple(lab[:6]), npts, repr(lim), convert), bucket="whole-range:" + acc)
        st, got = _call(np, lambda a: getattr(miso, acc)(**a), args)
        det = {"params": par, "stored": [str(x) for x in lab[:6]], "range": [list(miso.model.pressure_range), list(miso.model.loading_range)],
               "call": {k_: (str(v) if not isinstance(v, (int, float, tuple, type(None))) else v) for k_, v in args.items()}}
        if st != "ok":
            ck.fail_case({**sig, "how": "raises"}, {**det, "error": repr(got)[:300]})
            continue
        if indexed and not isinstance(got, pd.Series):
            ck.fail_case({**sig, "how": "indexed"}, {**det, "type": type(got).__name__})
            continue
        gl = L.flat(np, got)
        if len(gl) != len(exp) or not all(L.near(a, b, 1e-9) for a, b in zip(gl, exp)):
            ck.fail_case({**sig, "how": "values"}, {**det, "got": gl, "expected": exp})
