"""C10 — model equations: inverse, zero, bounds, monotone, Henry limit.

Tie: the ℝ and Float copies of every closed-form model function are regenerated from modelling/*.py on
every run; the tie lemmas (Gen = published equation) and the property theorems are re-checked; the Float
copies are run against the Python originals (translator validation).  Failing-input search: the property
oracle below (compositions, zero point, sign, monotonicity, saturation, Henry slope) on the real model
classes over seeded parameter vectors in the declared bounds.
"""
import math

from pgv.core import import_pygaps

from pgv.models import (HENRY, PEXPLICIT, QUAD_INV, REL_ONLY, ROOT_INV, SAT, bits, henry_probe, logu, make, p_grid, relerr,
                        sample_params, unbits)


def run(ck):
    pg = import_pygaps()
    import numpy as np
    from pygaps.utilities.exceptions import CalculationError
    rng = ck.rng
    thorough = ck.tier == "thorough"
    nvec = ck.n(40, 300)
    npts = ck.n(12, 25)
    info = ck.gen_info.get("Models", {}).get("models", {})
    models = list(info) or ["Henry", "Langmuir", "DSLangmuir", "TSLangmuir", "BET", "GAB", "Freundlich", "DR", "DA", "Quadratic",
                            "TemkinApprox", "Toth", "JensenSeaton", "Virial", "FHVST", "WVST"]

    # ------------------------------------------------------------------ 1. translator validation: Gen.F vs Python
    lines, meta = [], []
    for name in models:
        fns = info.get(name, {}).get("functions", {})
        order = info.get(name, {}).get("params")
        if order is None:          # the translator could not render this model (already recorded as a broken tie): the oracle below still runs
            continue
        for _ in range(max(6, nvec // 6)):
            par = sample_params(name, rng)
            if name == "Quadratic" and rng.random() < 0.3:
                par["Ka"] *= -1 if rng.random() < 0.5 else 1
                par["Kb"] *= -0.01
            m = make(pg, name, par)
            plist = [par[k] for k in order] + ([m.minus_rt] if name in REL_ONLY else [])
            xs = p_grid(name, par, rng, 3)[:5]
            for fn, kind in fns.items():
                if not kind.startswith("closed"):
                    continue
                for x in xs:
                    arg = x
                    if fn == "pressure" and name not in PEXPLICIT:
                        arg = float(m.loading(x)) if name not in ROOT_INV else x
                    if fn == "loading" and name in PEXPLICIT:
                        continue
                    lines.append(f"ev {name} {fn} [{';'.join(bits(v) for v in plist)}] {bits(arg)}")
                    meta.append((name, fn, par, arg, m))
    tv_bad = 0
    if lines:
        try:
            replies = ck.drive("ModelsF", lines)
        except Exception as e:
            replies = None
            ck.broken.append({"step": "driver ModelsF", "what": str(e)[:600]})
        if replies:
            for (name, fn, par, arg, m), rep, line in zip(meta, replies, lines):
                try:
                    with np.errstate(all="ignore"):
                        py = float(getattr(m, fn)(np.float64(arg)))
                except Exception as e:  # noqa
                    py = None
                t = rep.split()
                ck.count(("tv", name, fn, arg, tuple(par.values())), bucket=f"translator:{name}.{fn}")
                if t[0] != "ok" or py is None:
                    ok = (t[0] != "ok" and py is None)
                else:
                    lean = unbits(t[1])
                    tol = 1e-6 if (name in QUAD_INV and fn == "pressure") else 1e-11
                    ok = (math.isnan(lean) and math.isnan(py)) or relerr(lean, py) <= tol or abs(lean - py) < 1e-300
                if not ok:
                    tv_bad += 1
                    if tv_bad <= 3:
                        ck.broken.append({"step": "translator validation Gen.F vs Python", "what": {"request": line, "lean": rep, "python": py}})
    ck.cov["translator_cases"] = len(lines)
    ck.cov["translator_disagreements"] = tv_bad

    # ------------------------------------------------------------------ 2. property oracle on the real classes
    worst = {}

    def note(k, v):
        worst[k] = max(worst.get(k, 0.0), v)

    for name in models:
        for iv in range(nvec):
            par = sample_params(name, rng)
            m = make(pg, name, par)
            ps = p_grid(name, par, rng, npts)
            sig0 = {"model": name}
            if name in PEXPLICIT:
                # pressure-explicit: arguments are loadings
                nmax = par.get("n_m", 5.0)
                ns = sorted(rng.uniform(0, 0.9) * nmax for _ in range(npts))
                with np.errstate(all="ignore"):
                    pp = np.asarray(m.pressure(np.array(ns)), dtype=float)
                ck.count(("prop", name, tuple(par.values())), bucket="oracle:" + name, sample={"model": name, "params": par, "loadings": ns[:3]} if iv == 0 else None)
                if float(m.pressure(np.float64(0.0))) != 0.0:
                    ck.fail_case({**sig0, "clause": "zero"}, {"params": par})
                if np.any(np.diff(pp) < -1e-12 * np.abs(pp[1:])) or np.any(pp < 0):
                    ck.fail_case({**sig0, "clause": "monotone/nonneg"}, {"params": par, "loadings": ns, "pressures": pp.tolist()})
                # Henry slope: n/p -> K
                n0 = 1e-9 * nmax
                hs = n0 / float(m.pressure(np.float64(n0)))
                if relerr(hs, HENRY[name](par)) > 1e-6:
                    ck.fail_case({**sig0, "clause": "henry"}, {"params": par, "slope": hs, "expected": HENRY[name](par)})
                # numerical inverse where the library reports success
                for n1, p1 in list(zip(ns, pp))[::4]:
                    if n1 <= 0:
                        continue
                    try:
                        with np.errstate(all="ignore"):
                            back = float(np.asarray(m.loading(np.float64(p1))).ravel()[0])
                    except CalculationError:
                        continue
                    tol = (2e-4 + 1e-3 * n1) if name == "Virial" else 1e-4 * max(n1, 1e-12)
                    note(name + ".loading∘pressure", abs(back - n1) / max(n1, 1e-300))
                    if abs(back - n1) > tol:
                        ck.fail_case({**sig0, "clause": "loading(pressure(n))=n"}, {"params": par, "n": n1, "p": float(p1), "back": back})
                        break
                continue
            with np.errstate(all="ignore"):
                nn = np.asarray(m.loading(np.array(ps)), dtype=float)
            ck.count(("prop", name, tuple(par.values())), bucket="oracle:" + name, sample={"model": name, "params": par, "pressures": ps[:3]} if iv == 0 else None)
            # scalar / 0-d / 1-d agree
            s0 = float(m.loading(np.float64(ps[1])))
            z0 = float(np.asarray(m.loading(np.array(ps[1]))))
            # (numpy's scalar and array exp() may differ in the last bit; far down the exponential tail that is 1-2e-14 relative)
            if max(relerr(s0, nn[1]), relerr(z0, nn[1])) > 1e-13:
                ck.fail_case({**sig0, "clause": "scalar-vs-array"}, {"params": par, "p": ps[1], "scalar": s0, "zero_d": z0, "array": float(nn[1])})
            # zero point
            if name not in REL_ONLY:
                with np.errstate(all="ignore"):
                    for zero in (0.0, np.float64(0.0), np.array(0.0), np.array([0.0])):
                        try:
                            z = float(np.asarray(m.loading(zero)).ravel()[0])
                        except Exception as e:  # noqa
                            z = repr(e)
                        if z != 0.0:
                            ck.fail_case({**sig0, "clause": "zero", "fn": "loading"}, {"params": par, "arg": repr(zero), "got": z})
                        if name not in ROOT_INV and name != "Freundlich" or name == "Freundlich":
                            if name in ROOT_INV:
                                continue
                            try:
                                z = float(np.asarray(m.pressure(zero)).ravel()[0])
                            except Exception as e:  # noqa
                                z = repr(e)
                            if z != 0.0:
                                ck.fail_case({**sig0, "clause": "zero", "fn": "pressure"}, {"params": par, "arg": repr(zero), "got": z})
            # sign, monotone, saturation
            if np.any(nn < 0) or np.any(~np.isfinite(nn)):
                ck.fail_case({**sig0, "clause": "nonneg/finite"}, {"params": par, "pressures": ps, "loadings": nn.tolist()})
            if np.any(np.diff(nn) < -1e-12 * np.abs(nn[1:])):
                ck.fail_case({**sig0, "clause": "monotone"}, {"params": par, "pressures": ps, "loadings": nn.tolist()})
            if name in SAT and np.any(nn > SAT[name](par) * (1 + 1e-12)):
                ck.fail_case({**sig0, "clause": "saturation"}, {"params": par, "loadings": nn.tolist(), "sat": SAT[name](par)})
            # Henry slope
            if name in HENRY:
                k = HENRY[name](par)
                p0 = henry_probe(name, par)
                hs = float(m.loading(np.float64(p0))) / p0
                note(name + ".henry", relerr(hs, k))
                if relerr(hs, k) > 1e-6:
                    ck.fail_case({**sig0, "clause": "henry"}, {"params": par, "p": p0, "slope": hs, "expected": k})
            # inverse compositions
            tol = 1e-5 if name in QUAD_INV else (1e-4 if name in ROOT_INV else 1e-10)
            for p1, n1 in list(zip(ps, nn))[:: (ck.n(3, 2))]:
                if n1 <= 0 or p1 <= 0:
                    continue
                if name in SAT and n1 > 0.95 * SAT[name](par) and name in QUAD_INV | {"Toth", "Langmuir"}:
                    continue      # cancellation close to saturation (tolerance table: up to 0.95 of saturation)
                try:
                    with np.errstate(all="ignore"):
                        back = float(np.asarray(m.pressure(np.float64(n1))).ravel()[0])
                except CalculationError:
                    continue
                e = relerr(back, p1)
                if name in QUAD_INV:
                    # cancellation in -y - sqrt(y^2 - 4xn): error is absolute on the scale of the pressure range
                    e = abs(back - p1) / (abs(p1) + 1e-3 * ps[-1])
                note(name + ".pressure∘loading", e)
                if not e <= tol:
                    ck.fail_case({**sig0, "clause": "pressure(loading(p))=p"}, {"params": par, "p": p1, "n": float(n1), "back": back, "tol": tol})
                if name not in QUAD_INV and name not in ROOT_INV:
                    with np.errstate(all="ignore"):
                        fwd = float(m.loading(np.float64(back)))
                    if relerr(fwd, n1) > 1e-9:
                        ck.fail_case({**sig0, "clause": "loading(pressure(n))=n"}, {"params": par, "n": float(n1), "fwd": fwd})
            # array form of the inverse
            if name in QUAD_INV:
                with np.errstate(all="ignore"):
                    arr = np.asarray(m.pressure(np.array([0.0, nn[2], nn[3]])), dtype=float)
                if arr[0] != 0.0 or abs(arr[1] - ps[2]) > 1e-5 * (ps[2] + 1e-3 * ps[-1]):
                    ck.fail_case({**sig0, "clause": "inverse-array"}, {"params": par, "got": arr.tolist(), "expected": [0.0, ps[2], ps[3]]})

    # ------------------------------------------------------------------ 3. model isotherm wraps the model with unit conversion
    import c01
    import c02
    import c03
    pg.Adsorbate("pgv_stub", store=True, molar_mass=28.5, saturation_pressure=123456.0, liquid_density=0.81, gas_density=0.0047,
                 liquid_molar_density=0.81 / 28.5, gas_molar_density=0.0047 / 28.5)
    pg.Material("pgv_mat", store=True, density=2.3, molar_mass=321.0)
    w = c02.World(pg, "stub", "pgv_stub", "pgv_mat", 77.0)
    PST = [("absolute", u) for u in c01.PA] + [("relative", None), ("relative%", None)]
    LST = [(b, u) for b in ("molar", "mass", "volume_gas", "volume_liquid") for u in c01.LTABLE[b]] + [("fraction", None), ("percent", None)]
    MST = [(b, u) for b in ("mass", "volume", "molar") for u in c01.MTABLE[b]]
    for it in range(ck.n(80, 400)):
        name = rng.choice(["Langmuir", "Henry", "Toth", "DSLangmuir", "Freundlich"])
        par = sample_params(name, rng)
        st_p, st_l, st_m = rng.choice(PST), rng.choice(LST[:-2]), rng.choice(MST)       # stored: physical loading (fraction: finding S5)
        rq_p, rq_l, rq_m = rng.choice(PST), rng.choice(LST), rng.choice(MST)
        lab = [st_p[0], st_p[1], st_l[0], st_l[1], st_m[0], st_m[1], "K"]
        miso = pg.ModelIsotherm(model=make(pg, name, par), material="pgv_mat", adsorbate="pgv_stub", temperature=77.0,
                                pressure_mode=lab[0], pressure_unit=lab[1], loading_basis=lab[2], loading_unit=lab[3],
                                material_basis=lab[4], material_unit=lab[5], temperature_unit="K")
        # a pressure of moderate coverage: near saturation pressure(loading) amplifies the last bit of the unit conversions without bound
        pn = 0.37 / max([1.0] + [v for k_, v in par.items() if k_.startswith("K")])
        bare = float(miso.model.loading(np.float64(pn)))
        qf = float(c03.expected_pressure(w.props, lab, rq_p, pn))
        sig = {"clause": "model-isotherm-wraps", "model": name, "stored": [str(x) for x in lab[:6]], "requested": [str(x) for x in rq_p + rq_l + rq_m]}
        ck.count(("wrap", name, tuple(lab[:6]), rq_p, rq_l, rq_m), bucket="model-isotherm")
        try:
            got = float(miso.loading_at(qf, pressure_mode=rq_p[0], pressure_unit=rq_p[1], loading_basis=rq_l[0], loading_unit=rq_l[1],
                                        material_basis=rq_m[0], material_unit=rq_m[1]))
            exp = float(c03.expected_loading(w.props, lab, rq_l, rq_m, bare))
            okk = relerr(got, exp) <= 1e-9
        except Exception as e:  # noqa
            got, exp, okk = repr(e), None, False
        if not okk:
            ck.fail_case(sig, {"params": par, "bare": bare, "through_isotherm": got, "expected": exp})
        if name != "DSLangmuir" and isinstance(got, float):
            # (fraction / percent requests: the loading the isotherm itself reports in that representation, so that this is the
            #  round trip pressure_at(loading_at(p, **u), **u) = p and does not depend on finding S5 of C03)
            lf = float(c03.expected_loading(w.props, lab, rq_l, rq_m, bare)) if rq_l[1] is not None else got
            try:
                # (for a fraction / percent input the library insists on *a* loading unit although none applies: any valid one)
                back = float(miso.pressure_at(lf, loading_basis=rq_l[0], loading_unit=rq_l[1] if rq_l[1] is not None else "g", material_basis=rq_m[0], material_unit=rq_m[1],
                                              pressure_mode=rq_p[0], pressure_unit=rq_p[1]))
                # the wrapper must return the bare model's pressure at that loading (not the round trip through loading(),
                # which is ill-conditioned near saturation), converted to the requested representation
                qb = float(c03.expected_pressure(w.props, lab, rq_p, float(miso.model.pressure(np.float64(bare)))))
                okk = relerr(back, qb) <= 1e-7
            except Exception as e:  # noqa
                back, okk, qb = repr(e), False, None
            if not okk:
                ck.fail_case({**sig, "fn": "pressure_at"}, {"params": par, "loading": lf, "got": back, "expected": qb})
    ck.cov["worst_relative_errors"] = {k: float(f"{v:.3g}") for k, v in sorted(worst.items())}
    ck.cov["rule"] = ("translator validation: every closed-form generated Float function vs its Python original on seeded parameter "
                      "vectors in bounds; property oracle: 16 models x seeded log-uniform parameter vectors x pressure grids in the validity "
                      "range (denser near 0 and the BET/GAB pole): compositions, zero point (scalar/0-d/1-d), sign, monotonicity, saturation, "
                      "Henry slope, scalar-vs-array; distinct = distinct (model, parameter vector[, function, argument])")
    ck.assumptions += ["numerical inverses (scipy.optimize.root / minimize) are specified by residual, checked only where the library reports success",
                       "IEEE rounding: tolerances per class of inverse (DESIGN section 7 table)"]
