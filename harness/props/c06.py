"""C06 — JSON export and import are exact inverses.

Lean: Props/C06.lean (decode ∘ encode = id on the stated domain; re-encoding reproduces the document; branch marks
round-trip under the hypothesis the proof forces — finding S10b).  Tie: correspondence of Model/Json.lean with the
real `isotherm_to_json` / `isotherm_from_json` on the very documents the library writes (the Lean driver parses the real JSON text).
Failing-input search: full round trips on real objects over the three classes, all unit configurations, metadata from a
JSON-value grammar, 1-40 points with every branch situation and extra columns, every model; string and file targets.
"""
import json
import os
import tempfile

from pgv import isogen
from pgv.core import import_pygaps
from pgv.models import REL_ONLY


def run(ck):
    pg = import_pygaps()
    import numpy as np
    from pygaps.parsing.json import isotherm_from_json, isotherm_to_json
    from pygaps.utilities.math_utilities import split_ads_data
    import pandas as pd
    rng = ck.rng
    thorough = ck.tier == "thorough"
    n = ck.n(220, 1500)
    tmpdir = tempfile.mkdtemp(prefix="pgv-json-")
    lines, plan = [], []
    try:
        for i in range(n):
            c = isogen.content(rng)
            sig = {"class": c["kind"]}
            try:
                iso = isogen.build(pg, c)
            except Exception as e:  # noqa
                ck.count(("build-refused", i), nontrivial=False, bucket="construction refused")
                continue
            # sometimes the isotherm reaches its representation through a permanent conversion (labels left by convert_*: e.g. unit None for fraction)
            if c["kind"] == "point" and c["units"]["loading_basis"] in ("molar", "mass") and c["adsorbate"] != "pgv_custom_gas" and rng.random() < 0.3:
                try:
                    iso.convert_loading(basis_to=rng.choice(["fraction", "percent"]))
                    sig["via_conversion"] = True
                except Exception:
                    iso = isogen.build(pg, c)
            before = isogen.observe(pg, iso)
            id0 = iso.iso_id
            # ------------------------------------------------ export / import (string or file)
            use_file = i % 3 == 0
            try:
                if use_file:
                    path = os.path.join(tmpdir, f"iso{i}.json")
                    isotherm_to_json(iso, path)
                    text = open(path, encoding="utf-8").read()
                    iso2 = isotherm_from_json(path)
                else:
                    text = isotherm_to_json(iso)
                    iso2 = isotherm_from_json(text)
            except Exception as e:  # noqa
                ck.count(("roundtrip", i), bucket=f"{c['kind']}:refused")
                ck.fail_case({**sig, "clause": "export/import raises", "error": type(e).__name__}, {"content": _short(c), "error": repr(e)[:300]})
                continue
            after = isogen.observe(pg, iso2)
            guess_differs = False
            if c["kind"] == "point":
                marks = c["branch"]
                if not any(marks):
                    g = [int(x) for x in split_ads_data(pd.DataFrame({"p": c["pressure"]}), "p")]
                    guess_differs = g != list(marks)
                sig["all_ads_marks_but_guess_differs"] = guess_differs
            ck.count(("roundtrip", c["kind"], i), bucket=f"{c['kind']}:{'file' if use_file else 'string'}",
                     sample={"document": text[:300]} if i % 97 == 0 else None)
            # the isotherm is not modified by exporting it
            if isogen.observe(pg, iso) != before or iso.iso_id != id0:
                ck.fail_case({**sig, "clause": "export modified the isotherm"}, {"content": _short(c)})
            # ------------------------------------------------ equality, key by key with types
            diffs = _diff(before, after)
            if diffs:
                ck.fail_case({**sig, "clause": "re-imported content differs", "where": diffs[0][0]}, {"differences": diffs[:4], "content": _short(c)})
            elif iso2.iso_id != id0 or not (iso2 == iso):
                ck.fail_case({**sig, "clause": "identifier differs although content is equal"}, {"ids": [id0, iso2.iso_id], "content": _short(c)})
            # ------------------------------------------------ second export reproduces the document
            try:
                text2 = isotherm_to_json(iso2)
            except Exception as e:  # noqa
                text2 = repr(e)
            if text2 != text and not diffs:
                ck.fail_case({**sig, "clause": "re-export differs from the document"}, {"first": text[:300], "second": text2[:300]})
            # ------------------------------------------------ model predictions
            if c["kind"] == "model" and not diffs:
                name = c["model"]["name"]
                grid = np.linspace(0.05, 0.9, 7)
                try:
                    with np.errstate(all="ignore"):
                        a = np.asarray(iso.model.pressure(grid) if iso.model.calculates == "pressure" else iso.model.loading(grid), dtype=float)
                        b = np.asarray(iso2.model.pressure(grid) if iso2.model.calculates == "pressure" else iso2.model.loading(grid), dtype=float)
                    if not np.allclose(a, b, rtol=1e-12, atol=0, equal_nan=True):
                        ck.fail_case({**sig, "clause": "model predictions differ after the round trip", "model": name}, {"before": a.tolist(), "after": b.tolist()})
                except Exception:
                    pass
            # ------------------------------------------------ requests for the Lean codec model
            lines.append("decode " + text)
            plan.append(("decode", c, after, sig, text))
            lines.append("encode " + json.dumps(_iso_json(before)))
            plan.append(("encode", c, text, sig, None))
        # ------------------------------------------------ fitted models with a hidden temperature term (DR / DA) on isotherms stored in °C
        for j in range(ck.n(3, 8)):
            name = rng.choice(["DR", "DA"])
            t_c = rng.choice([-195.795, -185.85, 25.0])
            rel = np.array(sorted(rng.uniform(1e-4, 0.95) for _ in range(14)))
            nm, e_ = rng.uniform(2, 9), rng.uniform(4e3, 2e4)
            load = nm * np.exp(-((-8.31446261815324 * (t_c + 273.15) * np.log(rel)) / e_) ** (2 if name == "DR" else 2.4))
            try:
                fit = pg.ModelIsotherm(pressure=rel, loading=load, model=name, material="pgv-synth", adsorbate="N2", temperature=t_c, temperature_unit="°C",
                                       pressure_mode="relative", pressure_unit=None, loading_basis="molar", loading_unit="mmol", material_basis="mass", material_unit="g")
                back = isotherm_from_json(isotherm_to_json(fit))
            except Exception as e:  # noqa
                ck.count(("fitted-skip", name, j), nontrivial=False, bucket="fitted DR/DA skipped: " + type(e).__name__)
                continue
            ck.count(("fitted", name, t_c, j), bucket="model:fitted " + name + " in °C")
            grid = np.linspace(0.05, 0.9, 7)
            a, b = np.asarray(fit.loading_at(grid), dtype=float), np.asarray(back.loading_at(grid), dtype=float)
            if not np.allclose(a, b, rtol=1e-12, atol=0):
                ck.fail_case({"class": "model", "clause": "model predictions differ after the round trip", "model": name, "fitted": True, "temperature_unit": "°C"},
                             {"temperature": t_c, "before": a.tolist(), "after": b.tolist()})
    finally:
        for f in os.listdir(tmpdir):
            os.remove(os.path.join(tmpdir, f))
        os.rmdir(tmpdir)
    # ------------------------------------------------------------------ correspondence
    try:
        replies = ck.drive("Json", lines)
    except Exception as e:
        replies = None
        ck.broken.append({"step": "driver Json", "what": str(e)[:600]})
    n_dis = 0
    if replies:
        for (kind, c, ref, sig, text), rep in zip(plan, replies):
            if rep in ("none", "bad-op"):
                ok = False
            else:
                got = json.loads(rep)
                if kind == "decode":
                    ok = _norm(got) == _norm(_iso_json(ref))
                else:
                    ok = _norm(got) == _norm(json.loads(ref))
            ck.count(("corr", kind, c["kind"]), nontrivial=False, bucket="correspondence:" + kind)
            if not ok:
                n_dis += 1
                if n_dis <= 3:
                    ck.broken.append({"step": f"correspondence Model/Json.lean ({kind})", "what": {"model": rep[:400], "implementation": (json.dumps(_iso_json(ref)) if kind == "decode" else ref)[:400]}})
    ck.cov["correspondence_disagreements"] = n_dis
    ck.cov["rule"] = ("seeded isotherm contents: metadata-only / point / model, all unit configurations (relative modes, fraction/percent, °C), metadata from a JSON-value grammar (unicode, number-, bool- and None-looking text, "
                      "ints up to 1e12, floats incl. ±0.0 / 1e-320 / 1.8e308, bools, None, flat lists, material dictionaries), 1-40 points with ads-only / two-branch / des-only / user-assigned marks and numeric, integer and text extra "
                      "columns, all 16 models; string and file targets; distinct = distinct generated content")
    ck.assumptions += ["python json module and pandas DataFrame.from_dict / to_dict", "Lean.Data.Json parser inside the driver"]


def _short(c):
    d = {k: v for k, v in c.items() if k not in ("pressure", "loading", "extra")}
    if "pressure" in c:
        d["n_points"] = len(c["pressure"])
        d["pressure_head"] = c["pressure"][:6]
    return json.loads(json.dumps(d, default=str))


def _diff(a, b):
    out = []
    if a["class"] != b["class"]:
        out.append(("class", a["class"], b["class"]))
    da, db = a["dict"], b["dict"]
    for k in sorted(set(da) | set(db), key=str):
        if k not in da or k not in db:
            out.append((f"metadata key {k!r}", da.get(k, "<absent>"), db.get(k, "<absent>")))
        elif not isogen.same_value(da[k], db[k]):
            out.append((f"metadata {k!r}", repr(da[k])[:80], repr(db[k])[:80]))
    if "columns" in a or "columns" in b:
        ca, cb = a.get("columns", {}), b.get("columns", {})
        for k in sorted(set(ca) | set(cb)):
            if k not in ca or k not in cb:
                out.append((f"data column {k!r}", k in ca, k in cb))
            elif k == "branch":
                if [int(x) for x in ca[k]] != [int(x) for x in cb[k]]:
                    out.append(("branch marks", ca[k][:12], cb[k][:12]))
            elif not isogen.same_value([_num(x) for x in ca[k]], [_num(x) for x in cb[k]]):
                out.append((f"data column {k!r}", ca[k][:5], cb[k][:5]))
    if a.get("model") != b.get("model") and not isogen.same_value(_jsonable(a.get("model")), _jsonable(b.get("model"))):
        out.append(("model", str(a.get("model"))[:200], str(b.get("model"))[:200]))
    return out


def _num(x):
    return float(x) if isinstance(x, (int, float)) and not isinstance(x, bool) else x


def _jsonable(x):
    return json.loads(json.dumps(x, default=float)) if x is not None else None


def _iso_json(obs):
    """The shape the Lean driver speaks: {"core": {...}, "rows": [...]} / {"core":…, "model":…} / {"core":…}."""
    out = {"core": _jsonable(obs["dict"])}
    if "columns" in obs:
        cols = obs["columns"]
        names = [c for c in cols if c != "branch"]
        rows = []
        for i in range(len(cols["pressure"])):
            r = {k: _jsonable(cols[k][i]) for k in names}
            r["branch"] = int(cols["branch"][i])
            rows.append(r)
        out["rows"] = rows
    elif "model" in obs:
        out["model"] = _jsonable(obs["model"])
    return out


def _norm(j):
    """Order-free, number-type-tolerant normal form of a parsed JSON value (1 vs 1.0 are told apart by the string form of ints)."""
    if isinstance(j, dict):
        return {k: _norm(v) for k, v in sorted(j.items())}
    if isinstance(j, list):
        return [_norm(v) for v in j]
    if isinstance(j, float):
        return float(repr(j))
    if isinstance(j, int) and not isinstance(j, bool) and abs(j) > 2 ** 63:
        return float(j)          # Lean prints 1.8e308 with all its digits; python reads that back as an int
    return j
