"""C06 — JSON export and import are exact inverses.

Lean: Props/C06.lean (decode ∘ encode = id on the stated domain; re-encoding reproduces the document; branch marks
round-trip under the hypothesis the proof forces — finding S10b).  Tie: correspondence of Model/Json.lean with the
real `isotherm_to_json` / `isotherm_from_json` on the very documents the library writes (the Lean driver parses the real JSON text).
Failing-input search: full round trips on real objects over the three classes, all unit configurations, metadata from a
JSON-value grammar, 1-40 points with every branch situation and extra columns, every model; string and file targets.

Missing values (isogen `missing=True`, about half of the contents): NaN cells in extra numeric columns, in pressure and in loading,
None cells in text and flag columns, whole columns missing — crossed with every branch layout (ads only / des only / two branches /
user list), because the importer takes a different path when the document carries a `branch` key; models without fit error / ranges
(NaN in the model dictionary), exact zeros, des-branch models.  The oracles compare cell by cell (NaN equals NaN only, None equals None
only), the identifier, and the second export byte for byte.  The Lean side: `Scalar.nan`, the step-by-step reader `decodeFrame`
(table with absent key -> missing cell, only the `branch` column rewritten) run on the same real documents as `decode`.
A table with NO pressure recorded at any point is part of this (random draws in `isogen.punch_missing` plus, every 27th content, one
built here with the branch layouts taken in turn): with all points adsorption the document carries no branch key and the reader guesses
the marks — S54-C06 (repaired in the repository: `split_ads_data` let pandas' ValueError of `idxmax` on an all-missing column through, so
the library could not read its own document).  Such cases carry `no_pressure_recorded: true` in their signature.
"""
import json
import os
import tempfile

from pgv import isogen
from pgv.core import import_pygaps
from pgv.models import REL_ONLY


def run(ck):
    pg = import_pygaps()
    import numpy as np
    from pygaps.parsing.json import isotherm_from_json, isotherm_to_json
    from pygaps.utilities.math_utilities import split_ads_data
    import pandas as pd
    rng = ck.rng
    thorough = ck.tier == "thorough"
    n = ck.n(220, 1500)
    tmpdir = tempfile.mkdtemp(prefix="pgv-json-")
    lines, plan = [], []
    try:
        for i in range(n):
            no_p = i % 27 == 7               # (7 mod 9: a content with gaps) a point table without any recorded pressure, layouts in turn
            c = isogen.content(rng, kind="point" if no_p else None, missing=(i % 9) in (1, 3, 5, 7))
            if no_p:
                _no_pressure(c, i // 27)
            sig = {"class": c["kind"]}
            if c["kind"] == "point" and all(isinstance(x, float) and x != x for x in c["pressure"]):
                sig["no_pressure_recorded"] = True
            if c.get("missing"):
                sig["gaps"] = sorted({g.split(":")[0] for g in c["missing"]})
            try:
                iso = isogen.build(pg, c)
            except Exception as e:  # noqa
                ck.count(("build-refused", i), nontrivial=False, bucket="construction refused")
                continue
            # sometimes the isotherm reaches its representation through a permanent conversion (labels left by convert_*: e.g. unit None for fraction)
            if c["kind"] == "point" and c["units"]["loading_basis"] in ("molar", "mass") and c["adsorbate"] != "pgv_custom_gas" and rng.random() < 0.3:
                try:
                    iso.convert_loading(basis_to=rng.choice(["fraction", "percent"]))
                    sig["via_conversion"] = True
                except Exception:
                    iso = isogen.build(pg, c)
            before = _observe(pg, iso)
            id0 = iso.iso_id
            # ------------------------------------------------ export / import (string or file)
            use_file = i % 3 == 0
            try:
                via_method = i % 2 == 1             # the isotherm's own `to_json` method or the parsing function: same document
                if use_file:
                    path = os.path.join(tmpdir, f"iso{i}.json")
                    iso.to_json(path) if via_method else isotherm_to_json(iso, path)
                    text = open(path, encoding="utf-8").read()
                    iso2 = isotherm_from_json(path)
                else:
                    text = iso.to_json() if via_method else isotherm_to_json(iso)
                    iso2 = isotherm_from_json(text)
                other = isotherm_to_json(iso) if via_method else iso.to_json()
                if other != text:
                    ck.fail_case({**sig, "clause": "method and function write different documents", "target": "file" if use_file else "string"},
                                 {"content": _short(c), "one": text[:300], "other": other[:300]})
            except Exception as e:  # noqa
                ck.count(("roundtrip", i), bucket=f"{c['kind']}:refused")
                ck.fail_case({**sig, "clause": "export/import raises", "error": type(e).__name__}, {"content": _short(c), "error": repr(e)[:300]})
                continue
            after = _observe(pg, iso2)
            guess_differs = False
            if c["kind"] == "point":
                marks = c["branch"]
                if not any(marks):
                    g = [int(x) for x in split_ads_data(pd.DataFrame({"p": c["pressure"]}), "p")]
                    guess_differs = g != list(marks)
                sig["all_ads_marks_but_guess_differs"] = guess_differs
                sig["layout"] = _layout(marks)
            ck.count(("roundtrip", c["kind"], i), bucket=f"{c['kind']}:{'file' if use_file else 'string'}",
                     sample={"document": text[:300]} if i % 97 == 0 else None)
            if c.get("missing"):
                ck.count(("gaps", i), nontrivial=False, bucket="gaps:" + (f"point, layout {sig['layout']}" if c["kind"] == "point" else "model"))
                for g in sig["gaps"]:
                    ck.count(("gap-kind", g, i), nontrivial=False, bucket="gaps in: " + g)
                if sig.get("no_pressure_recorded"):
                    ck.count(("no-pressure", i), nontrivial=False, bucket="no pressure recorded, layout " + sig["layout"])
            # the isotherm is not modified by exporting it
            if _diff(before, _observe(pg, iso)) or iso.iso_id != id0:
                ck.fail_case({**sig, "clause": "export modified the isotherm"}, {"content": _short(c)})
            # ------------------------------------------------ equality, key by key with types
            diffs = _diff(before, after)
            if diffs:
                ck.fail_case({**sig, "clause": "re-imported content differs", "where": diffs[0][0]}, {"differences": diffs[:4], "content": _short(c)})
            elif iso2.iso_id != id0 or not (iso2 == iso):
                ck.fail_case({**sig, "clause": "identifier differs although content is equal"}, {"ids": [id0, iso2.iso_id], "content": _short(c)})
            # ------------------------------------------------ second export reproduces the document
            try:
                text2 = isotherm_to_json(iso2)
            except Exception as e:  # noqa
                text2 = repr(e)
            if text2 != text and not diffs:
                ck.fail_case({**sig, "clause": "re-export differs from the document"}, {"first": text[:300], "second": text2[:300]})
            # ------------------------------------------------ model predictions
            if c["kind"] == "model" and not diffs:
                name = c["model"]["name"]
                grid = np.linspace(0.05, 0.9, 7)
                try:
                    with np.errstate(all="ignore"):
                        a = np.asarray(iso.model.pressure(grid) if iso.model.calculates == "pressure" else iso.model.loading(grid), dtype=float)
                        b = np.asarray(iso2.model.pressure(grid) if iso2.model.calculates == "pressure" else iso2.model.loading(grid), dtype=float)
                    if not np.allclose(a, b, rtol=1e-12, atol=0, equal_nan=True):
                        ck.fail_case({**sig, "clause": "model predictions differ after the round trip", "model": name}, {"before": a.tolist(), "after": b.tolist()})
                except Exception:
                    pass
            # ------------------------------------------------ requests for the Lean codec model
            lines.append("decode " + text)
            plan.append(("decode", c, after, sig, text))
            lines.append("decodeframe " + text)
            plan.append(("decodeframe", c, after, sig, text))
            lines.append("encode " + json.dumps(_iso_json(before)))
            plan.append(("encode", c, text, sig, None))
        # ------------------------------------------------ fitted models with a hidden temperature term (DR / DA) on isotherms stored in °C
        for j in range(ck.n(3, 8)):
            name = rng.choice(["DR", "DA"])
            t_c = [25.0, -195.795, -185.85][j % 3]        # every run has the temperature at which °C and K give clearly different predictions
            rel = np.array(sorted(rng.uniform(1e-4, 0.95) for _ in range(14)))
            nm, e_ = rng.uniform(2, 9), rng.uniform(4e3, 2e4)
            load = nm * np.exp(-((-8.31446261815324 * (t_c + 273.15) * np.log(rel)) / e_) ** (2 if name == "DR" else 2.4))
            try:
                fit = pg.ModelIsotherm(pressure=rel, loading=load, model=name, material="pgv-synth", adsorbate="N2", temperature=t_c, temperature_unit="°C",
                                       pressure_mode="relative", pressure_unit=None, loading_basis="molar", loading_unit="mmol", material_basis="mass", material_unit="g")
                back = isotherm_from_json(isotherm_to_json(fit))
            except Exception as e:  # noqa
                ck.count(("fitted-skip", name, j), nontrivial=False, bucket="fitted DR/DA skipped: " + type(e).__name__)
                continue
            ck.count(("fitted", name, t_c, j), bucket="model:fitted " + name + " in °C")
            grid = np.linspace(0.05, 0.9, 7)
            a, b = np.asarray(fit.loading_at(grid), dtype=float), np.asarray(back.loading_at(grid), dtype=float)
            if not np.allclose(a, b, rtol=1e-12, atol=0):
                ck.fail_case({"class": "model", "clause": "model predictions differ after the round trip", "model": name, "fitted": True, "temperature_unit": "°C"},
                             {"temperature": t_c, "before": a.tolist(), "after": b.tolist()})
        # ------------------------------------------------ every model kind as a FIT produces it (ranges taken from the data, fit error and
        # parameters as numpy scalars straight out of the optimiser), on either branch of two-branch data; model dictionary, predictions, document
        names = ["Henry", "Langmuir", "DSLangmuir", "TSLangmuir", "BET", "GAB", "Freundlich", "DR", "DA", "Quadratic", "TemkinApprox", "Toth",
                 "JensenSeaton", "Virial", "FHVST", "WVST"]
        rng.shuffle(names)
        for j in range(ck.n(10, 48)):
            name = names[j % len(names)]
            rel = name in REL_ONLY or rng.random() < 0.3
            npts = rng.choice([9, 14, 22])
            top = rng.uniform(0.5, 0.95) if rel else rng.uniform(0.8, 12.0)
            pa = np.array(sorted(rng.uniform(top * 2e-3, top) for _ in range(npts)))
            if rng.random() < 0.3:
                pa[0] = 0.0 if name not in ("DR", "DA", "Freundlich", "Virial", "TemkinApprox") else pa[0]     # a measured origin gives a range starting at exactly 0
            nm, kk = rng.uniform(1.5, 9), rng.uniform(0.5, 6) / top
            la = nm * kk * pa / (1 + kk * pa) * np.array([1 + 0.01 * rng.uniform(-1, 1) for _ in range(npts)])
            k = rng.randint(2, 5)
            pd_, ld_ = pa[::-1][1:k + 1], (la * 1.05)[::-1][1:k + 1]
            br = rng.choice(["ads", "des"]) if name not in ("DR", "DA") else "ads"
            # stored in K or in °C (models with a temperature term hidden outside their dictionary must come back with the same one)
            temp = ({"temperature": rng.choice([77.355, 87.3, 298.15]), "temperature_unit": "K"} if rng.random() < 0.5 else
                    {"temperature": rng.choice([25.0, 30.0, 50.0]), "temperature_unit": "°C"})
            frame = pd.DataFrame({"pressure": np.concatenate([pa, pd_]), "loading": np.concatenate([la, ld_]), "branch": [0] * npts + [1] * k})
            try:
                fit = pg.ModelIsotherm(isotherm_data=frame, pressure_key="pressure", loading_key="loading", branch=br, model=name, material="pgv-synth",
                                       adsorbate="N2", **temp,
                                       pressure_mode="relative" if rel else "absolute", pressure_unit=None if rel else rng.choice(isogen.PA),
                                       loading_basis="molar", loading_unit="mmol", material_basis="mass", material_unit="g", **isogen.metadata(rng, n=2))
            except Exception as e:  # noqa
                ck.count(("fit-skip", name, j), nontrivial=False, bucket="fit skipped: " + type(e).__name__)
                continue
            fsig = {"class": "model", "model": name, "fitted": True, "model_branch": br, "temperature_unit": temp["temperature_unit"]}
            before = _observe(pg, fit)
            try:
                text = isotherm_to_json(fit)
                back = isotherm_from_json(text)
                text2 = isotherm_to_json(back)
            except Exception as e:  # noqa
                ck.count(("fit-rt", name, j), bucket="model:fit of " + name)
                ck.fail_case({**fsig, "clause": "export/import raises", "error": type(e).__name__}, {"error": repr(e)[:300], "model_dict": str(before["model"])[:300]})
                continue
            ck.count(("fit-rt", name, j, br), bucket="model:fit of " + name)
            after = _observe(pg, back)
            diffs = _diff(before, after)
            if diffs:
                ck.fail_case({**fsig, "clause": "re-imported content differs", "where": diffs[0][0]}, {"differences": diffs[:4]})
            elif back.iso_id != fit.iso_id or not (back == fit):
                ck.fail_case({**fsig, "clause": "identifier differs although content is equal"}, {"ids": [fit.iso_id, back.iso_id]})
            elif text2 != text:
                ck.fail_case({**fsig, "clause": "re-export differs from the document"}, {"first": text[:300], "second": text2[:300]})
            if getattr(back, "branch", None) != br:
                ck.fail_case({**fsig, "clause": "branch of the model differs after the round trip"}, {"before": br, "after": getattr(back, "branch", None)})
            grid = np.linspace(float(pa[1]), float(pa[-1]), 7)
            try:
                with np.errstate(all="ignore"):
                    a, b = np.asarray(fit.loading_at(grid), dtype=float), np.asarray(back.loading_at(grid), dtype=float)
                    lg = np.linspace(float(min(la)) * 1.05 + 1e-3, float(max(la)) * 0.9, 5)
                    a2, b2 = np.asarray(fit.pressure_at(lg), dtype=float), np.asarray(back.pressure_at(lg), dtype=float)
            except Exception:
                a = b = a2 = b2 = None
            if a is not None and not (np.allclose(a, b, rtol=1e-12, atol=0, equal_nan=True) and np.allclose(a2, b2, rtol=1e-9, atol=0, equal_nan=True)):
                ck.fail_case({**fsig, "clause": "model predictions differ after the round trip"}, {"loading_before": a.tolist(), "loading_after": b.tolist(), "pressure_before": a2.tolist(), "pressure_after": b2.tolist()})
            lines.append("decode " + text)
            plan.append(("decode", {"kind": "model"}, after, fsig, text))
            lines.append("decodeframe " + text)
            plan.append(("decodeframe", {"kind": "model"}, after, fsig, text))
    finally:
        for f in os.listdir(tmpdir):
            os.remove(os.path.join(tmpdir, f))
        os.rmdir(tmpdir)
    # ------------------------------------------------------------------ correspondence
    try:
        replies = ck.drive("Json", lines)
    except Exception as e:
        replies = None
        ck.broken.append({"step": "driver Json", "what": str(e)[:600]})
    n_dis = 0
    if replies:
        for (kind, c, ref, sig, text), rep in zip(plan, replies):
            if rep in ("none", "bad-op"):
                ok = False
            else:
                got = json.loads(rep)
                if kind in ("decode", "decodeframe"):
                    ok = _norm(got) == _norm(_iso_json(ref))
                else:
                    ok = _norm(got) == _norm(json.loads(ref))
            ck.count(("corr", kind, c["kind"]), nontrivial=False, bucket="correspondence:" + kind)
            if not ok:
                n_dis += 1
                if n_dis <= 3:
                    ck.broken.append({"step": f"correspondence Model/Json.lean ({kind})", "what": {"model": rep[:400], "implementation": (json.dumps(_iso_json(ref)) if kind != "encode" else ref)[:400]}})
    ck.cov["correspondence_disagreements"] = n_dis
    ck.cov["rule"] = ("seeded isotherm contents: metadata-only / point / model, all unit configurations (relative modes, fraction/percent, °C), metadata from a JSON-value grammar (unicode, number-, bool- and None-looking text, "
                      "ints up to 1e12, floats incl. ±0.0 / 1e-320 / 1.8e308, bools, None, flat lists, material dictionaries), 1-40 points with ads-only / two-branch / des-only / user-assigned marks and numeric, integer and text extra "
                      "columns, all 16 models; string and file targets, method and function; 4 of 9 contents with missing values (NaN in extra numeric columns / pressure / loading, None in text and flag "
                      "columns, whole columns missing incl. the pressure column — no pressure recorded at any point —; models without fit error / ranges, exact zeros, des-branch models) crossed with every branch layout; every model kind as fitted from two-branch data; "
                      "content observed through to_dict() and through the attributes; distinct = distinct generated content")
    ck.assumptions += ["python json module and pandas DataFrame.from_dict / to_dict", "Lean.Data.Json parser inside the driver"]
    _attributes_section(ck, pg)         # E17 (new block below)


# ---------------------------------------------------------------------------------------------------- E17: NEW BLOCK (begin)
def _attributes_section(ck, pg):
    """Export + import keeps what the ATTRIBUTES say (unit labels, temperature in kelvin, material, adsorbate, metadata, class), read directly and
    not through `to_dict()` — the relation attributes <-> dictionary is `Model/Construct.toDict` (Props/C05/Construct.lean, Props/C06/Params.lean).
    Lives in harness/pgv/constructlib.py."""
    from pgv import constructlib
    constructlib.json_attributes_oracle(ck, pg)
    ck.cov["rule"] += " || attributes (E17): the seven unit labels, temperature [K], material, adsorbate, metadata and class read from the re-imported object's attributes"
# ---------------------------------------------------------------------------------------------------- E17: NEW BLOCK (end)


UNIT_ATTRS = ("pressure_mode", "pressure_unit", "loading_basis", "loading_unit", "material_basis", "material_unit", "temperature_unit")


def _plain(x):
    """numpy scalars -> python numbers, tuples -> lists (JSON cannot keep either apart), dict keys kept."""
    if hasattr(x, "item") and not isinstance(x, (list, tuple, dict, str)):
        try:
            return x.item()
        except Exception:
            return x
    if isinstance(x, (list, tuple)):
        return [_plain(v) for v in x]
    if isinstance(x, dict):
        return {k: _plain(v) for k, v in x.items()}
    return x


def _observe(pg, iso):
    """`isogen.observe` (through `to_dict()`, the writer's own view) PLUS the same content read from the object's attributes directly:
    a defect inside `to_dict` / `model.to_dict` distorts the first view of the original and of the re-imported isotherm alike and
    would cancel out; the attributes of the original do not pass through the code under test."""
    out = isogen.observe(pg, iso)
    a = {"material": str(iso.material), "material_properties": _plain(dict(getattr(iso.material, "properties", {}) or {})),
         "adsorbate": str(iso.adsorbate), "temperature_stored": _plain(iso._temperature), "metadata": _plain(dict(iso.properties))}
    for u in UNIT_ATTRS:
        a[u] = getattr(iso, u)
    if isinstance(iso, pg.ModelIsotherm):
        m = iso.model
        a["model"] = {"name": m.name, "rmse": _plain(m.rmse), "parameters": _plain(dict(m.params)), "pressure_range": _plain(m.pressure_range),
                      "loading_range": _plain(m.loading_range)}
        a["model_branch"] = iso.branch
    out["attrs"] = a
    return out


def _short(c):
    d = {k: v for k, v in c.items() if k not in ("pressure", "loading", "extra")}
    if "pressure" in c:
        d["n_points"] = len(c["pressure"])
        d["pressure_head"] = c["pressure"][:6]
        if len(c["pressure"]) <= 13:          # small tables in full: the replay file alone shows the failing input (NaN = missing cell)
            d["table"] = {"pressure": c["pressure"], "loading": c["loading"], **c["extra"]}
    return json.loads(json.dumps(d, default=str))


def _diff(a, b):
    out = []
    if a["class"] != b["class"]:
        out.append(("class", a["class"], b["class"]))
    da, db = a["dict"], b["dict"]
    for k in sorted(set(da) | set(db), key=str):
        if k not in da or k not in db:
            out.append((f"metadata key {k!r}", da.get(k, "<absent>"), db.get(k, "<absent>")))
        elif not isogen.same_value(da[k], db[k]):
            out.append((f"metadata {k!r}", repr(da[k])[:80], repr(db[k])[:80]))
    if "columns" in a or "columns" in b:
        ca, cb = a.get("columns", {}), b.get("columns", {})
        for k in sorted(set(ca) | set(cb)):
            if k not in ca or k not in cb:
                out.append((f"data column {k!r}", k in ca, k in cb))
            elif k == "branch":
                if [int(x) for x in ca[k]] != [int(x) for x in cb[k]]:
                    out.append(("branch marks", ca[k][:12], cb[k][:12]))
            elif not isogen.same_value([_num(x) for x in ca[k]], [_num(x) for x in cb[k]]):
                j = next((j for j, (x, y) in enumerate(zip(ca[k], cb[k])) if not isogen.same_value(_num(x), _num(y))), min(len(ca[k]), len(cb[k])))
                out.append((f"data column {k!r}", {"points": [len(ca[k]), len(cb[k])], "first_difference_at": j, "exported": ca[k][j:j + 4], "imported": cb[k][j:j + 4]}, None))
    if a.get("model") != b.get("model") and not isogen.same_value(_jsonable(a.get("model")), _jsonable(b.get("model"))):
        out.append(("model", str(a.get("model"))[:200], str(b.get("model"))[:200]))
    aa, ab = a.get("attrs", {}), b.get("attrs", {})
    for k in sorted(set(aa) | set(ab)):
        if not isogen.same_value(aa.get(k, "<absent>"), ab.get(k, "<absent>")):
            out.append((f"attribute {k}", repr(aa.get(k, "<absent>"))[:200], repr(ab.get(k, "<absent>"))[:200]))
    return out


def _no_pressure(c, k):
    """Turn a point content into a table in which no pressure was recorded at any point (every cell of the column missing), with the
    branch layout number `k` of ads / des / two / user (order of the pressures is immaterial here, so any marks are a valid layout)."""
    n = len(c["pressure"])
    c["pressure"] = [isogen.NAN] * n
    c["branch"] = [[0] * n, [1] * n, [0] * (n - n // 2) + [1] * (n // 2), [(j + 1) % 2 for j in range(n)]][k % 4]
    c["missing"] = [g for g in c.get("missing", []) if not g.startswith("pressure:")] + ["pressure:all"]


def _layout(marks):
    if not any(marks):
        return "ads"
    if all(marks):
        return "des"
    return "two" if list(marks) == sorted(marks) else "user"


def _num(x):
    return float(x) if isinstance(x, (int, float)) and not isinstance(x, bool) else x


def _jsonable(x):
    return json.loads(json.dumps(x, default=float)) if x is not None else None


def _iso_json(obs):
    """The shape the Lean driver speaks: {"core": {...}, "rows": [...]} / {"core":…, "model":…} / {"core":…}."""
    out = {"core": _jsonable(obs["dict"])}
    if "columns" in obs:
        cols = obs["columns"]
        names = [c for c in cols if c != "branch"]
        rows = []
        for i in range(len(cols["pressure"])):
            r = {k: _jsonable(cols[k][i]) for k in names}
            r["branch"] = int(cols["branch"][i])
            rows.append(r)
        out["rows"] = rows
    elif "model" in obs:
        out["model"] = _jsonable(obs["model"])
    return out


def _norm(j):
    """Order-free, number-type-tolerant normal form of a parsed JSON value (1 vs 1.0 are told apart by the string form of ints)."""
    if isinstance(j, dict):
        if list(j) == ["$pgv"]:
            return "$" + j["$pgv"]       # the driver's spelling of NaN / ±Infinity
        return {k: _norm(v) for k, v in sorted(j.items())}
    if isinstance(j, list):
        return [_norm(v) for v in j]
    if isinstance(j, float):
        if j != j:
            return "$NaN"
        if j in (float("inf"), float("-inf")):
            return "$Infinity" if j > 0 else "$-Infinity"
        return float(repr(j))
    if isinstance(j, int) and not isinstance(j, bool) and abs(j) > 2 ** 63:
        return float(j)          # Lean prints 1.8e308 with all its digits; python reads that back as an int
    return j
