"""C13 — IAST results satisfy the IAST equations and known closed forms.

Lean: Props/C13.lean over Model/Iast.lean (the arithmetic around the root finding, run at ℚ against the real functions) and
Gen/ModelsR.lean (spreading pressures regenerated from the source): fractions sum to one, loadings sum to the total and obey ideal
mixing, Henry and equal-capacity Langmuir closed forms solve the equations, uniqueness of the solution for strictly increasing
spreading pressures (hence permutation equivariance and forward/reverse inversion).  The root finding is numerical: each returned
result is decided by certificate — the IAST equations are re-evaluated on the given isotherms (library spreading pressure AND an
independent quadrature of loading/p).
"""
import math

from pgv.charlib import parse_q, parse_qlist, q, qlist, quiet_logging
from pgv.core import import_pygaps
from pgv.models import logu, relerr, sample_params

IAST_OK = ["Henry", "Langmuir", "DSLangmuir", "TSLangmuir", "Quadratic", "TemkinApprox", "Toth", "JensenSeaton"]


def run(ck):
    pg = import_pygaps()
    import numpy as np
    from scipy import integrate
    import pygaps.iast as pgi
    from pygaps.modelling import get_isotherm_model
    from pygaps.utilities.exceptions import CalculationError, ParameterError
    quiet_logging()
    np.seterr(all="ignore")
    rng = ck.rng
    thorough = ck.tier == "thorough"
    N = ck.n(45, 240)
    worst = {}
    lines, plan = [], []

    def note(k, v):
        worst[k] = max(worst.get(k, 0.0), v)
        return v

    def model_iso(name, par, ads):
        model = get_isotherm_model(name, parameters={k: np.float64(v) for k, v in par.items()}, pressure_range=(0.0, 1e4), loading_range=(0.0, 1e3))
        return pg.ModelIsotherm(model=model, branch="ads", material="pgv-synth", adsorbate=ads, temperature=300.0, pressure_mode="absolute", pressure_unit="bar",
                                loading_basis="molar", loading_unit="mmol", material_basis="mass", material_unit="g", temperature_unit="K")

    def pars(name):
        par = sample_params(name, rng)
        # affinities within a few decades of each other so that no component is a trace
        for k in par:
            if k.startswith("K") and name != "Quadratic":
                par[k] = logu(rng, 0.05, 20)
            if k.startswith("n_m"):
                par[k] = rng.uniform(1, 8)
        if name == "Quadratic":
            par = {"n_m": rng.uniform(1, 5), "Ka": logu(rng, 0.05, 5), "Kb": logu(rng, 0.01, 2)}
        if name == "TemkinApprox":
            par["tht"] = rng.uniform(0, 0.5)
        if name == "JensenSeaton":
            par = {"K": logu(rng, 0.5, 20), "a": rng.uniform(2, 8), "b": logu(rng, 1e-3, 0.1), "c": rng.uniform(0.5, 2)}
        return par

    def quad_pi(iso, p0):
        val, err = integrate.quad(lambda p: float(iso.loading_at(p)) / p if p > 0 else 0.0, 0, p0, limit=400, epsabs=0, epsrel=1e-11)
        if iso.model.name in ("Henry", "Langmuir", "DSLangmuir", "TSLangmuir", "Toth", "Quadratic", "JensenSeaton", "TemkinApprox"):
            # remove the integrable 0/0 at the origin analytically: n(p)/p -> Henry slope, quad handles it
            pass
        return val

    ADS = ["N2", "CO2", "CH4", "C2H6"]

    def certificate(isos, pp, loads, sig, detail, independent=True):
        loads = np.asarray(loads, dtype=float)
        tot = float(np.sum(loads))
        x = loads / tot
        if np.any(x < -1e-12) or np.any(x > 1 + 1e-12) or abs(float(np.sum(x)) - 1) > 1e-12:
            ck.fail_case({**sig, "clause": "adsorbed mole fractions not in [0,1] or not summing to one"}, {**detail, "x": x.tolist()})
            return None
        trace = bool(np.min(x) < 1e-5)
        p0 = np.asarray(pp, dtype=float) / x
        try:
            sp = np.array([float(iso.spreading_pressure_at(p)) for iso, p in zip(isos, p0)])
            n0 = np.array([float(iso.loading_at(p)) for iso, p in zip(isos, p0)])
        except Exception as e:  # noqa
            ck.count(("cert-skip",), nontrivial=False, bucket="certificate skipped (fictitious pressure outside data)")
            return None
        e = float((np.max(sp) - np.min(sp)) / max(np.max(np.abs(sp)), 1e-300))
        note("equal spreading pressure (library)", e if not trace else 0.0)
        if not (e <= 1e-6):
            ck.fail_case({**sig, "clause": "spreading pressures at the fictitious pressures differ", "trace_component": trace}, {**detail, "x": x.tolist(), "spreading_pressures": sp.tolist(), "relative_spread": e})
        e = relerr(1 / tot, float(np.sum(x / n0)))
        note("ideal mixing", e)
        if not (e <= 1e-9):
            ck.fail_case({**sig, "clause": "total loading violates the ideal-mixing rule"}, {**detail, "total": tot, "expected": 1 / float(np.sum(x / n0))})
        if independent and not trace:
            spq = np.array([quad_pi(iso, p) for iso, p in zip(isos, p0)])
            e = float((np.max(spq) - np.min(spq)) / max(np.max(np.abs(spq)), 1e-300))
            temkin = any(getattr(i, "model", None) is not None and i.model.name == "TemkinApprox" for i in isos)
            note("equal spreading pressure (quadrature)" + (" Temkin" if temkin else ""), e)
            if not (e <= 1e-5):
                ck.fail_case({**sig, "clause": "independent spreading pressures (quadrature of loading/p) differ", "temkin_involved": temkin},
                             {**detail, "x": x.tolist(), "quadrature": spq.tolist(), "library": sp.tolist(), "relative_spread": e})
        return x, n0, tot

    for i in range(N):
        nc = rng.choice([2, 2, 2, 3, 4])
        kind = rng.choice(["model", "model", "model", "point", "henry", "langmuir-eq"])
        if kind == "henry":
            names = ["Henry"] * nc
        elif kind == "langmuir-eq":
            names = ["Langmuir"] * nc
        elif kind == "point":
            names = [rng.choice(["Langmuir", "Toth", "DSLangmuir"]) for _ in range(nc)]
        else:
            names = [rng.choice(IAST_OK) for _ in range(nc)]
        plist = [pars(n) for n in names]
        if kind == "langmuir-eq":
            nm = rng.uniform(1, 8)
            for p_ in plist:
                p_["n_m"] = nm
        isos = [model_iso(n, p_, a) for n, p_, a in zip(names, plist, ADS)]
        if kind == "point":
            grid = np.geomspace(1e-4, 2e3, 500)
            if rng.random() < 0.5:
                grid = np.concatenate([[0.0], grid])          # a measured origin (0, 0)
            isos = [pg.PointIsotherm.from_modelisotherm(m, pressure_points=grid) for m in isos]
        ptot = logu(rng, 0.05, 20)
        y = np.array([rng.uniform(0.1, 1) for _ in range(nc)])
        y = y / np.sum(y)
        pp = ptot * y
        sig = {"kind": kind, "components": nc}
        detail = {"models": names, "params": plist, "partial_pressures": pp.tolist()}
        ck.count(("iast", kind, nc, tuple(names), i), bucket=f"iast_point:{kind}:{nc} components", sample={"models": names, "partial_pressures": pp.tolist()} if i % 30 == 0 else None)
        guess = None
        if rng.random() < 0.25:
            g = np.array([rng.uniform(0.2, 1) for _ in range(nc)])
            guess = (g / np.sum(g)).tolist()
        try:
            loads = np.asarray(pgi.iast_point(isos, pp, warningoff=True, adsorbed_mole_fraction_guess=guess), dtype=float)
        except (CalculationError, ParameterError):
            ck.count(("refused", kind, i), nontrivial=False, bucket="iast_point refused (no convergence reported)")
            continue
        except Exception as e:  # noqa
            ck.fail_case({**sig, "clause": "iast_point raises a non-pyGAPS error", "error": type(e).__name__}, {**detail, "error": repr(e)[:300]})
            continue
        cert = certificate(isos, pp, loads, sig, detail, independent=(kind != "point" and i % 2 == 0))
        # closed forms
        if kind == "henry":
            want = np.array([p_["K"] for p_ in plist]) * pp
            e = float(np.max(np.abs(loads - want) / want))
            note("Henry closed form", e)
            if e > 1e-6:
                ck.fail_case({**sig, "clause": "Henry mixture differs from the closed form n_i = K_i p_i"}, {**detail, "got": loads.tolist(), "expected": want.tolist()})
        if kind == "langmuir-eq":
            ks = np.array([p_["K"] for p_ in plist])
            want = plist[0]["n_m"] * ks * pp / (1 + float(np.sum(ks * pp)))
            e = float(np.max(np.abs(loads - want) / want))
            note("equal-capacity Langmuir closed form", e)
            if e > 1e-6:
                ck.fail_case({**sig, "clause": "equal-capacity Langmuir mixture differs from the extended-Langmuir closed form"}, {**detail, "got": loads.tolist(), "expected": want.tolist()})
        if cert is None:
            continue
        x, n0, tot = cert
        # arithmetic correspondence
        if nc <= 4:
            lines.append(f"finish {qlist(x[:-1])} {qlist(n0)}")
            plan.append(("finish", (x, tot, loads)))
        # permutation
        perm = list(range(nc))
        rng.shuffle(perm)
        if perm != list(range(nc)):
            try:
                l2 = np.asarray(pgi.iast_point([isos[j] for j in perm], pp[perm], warningoff=True), dtype=float)
                e = float(np.max(np.abs(l2 - loads[perm]) / np.maximum(loads[perm], 1e-300)))
                note("permutation", e)
                if e > 1e-5:
                    ck.fail_case({**sig, "clause": "result changes when the components are permuted", "trace_component": bool(min(np.min(l2 / np.sum(l2)), np.min(x)) < 1e-5)}, {**detail, "permutation": perm, "got": l2.tolist(), "expected": loads[perm].tolist()})
            except CalculationError:
                pass
        # fraction helper
        try:
            l3 = np.asarray(pgi.iast_point_fraction(isos, y, ptot, warningoff=True), dtype=float)
            if guess is None and not np.allclose(l3, loads, rtol=1e-9, atol=0):
                ck.fail_case({**sig, "clause": "iast_point_fraction differs from the point calculation"}, {**detail, "fractions": y.tolist(), "total_pressure": ptot, "got": l3.tolist(), "expected": loads.tolist()})
            lines.append(f"pp {qlist(y)} {q(ptot)}")
            plan.append(("pp", pp))
        except CalculationError:
            pass
        # reverse problem inverts the forward one
        if i % 2 == 0 and np.min(x) > 1e-4:
            try:
                y2, l4 = pgi.reverse_iast(isos, x, ptot, warningoff=True)
                e = float(np.max(np.abs(np.asarray(y2) - y) / y))
                note("reverse∘forward", e)
                if not (e <= 1e-5) or not np.allclose(np.asarray(l4, dtype=float), loads, rtol=1e-5):
                    ck.fail_case({**sig, "clause": "reverse IAST does not invert the forward calculation"}, {**detail, "x": x.tolist(), "gas_fractions_back": np.asarray(y2).tolist(), "expected": y.tolist()})
            except (CalculationError, ParameterError):
                ck.count(("rev-refused", i), nontrivial=False, bucket="reverse_iast refused")
            except Exception as e:  # noqa
                ck.fail_case({**sig, "clause": "reverse_iast raises a non-pyGAPS error", "error": type(e).__name__}, {**detail, "error": repr(e)[:300]})
        # binary helpers
        if nc == 2 and i % 3 == 0 and guess is None:
            try:
                pr = [ptot, ptot * 2]
                svp = pgi.iast_binary_svp(isos, [float(y[0]), 1 - float(y[0])], pr, warningoff=True)
                yy = np.array([float(y[0]), 1 - float(y[0])])
                ref = [np.asarray(pgi.iast_point(isos, yy * p_, warningoff=True), dtype=float) for p_ in pr]
                want = [(r[0] / yy[0]) / (r[1] / yy[1]) for r in ref]
                if not np.allclose(np.asarray(svp["selectivity"], dtype=float), want, rtol=1e-9):
                    ck.fail_case({**sig, "clause": "iast_binary_svp differs from the point calculation"}, {**detail, "got": [float(v) for v in svp["selectivity"]], "expected": [float(v) for v in want]})
                lines.append(f"sel {q(ref[0][0])} {q(ref[0][1])} {q(yy[0])} {q(yy[1])}")
                plan.append(("sel", float(svp["selectivity"][0])))
                vle = pgi.iast_binary_vle(isos, ptot, npoints=4, warningoff=True)
                ys = np.linspace(0.01, 0.99, 4)
                xs = []
                for yv in ys:
                    r = np.asarray(pgi.iast_point(isos, np.array([yv, 1 - yv]) * ptot, warningoff=True), dtype=float)
                    xs.append(r[0] / (r[0] + r[1]))
                if not (np.allclose(vle["x"][1:-1], xs, rtol=1e-9) and np.allclose(vle["y"][1:-1], ys) and vle["x"][0] == 0 and vle["x"][-1] == 1):
                    ck.fail_case({**sig, "clause": "iast_binary_vle differs from the point calculation"}, {**detail, "got": [float(v) for v in vle["x"]], "expected": [0.0] + [float(v) for v in xs] + [1.0]})
            except CalculationError:
                pass
            except ParameterError as e:
                ck.count(("svp-param", i), nontrivial=False, bucket="binary helper refused: " + str(e)[:40])

    # -------------------------------------------------------------------- helpers on the desorption branch of hysteretic point isotherms
    for i in range(max(4, N // 8)):
        isos_h = []
        for ads, (k_a, k_d, nm) in zip(ADS, [(rng.uniform(0.5, 3), rng.uniform(4, 9), rng.uniform(3, 8)) for _ in range(2)]):
            pa_ = np.geomspace(1e-3, 50, 60)
            pd_ = pa_[::-1][1:]
            la_ = nm * k_a * pa_ / (1 + k_a * pa_)
            ld_ = nm * k_d * pd_ / (1 + k_d * pd_)
            isos_h.append(pg.PointIsotherm(pressure=np.concatenate([pa_, pd_]), loading=np.concatenate([la_, ld_]), branch=[0] * len(pa_) + [1] * len(pd_), material="pgv-synth",
                                           adsorbate=ads, temperature=300.0, pressure_mode="absolute", pressure_unit="bar", loading_basis="molar", loading_unit="mmol",
                                           material_basis="mass", material_unit="g", temperature_unit="K"))
        yv, ptot = rng.uniform(0.2, 0.8), logu(rng, 0.1, 5)
        yy = np.array([yv, 1 - yv])
        for br in ("ads", "des"):
            ck.count(("helpers-branch", br, i), bucket="helpers on branch " + br)
            try:
                ref = np.asarray(pgi.iast_point(isos_h, yy * ptot, branch=br, warningoff=True), dtype=float)
                frac = np.asarray(pgi.iast_point_fraction(isos_h, yy, ptot, branch=br, warningoff=True), dtype=float)
                svp = pgi.iast_binary_svp(isos_h, [float(yy[0]), float(yy[1])], [ptot], branch=br, warningoff=True)
                vle = pgi.iast_binary_vle(isos_h, ptot, branch=br, npoints=3, warningoff=True)
                ys = np.linspace(0.01, 0.99, 3)
                xs = []
                for yk in ys:
                    r_ = np.asarray(pgi.iast_point(isos_h, np.array([yk, 1 - yk]) * ptot, branch=br, warningoff=True), dtype=float)
                    xs.append(r_[0] / (r_[0] + r_[1]))
            except (CalculationError, ParameterError):
                continue
            sel = (ref[0] / yy[0]) / (ref[1] / yy[1])
            if not np.allclose(frac, ref, rtol=1e-9) or not np.allclose(svp["selectivity"], [sel], rtol=1e-9) or not np.allclose(vle["x"][1:-1], xs, rtol=1e-9):
                ck.fail_case({"kind": "hysteretic point", "components": 2, "clause": "helper differs from the point calculation on the requested branch", "branch": br},
                             {"fractions": yy.tolist(), "total_pressure": ptot, "point": ref.tolist(), "iast_point_fraction": frac.tolist(),
                              "selectivity": [float(v) for v in svp["selectivity"]], "expected_selectivity": float(sel)})

    # -------------------------------------------------------------------- spurious roots: whatever is returned must have fractions in [0,1]
    # (models whose spreading pressure is also defined for negative pressures - Quadratic, Henry - as a minor component in any position,
    #  with user starting guesses far from the solution)
    for i in range(N):
        nc = rng.choice([3, 3, 4])
        names = [rng.choice(["Langmuir", "Henry", "Toth", "DSLangmuir"]) for _ in range(nc)]
        pos = rng.randrange(nc) if rng.random() < 0.5 else nc - 1
        names[pos] = "Quadratic"
        plist = [pars(n) for n in names]
        isos = [model_iso(n, p_, a) for n, p_, a in zip(names, plist, ADS)]
        pp = np.array([rng.uniform(2, 8) for _ in range(nc)])
        pp[pos] = rng.uniform(0.05, 0.8)
        guesses = [[1.0 / nc] * nc]
        g = [rng.uniform(0.005, 0.05) for _ in range(nc - 1)]
        guesses.append(g + [1 - sum(g)])
        g2 = np.array([rng.uniform(0.05, 1) for _ in range(nc)])
        guesses.append((g2 / g2.sum()).tolist())
        for guess in guesses:
            ck.count(("spurious", tuple(names), pos, tuple(round(v, 3) for v in guess), i), bucket=f"user guess far from the solution:{nc} components")
            try:
                loads = np.asarray(pgi.iast_point(isos, pp, warningoff=True, adsorbed_mole_fraction_guess=guess), dtype=float)
            except (CalculationError, ParameterError):
                continue
            except Exception as e:  # noqa
                ck.fail_case({"kind": "user-guess", "components": nc, "clause": "iast_point raises a non-pyGAPS error", "error": type(e).__name__}, {"models": names, "error": repr(e)[:300]})
                continue
            sig = {"kind": "user-guess", "components": nc}
            detail = {"models": names, "params": plist, "partial_pressures": pp.tolist(), "guess": guess}
            if np.any(loads < 0) or not np.all(np.isfinite(loads)):
                ck.fail_case({**sig, "clause": "adsorbed mole fractions not in [0,1] or not summing to one"}, {**detail, "loadings": loads.tolist()})
                continue
            certificate(isos, pp, loads, sig, detail, independent=False)

    # -------------------------------------------------------------------- refusals stated by the property's anchors
    for name in ["Freundlich", "DR", "Virial"]:
        try:
            par = sample_params(name, rng)
            m = model_iso(name, par, "N2") if name != "DR" else None
            if m is not None:
                pgi.iast_point([m, model_iso("Langmuir", pars("Langmuir"), "CO2")], [1.0, 1.0])
                ck.fail_case({"clause": "model outside the IAST whitelist accepted", "model": name}, {"params": par})
        except ParameterError:
            ck.count(("whitelist", name), nontrivial=False, bucket="whitelist refusal")
        except Exception as e:  # noqa
            ck.count(("whitelist-other", name), nontrivial=False, bucket="whitelist: " + type(e).__name__)

    # -------------------------------------------------------------------- correspondence
    n_dis = 0
    try:
        replies = ck.drive("Iast", lines) if lines else []
    except Exception as e:
        replies = None
        ck.broken.append({"step": "driver Iast", "what": str(e)[:600]})
    if replies is not None:
        for (what, data), rep, line in zip(plan, replies, lines):
            t = rep.split()
            ck.count(("corr", what), nontrivial=False, bucket="correspondence:" + what)
            if t[0] != "ok":
                ok = False
            elif what == "finish":
                x, tot, loads = data
                lm = [float(v) for v in parse_qlist(t[3])]
                # (the last fraction is 1 - sum of the others: compare on the scale of the total, a trace component carries the cancellation)
                ok = relerr(float(parse_q(t[2])), tot) < 1e-9 and all(abs(a - b) <= 1e-9 * tot for a, b in zip(lm, loads)) and t[4] == "true"
            elif what == "pp":
                ok = all(relerr(float(a), float(b)) < 1e-12 for a, b in zip(parse_qlist(t[1]), data))
            else:
                ok = relerr(float(parse_q(t[1])), data) < 1e-9
            if not ok:
                n_dis += 1
                if n_dis <= 3:
                    ck.broken.append({"step": f"correspondence Model/Iast.lean ({what})", "what": {"request": line[:300], "model": rep[:300], "implementation": str(data)[:300]}})
    ck.cov["correspondence_disagreements"] = n_dis
    ck.cov["worst"] = {k: float(f"{v:.3g}") for k, v in sorted(worst.items())}
    ck.cov["rule"] = ("2-4 component mixtures of IAST-capable model isotherms (8 models, BET excluded: pole) and of 500-point point isotherms, total pressure 0.05-20 bar, random gas fractions, default and user guesses, "
                      "random permutations; Henry and equal-capacity Langmuir mixtures against closed forms; reverse problem; fraction / selectivity / VLE helpers")
    ck.assumptions += ["scipy.optimize.root(method='lm') is numerical: each returned result is certified against the IAST equations", "scipy.integrate.quad for the independent spreading pressure (1e-11)"]
