"""C13 — IAST results satisfy the IAST equations and known closed forms.

Lean: Props/C13.lean over Model/Iast.lean (the arithmetic around the root finding, run at ℚ against the real functions) and
Gen/ModelsR.lean (spreading pressures regenerated from the source): fractions sum to one, loadings sum to the total and obey ideal
mixing, Henry and equal-capacity Langmuir closed forms solve the equations, uniqueness of the solution for strictly increasing
spreading pressures (hence permutation equivariance and forward/reverse inversion).  The root finding is numerical: each returned
result is decided by certificate — the IAST equations are re-evaluated on the given isotherms (library spreading pressure AND an
independent quadrature of loading/p).
Point-isotherm mixtures are additionally certified from the RAW data (Model/IastPoint.lean `pointCert` = `interpLin` + the exact fold of
Model/SpreadPoint.lean, run at ℚ by the `pcert` / `resid` ops of Drv/Iast.lean; theorems Props/C13/Point.lean: the certificate is sound and the
certified result is determined by the raw data alone), on isotherm OBJECTS WITH A QUERY HISTORY (other interpolation kinds / branches / fill
values / units asked before) against freshly built objects.  Every entry point is also called with the same numbers in other argument TYPES
(ints, int arrays, lists, tuples, float32, 0-d arrays, mixed) and must give what it gives for float64; the documented refusals, the
extrapolation warning (`warningoff`) and the `verbose` report (logged fictitious pressures) are checked on the real code.
BRANCHES: hysteretic point isotherms (desorption rows stored after the adsorption rows, in decreasing pressure order) are called with
`branch='des'` through every entry point (iast_point with default and user guess, iast_point_fraction, reverse_iast, iast_binary_svp / vle; fresh
objects, objects with a history, every argument type) and each result is certified from the RAW desorption rows: equal spreading pressures, mole
fractions, ideal mixing with the DESORPTION loadings (Model/IastPoint.lean `pointCertBranch` = selection by branch mark + `orient` + `pointCert`, op
`pcertb` of Drv/Iast.lean; theorems Props/C13/Branch.lean, Props/C11/Branch.lean).  Model isotherms built / fitted on the desorption branch answer on
that branch and refuse any other with ParameterError.
ARGUMENT OBJECTS, ORDER, TRACE COMPOSITIONS: every IAST call of this harness goes through a proxy that compares the caller's array / list arguments after the
call with a copy taken before (content, dtype, shape, element identity), on returns and on refusals; iast_binary_svp is called with pressures in decreasing /
shuffled order and with repeats (list, tuple, array; default and user guess; model, Henry and point isotherms, both branches): every row equals the point
calculation at ITS pressure, `pressure` comes back in the order passed, a repeated pressure gives the same row; reverse_iast is asked for TRACE adsorbed
fractions (1e-6 .. 5e-4, exact dyadic numbers; float arrays, lists, tuples; default and user guess): requested fractions of the loadings, equal spreading
pressures and ideal mixing at P y_i / x_i of the REQUESTED x, Henry / equal-capacity Langmuir closed forms y_i ~ x_i / K_i, forward(reverse), and the same
answer from a second call with the same argument objects.
ROOT OR STALL (finding S50-C13a, repaired in the repository): `root(method='lm')` reports success on every termination; every return of
iast_point (uniform / vertex / random / boundary user guesses) and of reverse_iast (default and far gas-fraction guesses) is certified, and a
relative spread of the spreading pressures above 1e-3 is the separate clause "a non-solution is returned", which no known finding matches
(Props/C13/Accept.lean: the library's acceptance test bounds the relative spread of every return by 2e-4).
"""
import math

from pgv import iastlib
from pgv.charlib import parse_q, parse_qlist, q, qlist, quiet_logging
from pgv.core import import_pygaps
from pgv.models import logu, relerr, sample_params

IAST_OK = ["Henry", "Langmuir", "DSLangmuir", "TSLangmuir", "Quadratic", "TemkinApprox", "Toth", "JensenSeaton"]


def run(ck):
    pg = import_pygaps()
    import numpy as np
    from scipy import integrate
    import pygaps.iast as pgi
    from pygaps.modelling import get_isotherm_model
    from pygaps.utilities.exceptions import CalculationError, ParameterError
    quiet_logging()
    np.seterr(all="ignore")
    rng = ck.rng

    # EVERY IAST call of this harness goes through this proxy: the caller's sequence arguments (arrays: content, dtype, shape; lists: the same objects /
    # numbers) are after the call what they were before it, whether it returns or refuses (an in-place edit of an argument - directly or through an
    # alias such as a defaulted guess - changes what the NEXT calculation with the same variable is asked).
    _pgi_real = pgi

    def _describe_iso(iso):
        m_ = getattr(iso, "model", None)
        if m_ is not None and hasattr(m_, "params"):
            return {"model": m_.name, "params": {k_: float(v_) for k_, v_ in m_.params.items()}}
        return {"point_isotherm_rows": int(len(iso.data_raw))}

    def _snap(v):
        if isinstance(v, np.ndarray):
            return ("array", v.dtype, v.shape, v.copy())
        if isinstance(v, list):
            return ("list", list(v))
        return None

    def _is_num(a):
        return isinstance(a, (int, float, np.number))

    def _same_arg(v, sn):
        if sn[0] == "array":
            return v.dtype == sn[1] and v.shape == sn[2] and bool(np.array_equal(v, sn[3], equal_nan=True))
        return len(v) == len(sn[1]) and all((a is b) or (_is_num(a) and _is_num(b) and a == b) for a, b in zip(v, sn[1]))

    def _show(v):
        if isinstance(v, np.ndarray):
            return {"ndarray": v.tolist(), "dtype": str(v.dtype)}
        if isinstance(v, (list, tuple)) and all(_is_num(a) for a in v):
            return [float(a) for a in v]
        if isinstance(v, (list, tuple)):
            return [_describe_iso(a) if hasattr(a, "adsorbate") else repr(a)[:60] for a in v]
        return v if isinstance(v, (int, float, str, bool, type(None))) else repr(v)[:80]

    class _Guarded:
        def __getattr__(self, name):
            fn = getattr(_pgi_real, name)
            if not (callable(fn) and (name.startswith("iast_") or name == "reverse_iast")):
                return fn

            def call(*a, **k):
                named = [(f"positional {j}", v) for j, v in enumerate(a)] + list(k.items())
                snaps = [(lab, v, _snap(v)) for lab, v in named]
                try:
                    return fn(*a, **k)
                finally:
                    for lab, v, sn in snaps:
                        if sn is not None and not _same_arg(v, sn):
                            ck.fail_case({"kind": "caller-arguments", "clause": "an IAST call changed an argument object of the caller", "entry": name, "argument": lab},
                                         {"call": name, "arguments_before": {l_: _show(v_ if s_ is None else s_[1] if s_[0] == "list" else s_[3]) for l_, v_, s_ in snaps},
                                          "argument_after": _show(v)})
            return call
    pgi = _Guarded()
    thorough = ck.tier == "thorough"
    N = ck.n(45, 240)
    worst = {}
    lines, plan = [], []

    # at most 6 replay files per distinct failure signature (all keys: a signature that a known finding matches never shadows one that it does not)
    _fail_case, _n_sig = ck.fail_case, {}

    def fail_case_capped(sig, detail):
        key = tuple(sorted((k, repr(v)) for k, v in sig.items()))
        _n_sig[key] = _n_sig.get(key, 0) + 1
        return _fail_case(sig, detail) if _n_sig[key] <= 6 else False
    ck.fail_case = fail_case_capped

    def note(k, v):
        worst[k] = max(worst.get(k, 0.0), v)
        return v

    import logging

    class _Cap(logging.Handler):
        def __init__(self):
            super().__init__()
            self.records = []

        def emit(self, rec):
            self.records.append((rec.levelname, rec.getMessage()))

    _cap = _Cap()
    _pglog = logging.getLogger("pygaps")

    def logged(fn):
        """run `fn` with the pygaps logger open (INFO) and its console handlers shut; returns (result of fn, [(level, message)])"""
        _cap.records = []
        old_level, olds = _pglog.level, [(h, h.level) for h in _pglog.handlers]
        for h, _ in olds:
            h.setLevel(logging.CRITICAL + 10)
        _pglog.addHandler(_cap)
        _pglog.setLevel(logging.INFO)
        try:
            return fn(), list(_cap.records)
        finally:
            _pglog.removeHandler(_cap)
            _pglog.setLevel(old_level)
            for h, lv in olds:
                h.setLevel(lv)

    def model_iso(name, par, ads):
        model = get_isotherm_model(name, parameters={k: np.float64(v) for k, v in par.items()}, pressure_range=(0.0, 1e4), loading_range=(0.0, 1e3))
        return pg.ModelIsotherm(model=model, branch="ads", material="pgv-synth", adsorbate=ads, temperature=300.0, pressure_mode="absolute", pressure_unit="bar",
                                loading_basis="molar", loading_unit="mmol", material_basis="mass", material_unit="g", temperature_unit="K")

    def pars(name):
        par = sample_params(name, rng)
        # affinities within a few decades of each other so that no component is a trace
        for k in par:
            if k.startswith("K") and name != "Quadratic":
                par[k] = logu(rng, 0.05, 20)
            if k.startswith("n_m"):
                par[k] = rng.uniform(1, 8)
        if name == "Quadratic":
            par = {"n_m": rng.uniform(1, 5), "Ka": logu(rng, 0.05, 5), "Kb": logu(rng, 0.01, 2)}
        if name == "TemkinApprox":
            par["tht"] = rng.uniform(0, 0.5)
        if name == "JensenSeaton":
            par = {"K": logu(rng, 0.5, 20), "a": rng.uniform(2, 8), "b": logu(rng, 1e-3, 0.1), "c": rng.uniform(0.5, 2)}
        return par

    def quad_pi(iso, p0):
        val, err = integrate.quad(lambda p: float(iso.loading_at(p)) / p if p > 0 else 0.0, 0, p0, limit=400, epsabs=0, epsrel=1e-11)
        if iso.model.name in ("Henry", "Langmuir", "DSLangmuir", "TSLangmuir", "Toth", "Quadratic", "JensenSeaton", "TemkinApprox"):
            # remove the integrable 0/0 at the origin analytically: n(p)/p -> Henry slope, quad handles it
            pass
        return val

    ADS = ["N2", "CO2", "CH4", "C2H6"]

    # A return is judged in two classes.  The library accepts a root only if the spreading pressures at the fictitious pressures agree with the first
    # one to rtol 1e-4 (repository fix of finding S50-C13a, `_check_spreading_pressures_equal`), hence (max - min) / max|Pi| <= 2e-4 for every return
    # (Props/C13/Accept.lean `accepted_spread_le`).  A relative spread above NON_SOLUTION (5 x that bound; measured on the repaired tree: below 1e-4,
    # and only with a trace component) is a NON-SOLUTION handed out as a result - never matched by the known findings S22 / S22b, whatever the
    # mole fractions are; between the certificate's 1e-6 and NON_SOLUTION the older clause applies (known finding S22 when a trace component is involved).
    NON_SOLUTION = 1e-3
    # reverse_iast with a requested TRACE fraction (1e-6 .. 5e-4): measured on the unchanged tree (seeds 1-3, 7 boosted) - closed forms below 2e-8, forward(reverse) below 2e-6
    # (the root finding is in the gas fractions, which are not small relative to the requested ones); a defect of the class (the trace fraction replaced / clamped) is a factor >= 2.
    # (closed form at 1e-3, not 1e-5: the library accepts a point whose spreading pressures agree to 1e-4, and from a far user guess the root finder stops with a
    #  trace gas fraction 1.7e-5 off — false alarm of the final sweep, quick seed 5; the defect class, a clamp of the requested trace fraction, moves it by a factor)
    TRACE_CF_TOL, TRACE_INV_TOL = 1e-3, 1e-3
    NON_SOLUTION_CLAUSE = "a non-solution is returned: spreading pressures at the fictitious pressures differ by more than 0.1 %"

    def certificate(isos, pp, loads, sig, detail, independent=True, coarse=None):
        loads = np.asarray(loads, dtype=float)
        tot = float(np.sum(loads))
        if not np.all(np.isfinite(loads)) or not tot > 0:
            ck.fail_case({**sig, "clause": "adsorbed mole fractions not in [0,1] or not summing to one"}, {**detail, "loadings": loads.tolist()})
            return None
        x = loads / tot
        if np.any(x < -1e-12) or np.any(x > 1 + 1e-12) or abs(float(np.sum(x)) - 1) > 1e-12:
            ck.fail_case({**sig, "clause": "adsorbed mole fractions not in [0,1] or not summing to one"}, {**detail, "x": x.tolist()})
            return None
        if np.any(x <= 0):
            # a component with a positive partial pressure and no adsorbed fraction has no fictitious pressure p_i / x_i at all
            ck.fail_case({**sig, "clause": NON_SOLUTION_CLAUSE}, {**detail, "x": x.tolist(), "what": "a component with a positive partial pressure has the adsorbed mole fraction zero"})
            return None
        trace = bool(np.min(x) < 1e-5)
        p0 = np.asarray(pp, dtype=float) / x
        try:
            sp = np.array([float(iso.spreading_pressure_at(p)) for iso, p in zip(isos, p0)])
            n0 = np.array([float(iso.loading_at(p)) for iso, p in zip(isos, p0)])
        except Exception as e:  # noqa
            ck.count(("cert-skip",), nontrivial=False, bucket="certificate skipped (fictitious pressure outside data)")
            return None
        e = float((np.max(sp) - np.min(sp)) / max(np.max(np.abs(sp)), 1e-300))
        note("equal spreading pressure (library)", e if not trace else 0.0)
        note("equal spreading pressure (library, trace component)", e if trace and e == e else 0.0)
        if not (e <= NON_SOLUTION):          # (NaN included)
            ck.fail_case({**sig, "clause": NON_SOLUTION_CLAUSE}, {**detail, "x": x.tolist(), "fictitious_pressures": p0.tolist(), "spreading_pressures": sp.tolist(), "relative_spread": e})
            return None
        if not (e <= 1e-6) and coarse:
            # regions in which the accuracy of the root finder for a tiny unknown is that of S22 (a gas fraction below 1e-5 in the reverse problem - not
            # observed on the repaired tree in 4 000 returns; the wide-parameter mixtures, whose smallest fraction sits anywhere around 1e-5): only the
            # non-solution class is judged, the case is counted
            ck.count(("coarse", coarse), nontrivial=False, bucket=coarse + ": spread between 1e-6 and 1e-3 (counted)")
        elif not (e <= 1e-6):
            ck.fail_case({**sig, "clause": "spreading pressures at the fictitious pressures differ", "trace_component": trace}, {**detail, "x": x.tolist(), "spreading_pressures": sp.tolist(), "relative_spread": e})
        e = relerr(1 / tot, float(np.sum(x / n0)))
        note("ideal mixing", e)
        if not (e <= 1e-9):
            ck.fail_case({**sig, "clause": "total loading violates the ideal-mixing rule"}, {**detail, "total": tot, "expected": 1 / float(np.sum(x / n0))})
        if independent and not trace and not coarse:
            spq = np.array([quad_pi(iso, p) for iso, p in zip(isos, p0)])
            e = float((np.max(spq) - np.min(spq)) / max(np.max(np.abs(spq)), 1e-300))
            temkin = any(getattr(i, "model", None) is not None and i.model.name == "TemkinApprox" for i in isos)
            note("equal spreading pressure (quadrature)" + (" Temkin" if temkin else ""), e)
            if not (e <= 1e-5):
                ck.fail_case({**sig, "clause": "independent spreading pressures (quadrature of loading/p) differ", "temkin_involved": temkin},
                             {**detail, "x": x.tolist(), "quadrature": spq.tolist(), "library": sp.tolist(), "relative_spread": e})
        return x, n0, tot

    def range_refusal(e):
        """A point isotherm has no loading outside the measured range of the branch asked for: `PointIsotherm.loading_at` refuses with the ValueError of
        scipy's interp1d ("A value (...) in x_new is below / above the interpolation range's minimum / maximum value") - C03: "refused outside the measured
        range unless a fill rule is given".  iast_point asks `loading_at(p_i)` for its default guess and `loading_at(p_i / x_i)` for the total loading,
        reverse_iast `loading_at(P y_i / x_i)` - the latter can lie BELOW the first measured point although every partial pressure is inside the range (the
        spreading pressure is defined there: Henry's law down to zero; clean tree, boost 2, seed 1: three hysteretic isotherms, branch='des', x = [7/16, 4/16,
        5/16], P = 0.6257: P y_1 / x_1 = 0.0032361 below the lowest desorption point 0.0032537).  No result is handed out and C13 names no error kind
        ("whenever an IAST calculation returns ..."): this is a refusal, not a failing input (items D3 / S2-DES of the triage T-C13, decided (a))."""
        return isinstance(e, ValueError) and "interpolation range" in str(e)

    def outcome(fn):
        try:
            return "ok", fn()
        except (CalculationError, ParameterError) as e:
            return "refused", type(e).__name__
        except Exception as e:  # noqa
            if range_refusal(e):
                return "refused", "ValueError (outside the measured range of a point isotherm)"
            return "error", type(e).__name__ + ": " + str(e)[:120]

    def started_at_solution(sig, detail, isos, x, ptot, y, loads, bkw):
        """"forward and reverse IAST invert each other": the default guess of `reverse_iast` (the adsorbed fractions) may be too far away and the call
        refused - started AT the gas fractions of the forward calculation it has no numerical excuse: it must return them.  (Since the repair of
        S50-C13a a wrong residual function inside `reverse_iast` is refused by the library's own acceptance test; the defect then shows here.)"""
        ck.count(("rev-exact",), nontrivial=False, bucket="reverse_iast refused from the default guess: started at the forward solution")
        o_e, r_e = outcome(lambda: pgi.reverse_iast(isos, x, ptot, warningoff=True, gas_mole_fraction_guess=np.asarray(y, dtype=float), **bkw))
        if o_e == "ok" and float(np.max(np.abs(np.asarray(r_e[0], dtype=float) - y) / y)) <= 1e-5 and np.allclose(np.asarray(r_e[1], dtype=float), loads, rtol=1e-5):
            return
        ck.fail_case({**sig, "clause": "reverse IAST does not return the gas fractions of the forward calculation although it starts from them"},
                     {**detail, "x": np.asarray(x).tolist(), "expected": np.asarray(y).tolist(), "got": [o_e, r_e if o_e != "ok" else [np.asarray(r_e[0]).tolist(), np.asarray(r_e[1]).tolist()]]})

    for i in range(N):
        nc = rng.choice([2, 2, 2, 3, 4])
        kind = rng.choice(["model", "model", "model", "point", "henry", "langmuir-eq"])
        if kind == "henry":
            names = ["Henry"] * nc
        elif kind == "langmuir-eq":
            names = ["Langmuir"] * nc
        elif kind == "point":
            names = [rng.choice(["Langmuir", "Toth", "DSLangmuir"]) for _ in range(nc)]
        else:
            names = [rng.choice(IAST_OK) for _ in range(nc)]
        plist = [pars(n) for n in names]
        if kind == "langmuir-eq":
            nm = rng.uniform(1, 8)
            for p_ in plist:
                p_["n_m"] = nm
        isos = [model_iso(n, p_, a) for n, p_, a in zip(names, plist, ADS)]
        if kind == "point":
            grid = np.geomspace(1e-4, 2e3, 500)
            if rng.random() < 0.5:
                grid = np.concatenate([[0.0], grid])          # a measured origin (0, 0)
            isos = [pg.PointIsotherm.from_modelisotherm(m, pressure_points=grid) for m in isos]
        ptot = logu(rng, 0.05, 20)
        y = np.array([rng.uniform(0.1, 1) for _ in range(nc)])
        y = y / np.sum(y)
        pp = ptot * y
        sig = {"kind": kind, "components": nc}
        detail = {"models": names, "params": plist, "partial_pressures": pp.tolist()}
        ck.count(("iast", kind, nc, tuple(names), i), bucket=f"iast_point:{kind}:{nc} components", sample={"models": names, "partial_pressures": pp.tolist()} if i % 30 == 0 else None)
        guess = None
        if rng.random() < 0.25:
            g = np.array([rng.uniform(0.2, 1) for _ in range(nc)])
            guess = (g / np.sum(g)).tolist()
        try:
            loads = np.asarray(pgi.iast_point(isos, pp, warningoff=True, adsorbed_mole_fraction_guess=guess), dtype=float)
        except (CalculationError, ParameterError) as e0:
            ck.count(("refused", kind, i), nontrivial=False, bucket="iast_point refused (no convergence reported)")
            # A refusal hands out no result - but "results coincide with the closed forms for Henry and equal-capacity Langmuir mixtures" needs one: started AT
            # the closed-form solution the root finding has no numerical excuse (since the repair of S50-C13a the library refuses every point whose spreading
            # pressures differ, so a wrong residual function shows up as a refusal of everything, not as a wrong number).
            if kind in ("henry", "langmuir-eq") and isinstance(e0, CalculationError):
                ks = np.array([p_["K"] for p_ in plist])
                want = ks * pp if kind == "henry" else plist[0]["n_m"] * ks * pp / (1 + float(np.sum(ks * pp)))
                o_e, r_e = outcome(lambda: np.asarray(pgi.iast_point(isos, pp, warningoff=True, adsorbed_mole_fraction_guess=(want / np.sum(want)).tolist()), dtype=float))
                if o_e != "ok" or float(np.max(np.abs(r_e - want) / want)) > 1e-6:
                    ck.fail_case({**sig, "clause": ("Henry mixture" if kind == "henry" else "equal-capacity Langmuir mixture") + ": the closed-form solution is not returned although the calculation starts from it"},
                                 {**detail, "guess": guess, "closed_form": want.tolist(), "got": [o_e, r_e if o_e != "ok" else r_e.tolist()]})
            continue
        except Exception as e:  # noqa
            if range_refusal(e):
                ck.count(("refused-range", kind, i), nontrivial=False, bucket="iast_point refused (outside the measured range of a point isotherm)")
            else:
                ck.fail_case({**sig, "clause": "iast_point raises a non-pyGAPS error", "error": type(e).__name__}, {**detail, "error": repr(e)[:300]})
            continue
        cert = certificate(isos, pp, loads, sig, detail, independent=(kind != "point" and i % 2 == 0))
        # closed forms
        if kind == "henry":
            want = np.array([p_["K"] for p_ in plist]) * pp
            e = float(np.max(np.abs(loads - want) / want))
            note("Henry closed form", e)
            if e > 1e-6:
                ck.fail_case({**sig, "clause": "Henry mixture differs from the closed form n_i = K_i p_i"}, {**detail, "got": loads.tolist(), "expected": want.tolist()})
        if kind == "langmuir-eq":
            ks = np.array([p_["K"] for p_ in plist])
            want = plist[0]["n_m"] * ks * pp / (1 + float(np.sum(ks * pp)))
            e = float(np.max(np.abs(loads - want) / want))
            note("equal-capacity Langmuir closed form", e)
            if e > 1e-6:
                ck.fail_case({**sig, "clause": "equal-capacity Langmuir mixture differs from the extended-Langmuir closed form"}, {**detail, "got": loads.tolist(), "expected": want.tolist()})
        if cert is None:
            continue
        x, n0, tot = cert
        # arithmetic correspondence
        if nc <= 4:
            lines.append(f"finish {qlist(x[:-1])} {qlist(n0)}")
            plan.append(("finish", (x, tot, loads)))
        # permutation
        perm = list(range(nc))
        rng.shuffle(perm)
        if perm != list(range(nc)):
            try:
                l2 = np.asarray(pgi.iast_point([isos[j] for j in perm], pp[perm], warningoff=True), dtype=float)
                e = float(np.max(np.abs(l2 - loads[perm]) / np.maximum(loads[perm], 1e-300)))
                note("permutation", e)
                if e > 1e-5:
                    ck.fail_case({**sig, "clause": "result changes when the components are permuted", "trace_component": bool(min(np.min(l2 / np.sum(l2)), np.min(x)) < 1e-5)}, {**detail, "permutation": perm, "got": l2.tolist(), "expected": loads[perm].tolist()})
            except CalculationError:
                pass
        # fraction helper
        try:
            l3 = np.asarray(pgi.iast_point_fraction(isos, y, ptot, warningoff=True), dtype=float)
            if guess is None and not np.allclose(l3, loads, rtol=1e-9, atol=0):
                ck.fail_case({**sig, "clause": "iast_point_fraction differs from the point calculation"}, {**detail, "fractions": y.tolist(), "total_pressure": ptot, "got": l3.tolist(), "expected": loads.tolist()})
            lines.append(f"pp {qlist(y)} {q(ptot)}")
            plan.append(("pp", pp))
        except CalculationError:
            pass
        # reverse problem inverts the forward one
        if i % 2 == 0 and np.min(x) > 1e-4:
            try:
                y2, l4 = pgi.reverse_iast(isos, x, ptot, warningoff=True)
                e = float(np.max(np.abs(np.asarray(y2) - y) / y))
                note("reverse∘forward", e)
                if not (e <= 1e-5) or not np.allclose(np.asarray(l4, dtype=float), loads, rtol=1e-5):
                    ck.fail_case({**sig, "clause": "reverse IAST does not invert the forward calculation"}, {**detail, "x": x.tolist(), "gas_fractions_back": np.asarray(y2).tolist(), "expected": y.tolist()})
            except ParameterError:
                ck.count(("rev-refused", i), nontrivial=False, bucket="reverse_iast refused")          # (the fractions of the forward result need not sum to 1.0 exactly)
            except CalculationError:
                ck.count(("rev-refused", i), nontrivial=False, bucket="reverse_iast refused")
                started_at_solution(sig, detail, isos, x, ptot, y, loads, {})
            except Exception as e:  # noqa
                if range_refusal(e):
                    ck.count(("rev-refused-range", i), nontrivial=False, bucket="reverse_iast refused (outside the measured range of a point isotherm)")
                else:
                    ck.fail_case({**sig, "clause": "reverse_iast raises a non-pyGAPS error", "error": type(e).__name__}, {**detail, "error": repr(e)[:300]})
        # binary helpers
        if nc == 2 and i % 3 == 0 and guess is None:
            try:
                pr = [ptot, ptot * 2]
                svp = pgi.iast_binary_svp(isos, [float(y[0]), 1 - float(y[0])], pr, warningoff=True)
                yy = np.array([float(y[0]), 1 - float(y[0])])
                ref = [np.asarray(pgi.iast_point(isos, yy * p_, warningoff=True), dtype=float) for p_ in pr]
                want = [(r[0] / yy[0]) / (r[1] / yy[1]) for r in ref]
                if not np.allclose(np.asarray(svp["selectivity"], dtype=float), want, rtol=1e-9):
                    ck.fail_case({**sig, "clause": "iast_binary_svp differs from the point calculation"}, {**detail, "got": [float(v) for v in svp["selectivity"]], "expected": [float(v) for v in want]})
                lines.append(f"sel {q(ref[0][0])} {q(ref[0][1])} {q(yy[0])} {q(yy[1])}")
                plan.append(("sel", float(svp["selectivity"][0])))
                vle = pgi.iast_binary_vle(isos, ptot, npoints=4, warningoff=True)
                ys = np.linspace(0.01, 0.99, 4)
                xs = []
                for yv in ys:
                    r = np.asarray(pgi.iast_point(isos, np.array([yv, 1 - yv]) * ptot, warningoff=True), dtype=float)
                    xs.append(r[0] / (r[0] + r[1]))
                if not (np.allclose(vle["x"][1:-1], xs, rtol=1e-9) and np.allclose(vle["y"][1:-1], ys) and vle["x"][0] == 0 and vle["x"][-1] == 1):
                    ck.fail_case({**sig, "clause": "iast_binary_vle differs from the point calculation"}, {**detail, "got": [float(v) for v in vle["x"]], "expected": [0.0] + [float(v) for v in xs] + [1.0]})
            except CalculationError:
                pass
            except ParameterError as e:
                ck.count(("svp-param", i), nontrivial=False, bucket="binary helper refused: " + str(e)[:40])

    # -------------------------------------------------------------------- starting guesses far from the solution: whatever is returned must be a solution
    # `scipy.optimize.root(method='lm')` reports success whenever it terminates (also on a vanishing step next to a mole fraction that turns negative,
    # where the residual is NaN): the library has to tell a root from a stall itself.  Finding S50-C13a (repaired in the repository: the spreading
    # pressures at the returned point are compared, CalculationError otherwise): Langmuir / Henry / Langmuir / Quadratic, p = [3.1856, 3.5111, 5.5522,
    # 0.7543], guess [0.0488, 0.0407, 0.0128, 0.8977] gave x = [6.6e-4, 0.914, 0.064, 0.020] with spreading pressures 64.9 / 41.0 / 24.5 / 14.6; a guess
    # on the boundary ([1, 0]) gave [nan, nan] or [n_1(p_1), 0].  Every return is certified at full strength, for every kind of guess:
    # uniform, near a vertex of the simplex (any vertex), random, and ON the boundary (one fraction exactly zero, where p_i / x_i does not exist).
    # Half of the mixtures have a minor component whose spreading pressure is also defined for negative pressures (Quadratic, Henry) in any position.
    def far_guesses(nc):
        out = [("uniform", [1.0 / nc] * nc)]
        for _ in range(2):
            v = rng.randrange(nc)
            g = [rng.uniform(0.005, 0.05) for _ in range(nc)]
            g[v] = 0.0
            g[v] = 1 - sum(g)
            out.append(("vertex", g))
        g2 = np.array([rng.uniform(0.05, 1) for _ in range(nc)])
        out.append(("random", (g2 / g2.sum()).tolist()))
        if rng.random() < 0.5:
            gb = [rng.uniform(0.05, 1) for _ in range(nc)]
            gb[rng.randrange(nc)] = 0.0
            if nc > 2 and rng.random() < 0.3:
                gb[rng.randrange(nc)] = 0.0
            if sum(gb) > 0:
                out.append(("boundary", (np.array(gb) / sum(gb)).tolist()))
        return out

    for i in range(N):
        nc = rng.choice([3, 3, 4])
        if i % 2 == 0:
            names = [rng.choice(["Langmuir", "Henry", "Toth", "DSLangmuir"]) for _ in range(nc)]
            pos = rng.randrange(nc) if rng.random() < 0.5 else nc - 1
            names[pos] = "Quadratic"
        else:
            names, pos = [rng.choice(IAST_OK) for _ in range(nc)], None
        plist = [pars(n) for n in names]
        isos = [model_iso(n, p_, a) for n, p_, a in zip(names, plist, ADS)]
        pp = np.array([rng.uniform(2, 8) for _ in range(nc)])
        if pos is not None:
            pp[pos] = rng.uniform(0.05, 0.8)
        for gkind, guess in far_guesses(nc):
            ck.count(("spurious", tuple(names), pos, tuple(round(v, 3) for v in guess), i), bucket=f"user guess far from the solution:{nc} components:{gkind}")
            sig = {"kind": "user-guess", "components": nc}
            detail = {"models": names, "params": plist, "partial_pressures": pp.tolist(), "guess": guess, "guess_kind": gkind}
            try:
                loads = np.asarray(pgi.iast_point(isos, pp, warningoff=True, adsorbed_mole_fraction_guess=guess), dtype=float)
            except (CalculationError, ParameterError):
                ck.count(("spurious-refused", gkind), nontrivial=False, bucket="user guess far from the solution: refused (" + gkind + ")")
                continue
            except Exception as e:  # noqa
                ck.fail_case({**sig, "clause": "iast_point raises a non-pyGAPS error", "error": type(e).__name__}, {**detail, "error": repr(e)[:300]})
                continue
            if np.any(loads < 0) or not np.all(np.isfinite(loads)):
                ck.fail_case({**sig, "clause": "adsorbed mole fractions not in [0,1] or not summing to one"}, {**detail, "loadings": loads.tolist()})
                continue
            certificate(isos, pp, loads, sig, detail, independent=False)

    # -------------------------------------------------------------------- mixtures with a trace component (parameters over the whole sampling range)
    # The loops above keep the affinities within a few decades of each other.  Here the parameters are drawn from the full ranges (Henry constants
    # 1e-5 .. 1e5), so that the smallest adsorbed fraction is often below 1e-5 - where, before the repair of S50-C13a, 22 % of the returns of
    # iast_point with the DEFAULT guess were non-solutions (relative spread of the spreading pressures 0.1 .. 1; 279 of 1270 returns).  The
    # non-solution class is judged on every return (with the fractions and the mixing rule); the finer 1e-6 clause is left to the loops above,
    # because the smallest fraction sits anywhere around the 1e-5 that delimits the known finding S22.
    for i in range(ck.n(270, 720)):
        nc = rng.choice([2, 2, 3])
        names = [rng.choice(["Henry", "Langmuir", "DSLangmuir", "Quadratic", "Toth"]) for _ in range(nc)]
        plist = [sample_params(n, rng) for n in names]
        for n_, p_ in zip(names, plist):
            if n_ == "Toth":
                p_["t"] = logu(rng, 0.4, 2)
        isos = [model_iso(n, p_, a) for n, p_, a in zip(names, plist, ADS)]
        ptot = logu(rng, 0.05, 20)
        y = np.array([rng.uniform(0.1, 1) for _ in range(nc)])
        pp = ptot * y / np.sum(y)
        sig = {"kind": "wide-parameters", "components": nc}
        detail = {"models": names, "params": plist, "partial_pressures": pp.tolist()}
        ck.count(("wide", tuple(names), i), bucket=f"wide parameter ranges (trace components):{nc} components")
        try:
            loads = np.asarray(pgi.iast_point(isos, pp, warningoff=True), dtype=float)
        except (CalculationError, ParameterError):
            ck.count(("wide-refused", i), nontrivial=False, bucket="wide parameter ranges: refused")
            continue
        except Exception as e:  # noqa
            ck.fail_case({**sig, "clause": "iast_point raises a non-pyGAPS error", "error": type(e).__name__}, {**detail, "error": repr(e)[:300]})
            continue
        if np.any(loads < 0) or not np.all(np.isfinite(loads)):
            ck.fail_case({**sig, "clause": "adsorbed mole fractions not in [0,1] or not summing to one"}, {**detail, "loadings": loads.tolist()})
            continue
        certificate(isos, pp, loads, sig, detail, independent=False, coarse="wide parameter ranges")

    # -------------------------------------------------------------------- the reverse problem, certified: default and far gas-fraction guesses
    # `reverse_iast` solves the same equations for the gas fractions with the same root finder: what it returns (gas fractions y, loadings) must satisfy
    # the IAST equations at the partial pressures P*y - equal spreading pressures at P*y_i/x_i, ideal mixing, the requested adsorbed fractions, y in [0,1]
    # summing to one.  (Finding S50-C13a also lived here, with the DEFAULT guess: Toth / Henry / DSLangmuir / Henry at P = 0.5756, x = [1/4, 3/8, 1/4, 1/8]
    # returned y_1 = 1.1e-8 with spreading pressures 3e-9 / 0.93 / 0.93 / 0.93.)
    for i in range(ck.n(30, 160)):
        nc = rng.choice([2, 3, 3, 4])
        names = [rng.choice(IAST_OK) for _ in range(nc)]
        plist = [pars(n) for n in names]
        isos = [model_iso(n, p_, a) for n, p_, a in zip(names, plist, ADS)]
        ptot = logu(rng, 0.05, 20)
        ks = [1] * nc
        for _ in range(16 - nc):
            ks[rng.randrange(nc)] += 1
        xs = [k / 16 for k in ks]
        for gkind, guess in [("default", None)] + far_guesses(nc)[1:]:
            ck.count(("reverse", tuple(names), gkind, i), bucket=f"reverse_iast certified:{nc} components:{gkind} guess")
            sig = {"kind": "reverse:" + ("default-guess" if guess is None else "user-guess"), "components": nc, "entry": "reverse_iast"}
            detail = {"models": names, "params": plist, "adsorbed_fractions_wanted": xs, "total_pressure": ptot, "gas_mole_fraction_guess": guess, "guess_kind": gkind}
            try:
                y2, l2 = pgi.reverse_iast(isos, xs, ptot, warningoff=True, gas_mole_fraction_guess=guess)
            except (CalculationError, ParameterError):
                ck.count(("reverse-refused", gkind), nontrivial=False, bucket="reverse_iast certified: refused (" + gkind + " guess)")
                continue
            except Exception as e:  # noqa
                ck.fail_case({**sig, "clause": "reverse_iast raises a non-pyGAPS error", "error": type(e).__name__}, {**detail, "error": repr(e)[:300]})
                continue
            y2, l2 = np.asarray(y2, dtype=float), np.asarray(l2, dtype=float)
            detail = {**detail, "gas_fractions_returned": y2.tolist(), "loadings_returned": l2.tolist()}
            if not np.all(np.isfinite(y2)) or np.any(y2 < 0) or np.any(y2 > 1) or abs(float(np.sum(y2)) - 1) > 1e-12:
                ck.fail_case({**sig, "clause": "gas mole fractions returned by reverse_iast not in [0,1] or not summing to one"}, detail)
                continue
            cert = certificate(isos, ptot * y2, l2, sig, {**detail, "partial_pressures": (ptot * y2).tolist()}, independent=(i % 3 == 0), coarse="reverse_iast with a gas fraction below 1e-5" if np.min(y2) < 1e-5 else None)
            if cert is not None and not np.allclose(cert[0], xs, rtol=1e-9, atol=0):
                ck.fail_case({**sig, "clause": "reverse_iast loadings do not have the requested adsorbed fractions"}, {**detail, "got": cert[0].tolist()})
            elif cert is not None and gkind == "default" and np.min(y2) > 1e-4:
                # ... and the forward calculation started AT this certified solution must return it (a wrong residual function inside `iast_point` is
                # refused by the library's own acceptance test since the repair of S50-C13a: it shows as a refusal from the exact solution)
                o_f, r_f = outcome(lambda: np.asarray(pgi.iast_point(isos, ptot * y2, warningoff=True, adsorbed_mole_fraction_guess=xs), dtype=float))
                if o_f != "ok" or not np.allclose(r_f / np.sum(r_f), xs, rtol=1e-5, atol=0) or not np.allclose(r_f, l2, rtol=1e-5, atol=0):
                    ck.fail_case({**sig, "clause": "forward IAST does not return the certified solution of the reverse calculation although it starts from it"},
                                 {**detail, "got": [o_f, r_f if o_f != "ok" else r_f.tolist()]})

    # -------------------------------------------------------------------- raw-data certificate for point isotherms (Model/IastPoint.lean)
    lean_budget = {"ads": ck.n(10, 40), "des": ck.n(8, 30)}
    raw_failed = {}

    def fail_raw(sig, detail):
        key = (sig.get("kind"), sig.get("entry"), sig.get("branch"), sig["clause"])
        raw_failed[key] = raw_failed.get(key, 0) + 1
        if raw_failed[key] <= 3:          # a few replay files per (kind, entry point, branch, clause) are enough
            ck.fail_case(sig, detail)

    def certificate_raw(datas, pp, loads, sig, detail, br="ads"):
        """IAST equations of the piecewise-linear isotherms through the RAW data of the requested branch at the returned loadings — spreading
        pressures AND the pure-component loadings of the ideal-mixing rule from the rows of THAT branch; nothing is read from an isotherm object
        (its caches cannot enter).  Float oracle = pgv.iastlib, tied to `pointCert` / `pointCertBranch` / `fractionsOf` / `spreadDiffs` /
        `mixingResidual` of the Lean model on the first cases of a run (per branch)."""
        loads = np.asarray(loads, dtype=float)
        pp = np.asarray(pp, dtype=float)
        tot = float(np.sum(loads))
        if not np.all(np.isfinite(loads)) or np.any(loads < 0) or not tot > 0:
            ck.fail_case({**sig, "clause": "adsorbed mole fractions not in [0,1] or not summing to one"}, {**detail, "loadings": loads.tolist()})
            return None
        x = loads / tot
        if np.any(x <= 0):
            fail_raw({**sig, "clause": NON_SOLUTION_CLAUSE, "branch": br}, {**detail, "branch": br, "x": x.tolist(), "what": "a component with a positive partial pressure has the adsorbed mole fraction zero"})
            return None
        p0 = pp / x
        sp = [iastlib.raw_spreading(*d[br], float(pz)) for d, pz in zip(datas, p0)]
        n0 = [iastlib.raw_loading(*d[br], float(pz)) for d, pz in zip(datas, p0)]
        if any(v is None for v in sp):
            ck.count(("raw-range",), nontrivial=False, bucket="raw certificate skipped (fictitious pressure at the edge of the measured range)")
            return None
        sp = np.array(sp)
        e = float((np.max(sp) - np.min(sp)) / max(np.max(np.abs(sp)), 1e-300))
        if not (e <= NON_SOLUTION):          # (the spreading pressure of the Henry-continued isotherm exists below the first point as well)
            fail_raw({**sig, "clause": NON_SOLUTION_CLAUSE, "branch": br},
                     {**detail, "branch": br, "x": x.tolist(), "fictitious_pressures": p0.tolist(), "spreading_pressures_from_raw_data": sp.tolist(), "relative_spread": e})
            return None
        if any(v is None for v in n0):
            ck.count(("raw-range",), nontrivial=False, bucket="raw certificate skipped (fictitious pressure at the edge of the measured range)")
            return None
        n0 = np.array(n0)
        if np.min(x) < 1e-5:            # S22 region (accuracy of the root finder with a trace component): below the non-solution class it is judged by the main loop's signature only
            ck.count(("raw-trace",), nontrivial=False, bucket="raw certificate skipped (trace component)")
            return None
        note("raw data: equal spreading pressure" + (" (des)" if br == "des" else ""), e)
        bad = False
        if not (e <= 1e-6):
            bad = True
            fail_raw({**sig, "clause": "spreading pressures of the given point isotherms (linear interpolation of the raw data) differ at the fictitious pressures", "branch": br},
                         {**detail, "branch": br, "x": x.tolist(), "fictitious_pressures": p0.tolist(), "spreading_pressures_from_raw_data": sp.tolist(), "relative_spread": e})
        e = relerr(1 / tot, float(np.sum(x / n0)))
        note("raw data: ideal mixing" + (" (des)" if br == "des" else ""), e)
        if not (e <= 1e-9):
            bad = True
            fail_raw({**sig, "clause": "total loading violates the ideal-mixing rule for the given point isotherms (linear interpolation of the raw data)", "branch": br},
                         {**detail, "branch": br, "x": x.tolist(), "fictitious_pressures": p0.tolist(), "pure_loadings_from_raw_data": n0.tolist(), "total": tot, "expected": 1 / float(np.sum(x / n0))})
        if not bad and lean_budget[br] > 0:
            # hysteretic data: the Lean certificate starts from the rows AS STORED (adsorption rows, then desorption rows downwards) and the branch
            reqs = [iastlib.pcert_line(qlist, q, *d["ads"], float(pz)) if d["des"] is None else iastlib.pcertb_line(np, qlist, q, d, br, float(pz)) for d, pz in zip(datas, p0)]
            if all(r is not None for r in reqs):
                lean_budget[br] -= 1
                for r, a, b in zip(reqs, n0, sp):
                    lines.append(r)
                    plan.append(("pcertb:" + br if r.startswith("pcertb") else "pcert", (float(a), float(b))))
                lines.append(f"resid {qlist(loads)} {qlist(pp)} {qlist(n0)} {qlist(sp)}")
                plan.append(("resid", (x, p0, sp, tot)))
        return x, n0, tot

    def must_refuse(what, fn, want, detail):
        ck.count(("refusal", what), nontrivial=False, bucket="documented refusal: " + what)
        try:
            r = fn()
        except want:
            return
        except Exception as e:  # noqa
            ck.fail_case({"kind": "refusal", "clause": "documented refusal raises another error kind", "case": what, "error": type(e).__name__}, {**detail, "error": repr(e)[:300], "expected": want.__name__})
            return
        ck.fail_case({"kind": "refusal", "clause": "input outside the documented domain accepted", "case": what}, {**detail, "returned": repr(r)[:300], "expected": want.__name__})

    def dyadic_fractions(nc):
        ks = [1] * nc
        for _ in range(16 - nc):
            ks[rng.randrange(nc)] += 1
        return [k / 16 for k in ks]

    def model_iso_on(name, par, ads, mbranch):
        """a model isotherm that describes the branch `mbranch` (as a fit of that branch does)"""
        model = get_isotherm_model(name, parameters={k: np.float64(v) for k, v in par.items()}, pressure_range=(0.0, 1e4), loading_range=(0.0, 1e3))
        return pg.ModelIsotherm(model=model, branch=mbranch, material="pgv-synth", adsorbate=ads, temperature=300.0, pressure_mode="absolute", pressure_unit="bar",
                                loading_basis="molar", loading_unit="mmol", material_basis="mass", material_unit="g", temperature_unit="K")

    def data_detail(datas):
        return [{"pressure": d["ads"][0].tolist(), "loading": d["ads"][1].tolist(),
                 "desorption_stored_after_the_adsorption_rows": None if d["des"] is None else {"pressure": d["des"][0][::-1].tolist(), "loading": d["des"][1][::-1].tolist()}} for d in datas]

    # -------------------------------------------------------------------- every entry point on BOTH branches of hysteretic point isotherms
    # The pure-component isotherm of `branch='des'` is the piecewise-linear curve through the DESORPTION rows (stored after the adsorption rows, in
    # decreasing pressure order): spreading pressures and the pure loadings of the ideal-mixing rule are taken from those rows
    # (Props/C13/Branch.lean `stored_certificate_sound`; Props/C11/Branch.lean: the fold over the reversed stored rows).  Every returned result is
    # certified from the raw rows of the requested branch.
    for i in range(max(6, N // 5)):
        nc = rng.choice([2, 2, 2, 3])
        datas = [iastlib.point_data(rng, np, hysteresis=True) for _ in range(nc)]
        isos_h = [iastlib.build_point(pg, np, d, a) for d, a in zip(datas, ADS)]
        ptot = logu(rng, 0.5, 20)
        y = np.array([rng.uniform(0.1, 1) for _ in range(nc)])
        y = y / np.sum(y)
        if nc == 2:
            y = np.array([float(y[0]), 1 - float(y[0])])          # (the binary helpers want fractions that sum to one exactly)
        pp = ptot * y
        for br in ("ads", "des"):
            sig = {"kind": "hysteretic point", "components": nc, "branch": br}
            detail = {"branch": br, "models": [d["shape"] for d in datas], "params": [d["params"] for d in datas], "partial_pressures": pp.tolist(), "total_pressure": ptot,
                      "gas_fractions": y.tolist(), "data": data_detail(datas)}
            ck.count(("hysteretic", br, nc, i), bucket=f"hysteretic point isotherms:{br}:{nc} components", sample={"branch": br, "partial_pressures": pp.tolist()} if i % 20 == 0 else None)
            o, ref = outcome(lambda: np.asarray(pgi.iast_point(isos_h, pp, branch=br, warningoff=True), dtype=float))
            if o == "error":
                ck.fail_case({**sig, "clause": "iast_point raises a non-pyGAPS error", "error": ref.split(":")[0]}, {**detail, "error": ref})
                continue
            if o != "ok":
                ck.count(("hysteretic-refused", br, i), nontrivial=False, bucket="hysteretic point isotherms: refused on " + br)
                continue
            cert = certificate_raw(datas, pp, ref, {**sig, "entry": "iast_point"}, detail, br)
            # user starting guess
            if i % 2 == 0:
                g = dyadic_fractions(nc)
                o_g, r_g = outcome(lambda: np.asarray(pgi.iast_point(isos_h, pp, branch=br, warningoff=True, adsorbed_mole_fraction_guess=g), dtype=float))
                if o_g == "error":
                    ck.fail_case({**sig, "clause": "iast_point raises a non-pyGAPS error", "error": r_g.split(":")[0]}, {**detail, "guess": g, "error": r_g})
                elif o_g == "ok":
                    certificate_raw(datas, pp, r_g, {**sig, "entry": "iast_point(user guess)"}, {**detail, "guess": g}, br)
            # fraction helper
            o_f, fr = outcome(lambda: np.asarray(pgi.iast_point_fraction(isos_h, y, ptot, branch=br, warningoff=True), dtype=float))
            if o_f != "ok" or not np.allclose(fr, ref, rtol=1e-9, atol=0):
                ck.fail_case({**sig, "clause": "iast_point_fraction differs from the point calculation"}, {**detail, "got": [o_f, fr if o_f != "ok" else fr.tolist()], "expected": ref.tolist()})
            # reverse problem: certified on the same branch, inverts the forward calculation
            xs = dyadic_fractions(nc)
            o_r, rv = outcome(lambda: pgi.reverse_iast(isos_h, xs, ptot, branch=br, warningoff=True))
            if o_r == "error":
                ck.fail_case({**sig, "clause": "reverse_iast raises a non-pyGAPS error", "error": rv.split(":")[0]}, {**detail, "adsorbed_fractions_wanted": xs, "error": rv})
            elif o_r == "ok":
                y2, l2 = np.asarray(rv[0], dtype=float), np.asarray(rv[1], dtype=float)
                certificate_raw(datas, ptot * y2, l2, {**sig, "entry": "reverse_iast"}, {**detail, "adsorbed_fractions_wanted": xs, "gas_fractions_returned": y2.tolist()}, br)
                if np.sum(l2) > 0 and not np.allclose(l2 / np.sum(l2), xs, rtol=1e-9, atol=0):
                    ck.fail_case({**sig, "clause": "reverse_iast loadings do not have the requested adsorbed fractions"}, {**detail, "adsorbed_fractions_wanted": xs, "got": (l2 / np.sum(l2)).tolist()})
            if cert is not None and np.min(cert[0]) > 1e-4:
                o_b, back = outcome(lambda: pgi.reverse_iast(isos_h, cert[0], ptot, branch=br, warningoff=True))
                if (o_b, back) == ("refused", "CalculationError") and all(float(pz) <= (1 - 1e-6) * float(d[br][0][-1]) for d, pz in zip(datas, pp / cert[0])):
                    # (fictitious pressures away from the end of the measured range: the finite-difference steps of the root finder stay inside)
                    started_at_solution(sig, detail, isos_h, cert[0], ptot, y, ref, {"branch": br})
                if o_b == "ok":
                    e = float(np.max(np.abs(np.asarray(back[0], dtype=float) - y) / y))
                    note("reverse∘forward (hysteretic)", e)
                    if not (e <= 1e-5) or not np.allclose(np.asarray(back[1], dtype=float), ref, rtol=1e-5):
                        ck.fail_case({**sig, "clause": "reverse IAST does not invert the forward calculation"}, {**detail, "x": cert[0].tolist(), "gas_fractions_back": np.asarray(back[0]).tolist(), "expected": y.tolist()})
            # binary helpers: what the point calculation gives on the same branch (each of those points certified)
            if nc == 2 and (i % 2 == 0 or thorough):
                pt = logu(rng, 2, 20)
                prs = [pt, pt * 1.7] if thorough else [pt]
                refs = [outcome(lambda: np.asarray(pgi.iast_point(isos_h, y * p_, branch=br, warningoff=True), dtype=float)) for p_ in prs]
                o_s, svp = outcome(lambda: pgi.iast_binary_svp(isos_h, [float(y[0]), float(y[1])], prs, branch=br, warningoff=True))
                if all(o_ == "ok" for o_, _ in refs):
                    for (_, r_), p_ in zip(refs, prs):
                        certificate_raw(datas, y * p_, r_, {**sig, "entry": "iast_binary_svp"}, {**detail, "total_pressure": p_, "partial_pressures": (y * p_).tolist()}, br)
                    want = [(r_[0] / y[0]) / (r_[1] / y[1]) for _, r_ in refs]
                    if o_s != "ok" or not np.allclose(np.asarray(svp["selectivity"], dtype=float), want, rtol=1e-9, atol=0):
                        ck.fail_case({**sig, "clause": "iast_binary_svp differs from the point calculation"}, {**detail, "pressures": prs, "got": [o_s, svp if o_s != "ok" else [float(v) for v in svp["selectivity"]]], "expected": [float(v) for v in want]})
                ys = np.linspace(0.01, 0.99, 3)
                refs = [outcome(lambda: np.asarray(pgi.iast_point(isos_h, np.array([yk, 1 - yk]) * pt, branch=br, warningoff=True), dtype=float)) for yk in ys]
                o_v, vle = outcome(lambda: pgi.iast_binary_vle(isos_h, pt, branch=br, npoints=3, warningoff=True))
                if all(o_ == "ok" for o_, _ in refs):
                    for (_, r_), yk in zip(refs, ys):
                        certificate_raw(datas, np.array([yk, 1 - yk]) * pt, r_, {**sig, "entry": "iast_binary_vle"}, {**detail, "total_pressure": pt, "partial_pressures": [yk * pt, (1 - yk) * pt]}, br)
                    xsw = [r_[0] / (r_[0] + r_[1]) for _, r_ in refs]
                    if o_v != "ok" or not (np.allclose(vle["x"][1:-1], xsw, rtol=1e-9, atol=0) and np.allclose(vle["y"][1:-1], ys) and vle["x"][0] == 0 and vle["x"][-1] == 1):
                        ck.fail_case({**sig, "clause": "iast_binary_vle differs from the point calculation"}, {**detail, "total_pressure": pt, "got": [o_v, vle if o_v != "ok" else [float(v) for v in vle["x"]]], "expected": [0.0] + [float(v) for v in xsw] + [1.0]})
        # a partial pressure above the highest desorption pressure but inside the adsorption range: the desorption branch cannot answer
        if i % 3 == 0:
            j = rng.randrange(nc)
            top_d, top_a = float(datas[j]["des"][0][-1]), float(datas[j]["ads"][0][-1])
            pb = [logu(rng, 0.5, 5) for _ in range(nc)]
            pb[j] = top_d + (top_a - top_d) * rng.uniform(0.2, 0.9)
            g = dyadic_fractions(nc)
            must_refuse("iast_point(branch='des'): partial pressure beyond the measured desorption range (user guess)",
                        lambda: pgi.iast_point(isos_h, pb, branch="des", adsorbed_mole_fraction_guess=g, warningoff=True), CalculationError,
                        {"partial_pressures": pb, "highest_desorption_pressure": top_d, "highest_adsorption_pressure": top_a})

    # -------------------------------------------------------------------- model isotherms that describe a DESORPTION branch (fitted on it)
    # A ModelIsotherm answers for its own branch only; any other branch is refused with ParameterError (documented) — by every entry point.
    for i in range(ck.n(4, 16)):
        nc = 2
        datas = [iastlib.point_data(rng, np, hysteresis=True, npts=rng.randint(12, 24)) for _ in range(nc)]
        pts = [iastlib.build_point(pg, np, d, a) for d, a in zip(datas, ADS)]
        mname = rng.choice(["Langmuir", "DSLangmuir", "Toth"])
        try:
            fitted = [pg.ModelIsotherm.from_pointisotherm(pi, branch="des", model=mname, verbose=False) for pi in pts]
        except Exception as e:  # noqa  (a fit that does not converge is the concern of C12)
            ck.count(("desfit-nofit", i), nontrivial=False, bucket="model fitted on the desorption branch: no fit (" + type(e).__name__ + ")")
            continue
        ptot = logu(rng, 0.5, 20)
        yv = rng.uniform(0.2, 0.8)
        pp = ptot * np.array([yv, 1 - yv])
        sig = {"kind": "model fitted on the desorption branch", "components": nc}
        detail = {"model": mname, "fitted_parameters": [dict((k, float(v)) for k, v in m.model.params.items()) for m in fitted], "partial_pressures": pp.tolist(), "data": data_detail(datas)}
        ck.count(("desfit", mname, i), bucket="model fitted on the desorption branch")
        if any(m.branch != "des" for m in fitted):
            ck.fail_case({**sig, "clause": "a model fitted on the desorption branch does not say so"}, {**detail, "branch_attributes": [m.branch for m in fitted]})
            continue
        o, r = outcome(lambda: np.asarray(pgi.iast_point(fitted, pp, branch="des", warningoff=True), dtype=float))
        if o == "error":
            ck.fail_case({**sig, "clause": "iast_point raises a non-pyGAPS error", "error": r.split(":")[0]}, {**detail, "error": r})
        elif o == "ok":
            certificate(fitted, pp, r, sig, detail, independent=True)
            o2, r2 = outcome(lambda: np.asarray(pgi.iast_point_fraction(fitted, [yv, 1 - yv], ptot, branch="des", warningoff=True), dtype=float))
            if o2 != "ok" or not np.allclose(r2, r, rtol=1e-9, atol=0):
                ck.fail_case({**sig, "clause": "iast_point_fraction differs from the point calculation"}, {**detail, "got": [o2, r2 if o2 != "ok" else r2.tolist()], "expected": r.tolist()})
        for what, fn in (("iast_point", lambda: pgi.iast_point(fitted, pp, warningoff=True)),
                         ("iast_point_fraction", lambda: pgi.iast_point_fraction(fitted, [yv, 1 - yv], ptot, branch="ads", warningoff=True)),
                         ("reverse_iast", lambda: pgi.reverse_iast(fitted, [0.5, 0.5], ptot, branch="ads", warningoff=True)),
                         ("iast_binary_svp", lambda: pgi.iast_binary_svp(fitted, [yv, 1 - yv], [ptot], warningoff=True)),
                         ("iast_binary_vle", lambda: pgi.iast_binary_vle(fitted, ptot, npoints=3, branch="ads", warningoff=True))):
            must_refuse(what + ": adsorption branch asked from model isotherms of the desorption branch", fn, ParameterError, {"model": mname})

    # -------------------------------------------------------------------- isotherm OBJECTS with a query history
    # The property quantifies over the given pure-component isotherms, not over what was asked from the objects before: the result on objects
    # that were queried (other interpolation kinds, branches, fill values, units; an earlier IAST run) must be the result on freshly built
    # objects with the same data, and must satisfy the certificate computed from the raw data.
    # Hysteretic point isotherms are called on either branch (the other branch appears in the history); the certificate is computed from the raw rows
    # of the branch that was asked for.  (Both defects that kept `branch='des'` out of the certified calls are repaired in the library: 208858a — the
    # fold ran over the desorption rows in stored, decreasing order; 4306ac7 — the pure loadings were read on the 'ads' branch whatever `branch` was.)
    # Model isotherms are built on either branch and called on their own branch; another branch is refused with ParameterError, with or without history.
    for i in range(ck.n(36, 200)):
        nc = rng.choice([2, 2, 3])
        kind = rng.choice(["point-history", "point-history", "point-history", "model-history"])
        if kind == "point-history":
            hyst = rng.random() < 0.5
            datas = [iastlib.point_data(rng, np, hysteresis=hyst) for _ in range(nc)]
            names, plist = [d["shape"] for d in datas], [d["params"] for d in datas]

            def mk():
                return [iastlib.build_point(pg, np, d, a) for d, a in zip(datas, ADS)]
            br_call = "des" if hyst and rng.random() < 0.55 else "ads"
            foreign_branch = False
        else:
            datas = None
            names = [rng.choice(IAST_OK) for _ in range(nc)]
            plist = [pars(n) for n in names]
            mbranch = rng.choice(["ads", "ads", "des"])
            foreign_branch = rng.random() < 0.15
            br_call = mbranch if not foreign_branch else {"ads": "des", "des": "ads"}[mbranch]

            def mk():
                return [model_iso_on(n, p_, a, mbranch) for n, p_, a in zip(names, plist, ADS)]
        bkw = {"branch": br_call} if br_call != "ads" or rng.random() < 0.5 else {}          # 'ads' is also the default of every entry point
        isos_h, fresh = mk(), mk()
        ptot = logu(rng, 0.5, 20)
        y = np.array([rng.uniform(0.1, 1) for _ in range(nc)])
        y = y / np.sum(y)
        pp = ptot * y
        history = []
        for _ in range(rng.randint(1, 4)):
            j = rng.randrange(nc)
            if datas is not None:
                history.append({"component": j, **iastlib.query_point(rng, np, isos_h[j], datas[j])})
            else:
                history.append({"component": j, **iastlib.query_model(rng, np, isos_h[j])})
        if rng.random() < 0.3:
            br0 = "des" if (datas is not None and datas[0]["des"] is not None and rng.random() < 0.6) else "ads"
            pp0 = [logu(rng, 0.05, 5) for _ in range(nc)]
            h0 = {"op": "iast_point", "branch": br0, "partial_pressures": pp0}
            try:
                pgi.iast_point(isos_h, pp0, branch=br0, warningoff=True)
            except Exception as e:  # noqa
                h0["raised"] = type(e).__name__
            history.append(h0)
        entry = rng.choice(["iast_point", "iast_point", "iast_point", "iast_point_fraction", "reverse_iast"])
        xs = dyadic_fractions(nc)

        def call(isos):
            try:
                if entry == "iast_point":
                    return "ok", (np.asarray(pgi.iast_point(isos, pp, warningoff=True, **bkw), dtype=float), pp)
                if entry == "iast_point_fraction":
                    return "ok", (np.asarray(pgi.iast_point_fraction(isos, y, ptot, warningoff=True, **bkw), dtype=float), pp)
                y2, l2 = pgi.reverse_iast(isos, xs, ptot, warningoff=True, **bkw)
                return "ok", (np.asarray(l2, dtype=float), ptot * np.asarray(y2, dtype=float))
            except (CalculationError, ParameterError) as e:
                return "refused", type(e).__name__
            except Exception as e:  # noqa
                return ("refused", "ValueError (outside the measured range)") if range_refusal(e) else ("error", type(e).__name__)

        sig = {"kind": kind, "components": nc, "entry": entry, "branch": br_call}
        detail = {"models": names, "params": plist, "partial_pressures": pp.tolist(), "total_pressure": ptot, "gas_fractions": y.tolist(), "history_before_the_call": history,
                  "branch": br_call, "keyword_arguments": bkw}
        if entry == "reverse_iast":
            detail["adsorbed_fractions_wanted"] = xs
        if datas is not None:
            detail["data"] = data_detail(datas)
        else:
            detail["model_isotherms_built_on_branch"] = mbranch
        ck.count((kind, entry, nc, br_call, tuple(h["op"] for h in history), i), bucket=f"{kind}:{entry}:{br_call}", sample={"models": names, "history": history, "branch": br_call} if i % 40 == 0 else None)
        (oh, rh), (of, rf) = call(isos_h), call(fresh)
        if foreign_branch:
            # documented refusal: a model isotherm answers for its own branch only
            for which, o_, r_ in (("objects with history", oh, rh), ("fresh objects", of, rf)):
                if (o_, r_) != ("refused", "ParameterError"):
                    ck.fail_case({"kind": "refusal", "clause": "input outside the documented domain accepted" if o_ == "ok" else "documented refusal raises another error kind",
                                  "case": entry + ": model isotherms asked for a branch other than their own"},
                                 {**detail, "objects": which, "outcome": [o_, r_ if o_ != "ok" else r_[0].tolist()], "expected": "ParameterError"})
            continue
        if oh != of:
            ck.fail_case({**sig, "clause": "outcome depends on what was asked from the isotherm objects before"},
                         {**detail, "with_history": [oh, rh if oh != "ok" else rh[0].tolist()], "fresh_objects": [of, rf if of != "ok" else rf[0].tolist()]})
            if oh != "ok":
                continue
        if oh != "ok":
            ck.count((kind, "refused", i), nontrivial=False, bucket=f"{kind}: refused ({rh})")
            continue
        lh, pph = rh
        if of == "ok":
            lf, ppf = rf
            tot = float(np.sum(lf))
            e = float(max(np.max(np.abs(lh - lf)) / tot, np.max(np.abs(pph - ppf)) / ptot))
            note("history vs fresh objects", e)
            if not (e <= 1e-9):
                ck.fail_case({**sig, "clause": "result depends on what was asked from the isotherm objects before"},
                             {**detail, "with_history": lh.tolist(), "fresh_objects": lf.tolist(), "partial_pressures_with_history": pph.tolist(), "partial_pressures_fresh": ppf.tolist()})
        if datas is not None:
            certificate_raw(datas, pph, lh, sig, detail, br_call)
        else:
            certificate(fresh, pph, lh, sig, detail, independent=False)
        if entry == "reverse_iast":
            xb = lh / np.sum(lh)
            if not np.allclose(xb, xs, rtol=1e-9, atol=0):
                ck.fail_case({**sig, "clause": "reverse_iast loadings do not have the requested adsorbed fractions"}, {**detail, "got": xb.tolist()})

    # -------------------------------------------------------------------- argument TYPES: the same numbers as ints, int arrays, lists, tuples, float32, 0-d arrays, mixed
    def same(a, b, scale):
        a, b = np.asarray(a, dtype=float), np.asarray(b, dtype=float)
        return a.shape == b.shape and bool(np.all(np.abs(a - b) <= 1e-12 * scale))

    def pick(variants, k, must=()):
        names_ = sorted(variants)
        chosen = [n for n in must if n in variants]
        rest = [n for n in names_ if n not in chosen]
        rng.shuffle(rest)
        return [(n, variants[n]) for n in chosen + rest[:max(0, k - len(chosen))]]

    for i in range(ck.n(24, 160)):
        nc = rng.choice([2, 2, 2, 3, 4])
        kind = rng.choice(["model", "model", "model", "henry", "langmuir-eq", "langmuir-eq", "point"])
        datas = None
        B, brt = {}, "ads"
        if kind == "point":
            hy = rng.random() < 0.5
            datas = [iastlib.point_data(rng, np, hysteresis=hy) for _ in range(nc)]
            if hy and rng.random() < 0.6:
                B, brt = {"branch": "des"}, "des"          # every call of this round on the desorption branch of hysteretic point isotherms
            names, plist = [d["shape"] for d in datas], [d["params"] for d in datas]
            isos = [iastlib.build_point(pg, np, d, a) for d, a in zip(datas, ADS)]
        else:
            names = ["Henry"] * nc if kind == "henry" else ["Langmuir"] * nc if kind == "langmuir-eq" else [rng.choice(IAST_OK) for _ in range(nc)]
            plist = [pars(n) for n in names]
            if kind == "langmuir-eq":
                nm = rng.uniform(1, 8)
                for p_ in plist:
                    p_["n_m"] = nm
            isos = [model_iso(n, p_, a) for n, p_, a in zip(names, plist, ADS)]
        integer = rng.random() < 0.75
        vals = [float(rng.randint(1, 12)) for _ in range(nc)] if integer else [rng.randint(1, 48) / 4 for _ in range(nc)]
        sig = {"kind": "argument-types:" + kind, "components": nc, "branch": brt}
        detail = {"models": names, "params": plist, "partial_pressures": vals, "branch": brt, "keyword_arguments": B}
        if datas is not None:
            detail["data"] = data_detail(datas)
        ppf = np.array(vals, dtype=np.float64)
        o_ref, ref = outcome(lambda: np.asarray(pgi.iast_point(isos, ppf, warningoff=True, **B), dtype=float))
        ck.count(("types", kind, nc, tuple(vals), i), bucket=f"argument types:{kind}" + (":des" if brt == "des" else ""), sample={"models": names, "partial_pressures": vals} if i % 40 == 0 else None)
        if o_ref != "ok":
            ck.count(("types-refused", i), nontrivial=False, bucket="argument types: float64 reference refused")
            continue
        tot = float(np.sum(ref))
        # (a) iast_point: every container / dtype of the same numbers
        for vname, v in pick(iastlib.vector_variants(np, vals), 4, must=[rng.choice(["list[int]", "array[int64]", "tuple[int]", "array[int32]", "list[numpy.int64]", "mixed[int,float]"])]):
            o, r = outcome(lambda: pgi.iast_point(isos, v, warningoff=True, **B))
            ck.count(("types-v", vname), nontrivial=False, bucket="iast_point(" + vname + ")")
            if o != "ok" or not same(r, ref, tot):
                ck.fail_case({**sig, "clause": "iast_point depends on the type of the partial pressures (same numbers)", "argument": vname.split("[")[0]},
                             {**detail, "passed": iastlib.describe(v), "got": [o, r if o != "ok" else np.asarray(r, dtype=float).tolist()], "expected_as_for_float64": ref.tolist()})
            elif vname in ("list[int]", "array[int64]", "tuple[int]", "array[int32]", "list[numpy.int64]", "array[float32]"):
                # the result for non-float input satisfies the equations as well (not only "equal to the float64 one")
                d2 = {**detail, "passed": iastlib.describe(v)}
                if datas is not None:
                    certificate_raw(datas, ppf, r, sig, d2, brt)
                else:
                    certificate(isos, ppf, r, sig, d2, independent=False)
                if kind == "henry":
                    want = np.array([p_["K"] for p_ in plist]) * ppf
                    if float(np.max(np.abs(np.asarray(r, dtype=float) - want) / want)) > 1e-6:
                        ck.fail_case({**sig, "clause": "Henry mixture differs from the closed form n_i = K_i p_i"}, {**d2, "got": np.asarray(r, dtype=float).tolist(), "expected": want.tolist()})
                if kind == "langmuir-eq":
                    ks = np.array([p_["K"] for p_ in plist])
                    want = plist[0]["n_m"] * ks * ppf / (1 + float(np.sum(ks * ppf)))
                    if float(np.max(np.abs(np.asarray(r, dtype=float) - want) / want)) > 1e-6:
                        ck.fail_case({**sig, "clause": "equal-capacity Langmuir mixture differs from the extended-Langmuir closed form"}, {**d2, "got": np.asarray(r, dtype=float).tolist(), "expected": want.tolist()})
        # (b) verbose report: same result, and the logged fictitious pressures are p_i / x_i
        if i % 3 == 0:
            v = rng.choice([list(map(int, vals)) if integer else vals, ppf])
            (o, r), recs = logged(lambda: outcome(lambda: pgi.iast_point(isos, v, warningoff=True, **B, verbose=True)))
            if o != "ok" or not same(r, ref, tot):
                ck.fail_case({**sig, "clause": "iast_point(verbose=True) differs from the silent calculation"}, {**detail, "passed": iastlib.describe(v), "got": [o, r if o != "ok" else np.asarray(r).tolist()], "expected": ref.tolist()})
            else:
                said = [float(m.split("=")[1]) for lv, m in recs if m.strip().startswith("p^0 =")]
                want = ppf / (ref / tot)
                if len(said) != nc or any(abs(a - b) > 1.1e-3 * b for a, b in zip(said, want)):
                    ck.fail_case({**sig, "clause": "fictitious pressures reported by iast_point(verbose=True) are not p_i / x_i"}, {**detail, "passed": iastlib.describe(v), "reported": said, "expected": want.tolist()})
        # (c) user guess in any container
        g = dyadic_fractions(nc)
        o_g, r_g = outcome(lambda: np.asarray(pgi.iast_point(isos, ppf, warningoff=True, **B, adsorbed_mole_fraction_guess=np.array(g)), dtype=float))
        for vname, v in pick({k: w for k, w in iastlib.vector_variants(np, g).items() if "int" not in k}, 2):
            o, r = outcome(lambda: pgi.iast_point(isos, ppf, warningoff=True, **B, adsorbed_mole_fraction_guess=v))
            if o != o_g or (o == "ok" and not same(r, r_g, tot)):
                ck.fail_case({**sig, "clause": "iast_point depends on the type of the starting guess (same numbers)", "argument": vname.split("[")[0]},
                             {**detail, "guess": iastlib.describe(v), "got": [o, r if o != "ok" else np.asarray(r, dtype=float).tolist()], "expected_as_for_float64": [o_g, r_g if o_g != "ok" else r_g.tolist()]})
        # (d) fraction helper: fractions k/16 in any container, integer total pressure in any scalar type
        yv = dyadic_fractions(nc)
        ptot_i = rng.randint(1, 24)
        o_f, r_f = outcome(lambda: np.asarray(pgi.iast_point(isos, np.array(yv) * float(ptot_i), warningoff=True, **B), dtype=float))
        for (yn, yvv), (pn, pv) in zip(pick({k: w for k, w in iastlib.vector_variants(np, yv).items() if "int" not in k}, 2), pick(iastlib.scalar_variants(np, ptot_i), 2, must=[rng.choice(["int", "numpy.int64", "0-d int array", "numpy.int32"])])):
            o, r = outcome(lambda: pgi.iast_point_fraction(isos, yvv, pv, warningoff=True, **B))
            ck.count(("types-f", yn, pn), nontrivial=False, bucket="iast_point_fraction(" + yn + ", " + pn + ")")
            if o != o_f or (o == "ok" and not same(r, r_f, float(np.sum(r_f)))):
                ck.fail_case({**sig, "clause": "iast_point_fraction differs from the point calculation", "argument": yn.split("[")[0] + "," + pn.split(" ")[0]},
                             {**detail, "fractions": iastlib.describe(yvv), "total_pressure": iastlib.describe(pv), "got": [o, r if o != "ok" else np.asarray(r, dtype=float).tolist()], "expected": [o_f, r_f if o_f != "ok" else r_f.tolist()]})
        # (e) reverse problem: wanted fractions k/16 in any container, integer total pressure
        if i % 2 == 0:
            gg = dyadic_fractions(nc) if rng.random() < 0.5 else None
            o_r, r_r = outcome(lambda: pgi.reverse_iast(isos, np.array(yv), float(ptot_i), warningoff=True, **B, gas_mole_fraction_guess=None if gg is None else np.array(gg)))
            for (xn, xv), (pn, pv) in zip(pick({k: w for k, w in iastlib.vector_variants(np, yv).items() if "int" not in k}, 2), pick(iastlib.scalar_variants(np, ptot_i), 2, must=[rng.choice(["int", "numpy.int64", "0-d int array"])])):
                gv = None if gg is None else rng.choice([list(gg), tuple(gg), np.array(gg), np.array(gg, dtype=np.float32)])
                o, r = outcome(lambda: pgi.reverse_iast(isos, xv, pv, warningoff=True, **B, gas_mole_fraction_guess=gv))
                ck.count(("types-r", xn, pn), nontrivial=False, bucket="reverse_iast(" + xn + ", " + pn + ")" + ("" if gg is None else " with guess"))
                ok = o == o_r and (o != "ok" or (same(r[0], r_r[0], 1.0) and same(r[1], r_r[1], float(np.sum(r_r[1])))))
                if not ok:
                    ck.fail_case({**sig, "clause": "reverse_iast depends on the argument types (same numbers)", "argument": xn.split("[")[0] + "," + pn.split(" ")[0]},
                                 {**detail, "adsorbed_fractions": iastlib.describe(xv), "total_pressure": iastlib.describe(pv), "gas_mole_fraction_guess": None if gv is None else iastlib.describe(gv),
                                  "got": [o, r if o != "ok" else [np.asarray(r[0], dtype=float).tolist(), np.asarray(r[1], dtype=float).tolist()]],
                                  "expected": [o_r, r_r if o_r != "ok" else [np.asarray(r_r[0]).tolist(), np.asarray(r_r[1]).tolist()]]})
                elif o == "ok":
                    # forward(reverse) on the integer-typed call: the returned gas fractions reproduce the wanted adsorbed fractions
                    y2 = np.asarray(r[0], dtype=float)
                    if np.min(y2) > 1e-4:
                        o2, l2 = outcome(lambda: np.asarray(pgi.iast_point(isos, y2 * float(ptot_i), warningoff=True, **B), dtype=float))
                        if o2 == "ok" and not np.allclose(l2 / np.sum(l2), yv, rtol=1e-5, atol=1e-8):
                            ck.fail_case({**sig, "clause": "reverse IAST does not invert the forward calculation"}, {**detail, "adsorbed_fractions": iastlib.describe(xv), "total_pressure": iastlib.describe(pv), "gas_fractions": y2.tolist(), "forward_fractions": (l2 / np.sum(l2)).tolist()})
        # (f) binary helpers on integer pressures
        if nc == 2:
            k = rng.randint(1, 15)
            mf = [k / 16, 1 - k / 16]
            prs = sorted({rng.randint(1, 20) for _ in range(3)})
            refs = [outcome(lambda: np.asarray(pgi.iast_point(isos, np.array(mf) * float(p_), warningoff=True, **B), dtype=float)) for p_ in prs]
            if all(o == "ok" for o, _ in refs):
                want = [(r[0] / mf[0]) / (r[1] / mf[1]) for _, r in refs]
                for (mn, mv), (pn, pv) in zip(pick({k_: w for k_, w in iastlib.vector_variants(np, mf).items() if "int" not in k_ and "float32" not in k_}, 2), pick(iastlib.vector_variants(np, prs), 2, must=[rng.choice(["list[int]", "array[int64]", "tuple[int]"])])):
                    o, r = outcome(lambda: pgi.iast_binary_svp(isos, mv, pv, warningoff=True, **B))
                    ck.count(("types-s", mn, pn), nontrivial=False, bucket="iast_binary_svp(" + mn + ", " + pn + ")")
                    if o != "ok" or not np.allclose(np.asarray(r["selectivity"], dtype=float), want, rtol=1e-9, atol=0) or not np.array_equal(np.asarray(r["pressure"], dtype=float), np.asarray(prs, dtype=float)):
                        ck.fail_case({**sig, "clause": "iast_binary_svp differs from the point calculation", "argument": mn.split("[")[0] + "," + pn.split("[")[0]},
                                     {**detail, "mole_fractions": iastlib.describe(mv), "pressures": iastlib.describe(pv), "got": [o, r if o != "ok" else [float(v_) for v_ in r["selectivity"]]], "expected": [float(v_) for v_ in want]})
            pt_i = rng.randint(1, 20)
            ys = np.linspace(0.01, 0.99, 3)
            refs = [outcome(lambda: np.asarray(pgi.iast_point(isos, np.array([yk, 1 - yk]) * float(pt_i), warningoff=True, **B), dtype=float)) for yk in ys]
            if all(o == "ok" for o, _ in refs):
                xsw = [r[0] / (r[0] + r[1]) for _, r in refs]
                for pn, pv in pick(iastlib.scalar_variants(np, pt_i), 2, must=[rng.choice(["int", "numpy.int64", "0-d int array"])]):
                    o, r = outcome(lambda: pgi.iast_binary_vle(isos, pv, npoints=3, warningoff=True, **B))
                    if o != "ok" or not (np.allclose(r["x"][1:-1], xsw, rtol=1e-9, atol=0) and np.allclose(r["y"][1:-1], ys) and r["x"][0] == 0 and r["x"][-1] == 1 and r["y"][0] == 0 and r["y"][-1] == 1):
                        ck.fail_case({**sig, "clause": "iast_binary_vle differs from the point calculation", "argument": pn.split(" ")[0]},
                                     {**detail, "total_pressure": iastlib.describe(pv), "got": [o, r if o != "ok" else [float(v_) for v_ in r["x"]]], "expected": [0.0] + [float(v_) for v_ in xsw] + [1.0]})

    # -------------------------------------------------------------------- argument SEQUENCES in any order: each row of the helper = the point calculation at ITS pressure
    # (pressures decreasing, shuffled, with repeats - a repeat after a larger value -, as list / tuple / float array; default and user guess; point and model isotherms whose
    #  selectivity depends on pressure; `pressure` is returned as passed, row by row)
    for i in range(ck.n(14, 80)):
        kind = rng.choice(["model", "model", "model", "point", "henry"])
        datas, B, brt = None, {}, "ads"
        if kind == "point":
            hy = rng.random() < 0.4
            datas = [iastlib.point_data(rng, np, hysteresis=hy) for _ in range(2)]
            if hy and rng.random() < 0.5:
                B, brt = {"branch": "des"}, "des"
            names, plist = [d["shape"] for d in datas], [d["params"] for d in datas]
            isos = [iastlib.build_point(pg, np, d, a) for d, a in zip(datas, ADS)]
        else:
            names = ["Henry"] * 2 if kind == "henry" else [rng.choice(IAST_OK) for _ in range(2)]
            plist = [pars(n) for n in names]
            isos = [model_iso(n, p_, a) for n, p_, a in zip(names, plist, ADS)]
        k = rng.randint(1, 15)
        mf = [k / 16, 1 - k / 16]
        base = sorted({float(f"{logu(rng, 0.05, 20):.4g}") for _ in range(rng.randint(2, 5))})
        order = rng.choice(["decreasing", "shuffled", "repeats", "repeats"])
        if order == "decreasing":
            prs = base[::-1]
        elif order == "shuffled":
            prs = list(base)
            while len(prs) > 1 and prs == sorted(prs):
                rng.shuffle(prs)
        else:
            prs = list(base[::-1]) + [rng.choice(base) for _ in range(rng.randint(1, 2))] + [base[-1]]
            prs.insert(rng.randrange(len(prs)), base[0])
        guess = None
        if rng.random() < 0.3:
            g_ = rng.randint(2, 14) / 16
            guess = [g_, 1 - g_]
        G = {} if guess is None else {"adsorbed_mole_fraction_guess": guess}
        sig = {"kind": "argument-order:" + kind, "components": 2, "branch": brt, "order": order}
        detail = {"models": names, "params": plist, "mole_fractions": mf, "pressures": prs, "branch": brt, "adsorbed_mole_fraction_guess": guess}
        if datas is not None:
            detail["data"] = data_detail(datas)
        ck.count(("order", kind, order, tuple(prs), i), bucket=f"iast_binary_svp: pressures {order} ({kind})", sample={"models": names, "pressures": prs} if i % 20 == 0 else None)
        refs = [outcome(lambda: np.asarray(pgi.iast_point(isos, np.array(mf) * float(p_), warningoff=True, **B, **G), dtype=float)) for p_ in prs]
        cont = rng.choice(["list", "tuple", "array"])
        pv = list(prs) if cont == "list" else tuple(prs) if cont == "tuple" else np.array(prs, dtype=float)
        o, r = outcome(lambda: pgi.iast_binary_svp(isos, list(mf) if i % 2 else np.array(mf), pv, warningoff=True, **B, **G))
        if not all(o_ == "ok" for o_, _ in refs):
            if o == "ok":
                ck.fail_case({**sig, "clause": "iast_binary_svp answers where the point calculation refuses"}, {**detail, "point_calculations": [o_ if o_ != "ok" else "ok" for o_, _ in refs]})
            else:
                ck.count(("order-refused", i), nontrivial=False, bucket="iast_binary_svp (any order): refused like the point calculation")
            continue
        want = [float((r_[0] / mf[0]) / (r_[1] / mf[1])) for _, r_ in refs]
        if o != "ok":
            ck.fail_case({**sig, "clause": "iast_binary_svp differs from the point calculation", "container": cont}, {**detail, "got": [o, r], "expected": want})
            continue
        got = [float(v_) for v_ in r["selectivity"]]
        gp = np.asarray(r["pressure"], dtype=float)
        if len(got) != len(prs) or not np.allclose(got, want, rtol=1e-9, atol=0):
            ck.fail_case({**sig, "clause": "iast_binary_svp differs from the point calculation", "container": cont}, {**detail, "container": cont, "got": got, "expected_row_by_row": want})
        elif gp.shape != (len(prs),) or not np.array_equal(gp, np.asarray(prs, dtype=float)):
            ck.fail_case({**sig, "clause": "iast_binary_svp does not report the pressures in the order they were passed", "container": cont}, {**detail, "container": cont, "got": gp.tolist()})
        # the same value asked twice gives the same row
        for a_ in range(len(prs)):
            for b_ in range(a_ + 1, len(prs)):
                if prs[a_] == prs[b_] and len(got) == len(prs) and got[a_] != got[b_]:
                    ck.fail_case({**sig, "clause": "iast_binary_svp: one pressure passed twice gives two different rows"}, {**detail, "rows": [a_, b_], "got": got})

    # -------------------------------------------------------------------- reverse problem with a TRACE component (requested adsorbed fraction 1e-6 .. 5e-4), arguments as float
    # arrays / lists / tuples, default and user guess: loadings have the requested fractions, closed forms (Henry, equal-capacity Langmuir: y_i ~ x_i / K_i), the forward
    # calculation at the returned gas fractions gives the requested composition back, a second call with the SAME variable gives the same answer.
    def trace_fractions(nc):
        t = rng.randint(1, 1023) / 2 ** rng.randint(20, 21)         # exact dyadic numbers: the sum is 1.0 exactly (the library refuses anything else)
        if nc == 2:
            xs_ = [t, 1 - t]
        else:
            d_ = rng.randint(2, 12) / 16
            xs_ = [t, d_, 1 - t - d_]
        rng.shuffle(xs_)
        return xs_

    for i in range(ck.n(24, 120)):
        nc = rng.choice([2, 2, 3])
        kind = rng.choice(["henry", "langmuir-eq", "model", "model"])
        names = ["Henry"] * nc if kind == "henry" else ["Langmuir"] * nc if kind == "langmuir-eq" else [rng.choice(["Henry", "Langmuir", "DSLangmuir", "TSLangmuir", "Quadratic", "Toth", "JensenSeaton"]) for _ in range(nc)]
        plist = [pars(n) for n in names]
        if kind == "langmuir-eq":
            nm = rng.uniform(1, 8)
            for p_ in plist:
                p_["n_m"] = nm
        isos = [model_iso(n, p_, a) for n, p_, a in zip(names, plist, ADS)]
        xs = trace_fractions(nc)
        assert float(np.sum(np.array(xs))) == 1.0
        ptot = float(f"{logu(rng, 0.1, 20):.4g}")
        gk = rng.choice(["default", "default", "default", "user"])
        cont = rng.choice(["array", "array", "list", "tuple"])
        xv = np.array(xs, dtype=float) if cont == "array" else list(xs) if cont == "list" else tuple(xs)
        gv = None
        if gk == "user":
            gg = dyadic_fractions(nc)
            gv = rng.choice([list(gg), np.array(gg, dtype=float)])
        sig = {"kind": "reverse-trace:" + kind, "components": nc, "guess": gk, "container": cont}
        detail = {"models": names, "params": plist, "adsorbed_fractions_wanted": xs, "total_pressure": ptot, "container": cont, "gas_mole_fraction_guess": None if gv is None else iastlib.describe(gv)}
        ck.count(("rtrace", kind, nc, tuple(xs), i), bucket=f"reverse_iast with a trace component ({kind}, {gk} guess, {cont})", sample={"models": names, "x": xs} if i % 30 == 0 else None)
        o, r = outcome(lambda: pgi.reverse_iast(isos, xv, ptot, warningoff=True, gas_mole_fraction_guess=gv))
        if o == "error":
            ck.fail_case({**sig, "clause": "reverse_iast raises a non-pyGAPS error", "error": r.split(":")[0]}, {**detail, "error": r})
            continue
        # the same variable again: the same outcome (whatever the first call did with it)
        o_b, r_b = outcome(lambda: pgi.reverse_iast(isos, xv, ptot, warningoff=True, gas_mole_fraction_guess=gv))
        if o_b != o or (o == "ok" and not (np.array_equal(np.asarray(r[0]), np.asarray(r_b[0])) and np.array_equal(np.asarray(r[1]), np.asarray(r_b[1])))):
            ck.fail_case({**sig, "clause": "reverse_iast: a second call with the same argument objects gives another answer"},
                         {**detail, "first": [o, r if o != "ok" else [np.asarray(r[0]).tolist(), np.asarray(r[1]).tolist()]], "second": [o_b, r_b if o_b != "ok" else [np.asarray(r_b[0]).tolist(), np.asarray(r_b[1]).tolist()]]})
        if o != "ok":
            ck.count(("rtrace-refused", i), nontrivial=False, bucket=f"reverse_iast with a trace component: refused ({r})")
            continue
        y2, l2 = np.asarray(r[0], dtype=float), np.asarray(r[1], dtype=float)
        xa = np.array(xs, dtype=float)
        d2 = {**detail, "gas_fractions_returned": y2.tolist(), "loadings_returned": l2.tolist()}
        e = float(np.max(np.abs(l2 / np.sum(l2) - xa) / xa))
        note("reverse (trace): fractions of the loadings vs requested", e)
        if not (e <= 1e-9):
            ck.fail_case({**sig, "clause": "reverse_iast loadings do not have the requested adsorbed fractions"}, {**d2, "got": (l2 / np.sum(l2)).tolist()})
        if abs(float(np.sum(y2)) - 1) > 1e-12 or np.min(y2) < 0:
            ck.fail_case({**sig, "clause": "reverse_iast gas fractions are not fractions summing to one"}, d2)
        # equal spreading pressures at the fictitious pressures P y_i / x_i of the REQUESTED fractions (the library's own acceptance: 1e-4 relative, Props/C13/Accept.lean)
        sp = np.array([float(iso.spreading_pressure_at(ptot * float(y_) / float(x_))) for iso, y_, x_ in zip(isos, y2, xa)])
        spread = float((np.max(sp) - np.min(sp)) / np.max(np.abs(sp)))
        note("reverse (trace): relative spread of the spreading pressures", spread)
        if not (spread <= NON_SOLUTION):
            ck.fail_case({**sig, "clause": NON_SOLUTION_CLAUSE, "entry": "reverse_iast"}, {**d2, "spreading_pressures": sp.tolist()})
        # ideal mixing with the requested fractions
        n0 = np.array([float(iso.loading_at(ptot * float(y_) / float(x_))) for iso, y_, x_ in zip(isos, y2, xa)])
        tot_want = 1.0 / float(np.sum(xa / n0))
        if relerr(float(np.sum(l2)), tot_want) > 1e-9:
            ck.fail_case({**sig, "clause": "reverse_iast total loading does not obey the ideal-mixing rule for the requested fractions"}, {**d2, "total": float(np.sum(l2)), "expected": tot_want})
        if kind in ("henry", "langmuir-eq"):
            ks = np.array([p_["K"] for p_ in plist])
            ycf = (xa / ks) / float(np.sum(xa / ks))
            lcf = ks * ycf * ptot if kind == "henry" else plist[0]["n_m"] * ks * ycf * ptot / (1 + float(np.sum(ks * ycf * ptot)))
            e1, e2 = float(np.max(np.abs(y2 - ycf) / ycf)), float(np.max(np.abs(l2 - lcf) / lcf))
            note("reverse (trace) vs closed form: gas fractions", e1)
            note("reverse (trace) vs closed form: loadings", e2)
            if not (e1 <= TRACE_CF_TOL and e2 <= TRACE_CF_TOL):
                ck.fail_case({**sig, "clause": "reverse_iast differs from the closed form (y_i ~ x_i / K_i) at a trace composition"}, {**d2, "expected_gas_fractions": ycf.tolist(), "expected_loadings": lcf.tolist()})
        # forward(reverse): started AT the requested composition (a solution stays where it is), the forward calculation gives the requested fractions back
        o_f, l_f = outcome(lambda: np.asarray(pgi.iast_point(isos, y2 * ptot, warningoff=True, adsorbed_mole_fraction_guess=np.array(xs, dtype=float)), dtype=float))
        if o_f == "ok":
            xf = l_f / np.sum(l_f)
            e3 = float(np.max(np.abs(xf - xa) / xa))
            note("forward(reverse) at a trace composition", e3)
            if not (e3 <= TRACE_INV_TOL):
                ck.fail_case({**sig, "clause": "reverse IAST does not invert the forward calculation", "trace_requested": True}, {**d2, "forward_fractions": xf.tolist()})
        else:
            ck.count(("rtrace-fwd-refused", i), nontrivial=False, bucket="forward(reverse) at a trace composition: forward refused")

    # -------------------------------------------------------------------- extrapolation warning: told iff a fictitious pressure exceeds the model's pressure range, never changes the result
    for i in range(ck.n(8, 40)):
        nc = rng.choice([2, 3])
        names = [rng.choice(["Langmuir", "DSLangmuir", "Henry", "Quadratic"]) for _ in range(nc)]
        plist = [pars(n) for n in names]
        pmaxs = [logu(rng, 1, 30) for _ in range(nc)]
        isos = []
        for n_, p_, a_, pm in zip(names, plist, ADS, pmaxs):
            m_ = get_isotherm_model(n_, parameters={k: np.float64(v) for k, v in p_.items()}, pressure_range=(0.0, pm), loading_range=(0.0, 1e3))
            isos.append(pg.ModelIsotherm(model=m_, branch="ads", material="pgv-synth", adsorbate=a_, temperature=300.0, pressure_mode="absolute", pressure_unit="bar",
                                         loading_basis="molar", loading_unit="mmol", material_basis="mass", material_unit="g", temperature_unit="K"))
        ptot = logu(rng, 0.5, 20)
        y = np.array([rng.uniform(0.1, 1) for _ in range(nc)])
        y = y / np.sum(y)
        pp = ptot * y
        sig = {"kind": "extrapolation-warning", "components": nc}
        detail = {"models": names, "params": plist, "pressure_range_max": pmaxs, "partial_pressures": pp.tolist()}
        ck.count(("warn", tuple(names), i), bucket="extrapolation warning")
        o_q, r_q = outcome(lambda: np.asarray(pgi.iast_point(isos, pp, warningoff=True), dtype=float))
        (o_w, r_w), recs = logged(lambda: outcome(lambda: np.asarray(pgi.iast_point(isos, pp), dtype=float)))
        if o_q != o_w or (o_q == "ok" and not same(r_w, r_q, float(np.sum(r_q)))):
            ck.fail_case({**sig, "clause": "iast_point result depends on warningoff"}, {**detail, "warningoff=True": [o_q, r_q if o_q != "ok" else r_q.tolist()], "warningoff=False": [o_w, r_w if o_w != "ok" else r_w.tolist()]})
            continue
        if o_q != "ok":
            continue
        p0 = pp / (r_q / np.sum(r_q))
        margin = np.abs(p0 - np.array(pmaxs)) > 1e-9 * np.array(pmaxs)
        told = sum(1 for lv, m in recs if lv == "WARNING")
        due = int(np.sum((p0 > np.array(pmaxs)) & margin))
        if bool(np.all(margin)) and told != due:
            ck.fail_case({**sig, "clause": "extrapolation warning not given exactly for the components whose fictitious pressure exceeds the isotherm's pressure range"},
                         {**detail, "fictitious_pressures": p0.tolist(), "warnings_logged": told, "warnings_due": due})
        if i % 2 == 0 and np.min(r_q / np.sum(r_q)) > 1e-4:
            xs_ = dyadic_fractions(nc)
            o_q2, r_q2 = outcome(lambda: pgi.reverse_iast(isos, xs_, ptot, warningoff=True))
            (o_w2, r_w2), recs2 = logged(lambda: outcome(lambda: pgi.reverse_iast(isos, xs_, ptot, verbose=bool(i % 4 == 0))))
            if o_q2 != o_w2 or (o_q2 == "ok" and not (same(r_w2[0], r_q2[0], 1.0) and same(r_w2[1], r_q2[1], float(np.sum(r_q2[1]))))):
                ck.fail_case({**sig, "clause": "reverse_iast result depends on warningoff / verbose"}, {**detail, "adsorbed_fractions": xs_, "total_pressure": ptot})
            elif o_q2 == "ok":
                p0r = ptot * np.asarray(r_q2[0], dtype=float) / np.array(xs_)
                mr = np.abs(p0r - np.array(pmaxs)) > 1e-9 * np.array(pmaxs)
                told2, due2 = sum(1 for lv, m in recs2 if lv == "WARNING"), int(np.sum((p0r > np.array(pmaxs)) & mr))
                if bool(np.all(mr)) and told2 != due2:
                    ck.fail_case({**sig, "clause": "extrapolation warning not given exactly for the components whose fictitious pressure exceeds the isotherm's pressure range", "entry": "reverse_iast"},
                                 {**detail, "adsorbed_fractions": xs_, "total_pressure": ptot, "fictitious_pressures": p0r.tolist(), "warnings_logged": told2, "warnings_due": due2})

    # -------------------------------------------------------------------- documented refusals (error kinds)
    la, lb, lc = (model_iso("Langmuir", pars("Langmuir"), a) for a in ADS[:3])
    m_rel = get_isotherm_model("Langmuir", parameters={k: np.float64(v) for k, v in pars("Langmuir").items()}, pressure_range=(0.0, 1.0), loading_range=(0.0, 1e3))
    rel = pg.ModelIsotherm(model=m_rel, branch="ads", material="pgv-synth", adsorbate="CO2", temperature=300.0, pressure_mode="relative", loading_basis="molar", loading_unit="mmol",
                           material_basis="mass", material_unit="g", temperature_unit="K")
    pa, pb = rng.uniform(0.5, 5), rng.uniform(0.5, 5)
    must_refuse("iast_point: more partial pressures than isotherms", lambda: pgi.iast_point([la, lb], [pa, pb, 1.0]), ParameterError, {"partial_pressures": [pa, pb, 1.0]})
    must_refuse("iast_point: fewer partial pressures than isotherms", lambda: pgi.iast_point([la, lb, lc], [pa, pb]), ParameterError, {"partial_pressures": [pa, pb]})
    fr = model_iso("Freundlich", sample_params("Freundlich", rng), "C2H6")
    must_refuse("iast_point: model outside the IAST whitelist", lambda: pgi.iast_point([la, fr], [pa, pb]), ParameterError, {"model": "Freundlich"})
    must_refuse("reverse_iast: model outside the IAST whitelist", lambda: pgi.reverse_iast([fr, la], [0.5, 0.5], pa), ParameterError, {"model": "Freundlich"})
    must_refuse("iast_point: one isotherm", lambda: pgi.iast_point([la], [pa]), ParameterError, {})
    must_refuse("iast_point: relative pressure mode", lambda: pgi.iast_point([la, rel], [pa, 0.3]), ParameterError, {})
    must_refuse("iast_point_fraction: relative pressure mode", lambda: pgi.iast_point_fraction([rel, la], [0.5, 0.5], 1.0), ParameterError, {})
    must_refuse("reverse_iast: fractions do not sum to one", lambda: pgi.reverse_iast([la, lb], [0.25, 0.5], pa), ParameterError, {"adsorbed_fractions": [0.25, 0.5]})
    must_refuse("reverse_iast: wrong number of fractions", lambda: pgi.reverse_iast([la, lb], [0.25, 0.25, 0.5], pa), ParameterError, {})
    must_refuse("reverse_iast: one isotherm", lambda: pgi.reverse_iast([la], [1.0], pa), ParameterError, {})
    must_refuse("reverse_iast: relative pressure mode", lambda: pgi.reverse_iast([la, rel], [0.5, 0.5], 0.5), ParameterError, {})
    must_refuse("iast_binary_svp: three isotherms", lambda: pgi.iast_binary_svp([la, lb, lc], [0.5, 0.5], [pa]), ParameterError, {})
    must_refuse("iast_binary_svp: three fractions", lambda: pgi.iast_binary_svp([la, lb], [0.25, 0.25, 0.5], [pa]), ParameterError, {})
    must_refuse("iast_binary_svp: fractions do not sum to one", lambda: pgi.iast_binary_svp([la, lb], [0.25, 0.5], [pa]), ParameterError, {})
    must_refuse("iast_binary_svp: relative pressure mode", lambda: pgi.iast_binary_svp([la, rel], [0.5, 0.5], [0.5]), ParameterError, {})
    must_refuse("iast_binary_vle: three isotherms", lambda: pgi.iast_binary_vle([la, lb, lc], pa), ParameterError, {})
    must_refuse("iast_binary_vle: relative pressure mode", lambda: pgi.iast_binary_vle([la, rel], 0.5), ParameterError, {})
    for i in range(ck.n(3, 12)):
        # point isotherms: a component whose fictitious pressure must exceed the measured range (p_i itself above the last point) cannot be answered
        datas = [iastlib.point_data(rng, np) for _ in range(2)]
        isos = [iastlib.build_point(pg, np, d, a) for d, a in zip(datas, ADS)]
        j = rng.randrange(2)
        pp = [logu(rng, 0.5, 5), logu(rng, 0.5, 5)]
        pp[j] = float(datas[j]["ads"][0][-1]) * rng.uniform(1.05, 3)
        g = rng.uniform(0.2, 0.8)
        must_refuse("iast_point: partial pressure beyond the measured range of a point isotherm (user guess)", lambda: pgi.iast_point(isos, pp, adsorbed_mole_fraction_guess=[g, 1 - g], warningoff=True),
                    CalculationError, {"partial_pressures": pp, "last_measured_pressure": float(datas[j]["ads"][0][-1])})
        # With the DEFAULT guess the same input leaves iast_point as scipy's ValueError (the guess asks `loading_at(p_i)`, which refuses a pressure outside
        # the measured range with the error of interp1d).  C13 does not name an error kind ("whenever an IAST calculation returns ..."; C03: "refused outside
        # the measured range"): no result is handed out, so nothing is contradicted - any exception is a refusal here (item D3 of the triage, decided (a)).
        must_refuse("iast_point: partial pressure beyond the measured range of a point isotherm (default guess)", lambda: pgi.iast_point(isos, pp, warningoff=True), Exception,
                    {"partial_pressures": pp, "last_measured_pressure": float(datas[j]["ads"][0][-1])})
        # Below the LOWEST measured point (no measured origin) the point isotherm has a spreading pressure (Henry's law down to zero) but no loading:
        # the default guess is refused (ValueError of `loading_at`, as above - the reason why the mixtures of the other sections stay inside the measured
        # range of the branch they ask for); with a user guess a result is handed out whenever every fictitious pressure p_i / x_i is inside the
        # measured range, and it must be a solution for the raw data like any other.
        first = float(datas[j]["ads"][0][0])
        if first > 0:
            pl = [logu(rng, 0.5, 5), logu(rng, 0.5, 5)]
            pl[j] = first * rng.uniform(0.05, 0.9)
            dl = {"partial_pressures": pl, "first_measured_pressure": first, "data": data_detail(datas)}
            must_refuse("iast_point: partial pressure below the first measured point of a point isotherm (default guess)", lambda: pgi.iast_point(isos, pl, warningoff=True), Exception, dl)
            for gl in ([g, 1 - g], [0.02, 0.98] if j == 0 else [0.98, 0.02]):
                ck.count(("below-first", i, gl[0]), nontrivial=False, bucket="partial pressure below the first measured point (user guess)")
                try:
                    rl = np.asarray(pgi.iast_point(isos, pl, adsorbed_mole_fraction_guess=gl, warningoff=True), dtype=float)
                except Exception:  # noqa  (refused: pyGAPS error from the solver, or the error of `loading_at` for a fictitious pressure below the first point)
                    continue
                certificate_raw(datas, pl, rl, {"kind": "point:below-first-point", "components": 2, "entry": "iast_point(user guess)"}, {**dl, "guess": gl})

    # -------------------------------------------------------------------- refusals stated by the property's anchors
    for name in ["Freundlich", "DR", "Virial"]:
        try:
            par = sample_params(name, rng)
            m = model_iso(name, par, "N2") if name != "DR" else None
            if m is not None:
                pgi.iast_point([m, model_iso("Langmuir", pars("Langmuir"), "CO2")], [1.0, 1.0])
                ck.fail_case({"clause": "model outside the IAST whitelist accepted", "model": name}, {"params": par})
        except ParameterError:
            ck.count(("whitelist", name), nontrivial=False, bucket="whitelist refusal")
        except Exception as e:  # noqa
            ck.count(("whitelist-other", name), nontrivial=False, bucket="whitelist: " + type(e).__name__)

    # -------------------------------------------------------------------- correspondence
    n_dis = 0
    try:
        replies = ck.drive("Iast", lines) if lines else []
    except Exception as e:
        replies = None
        ck.broken.append({"step": "driver Iast", "what": str(e)[:600]})
    if replies is not None:
        for (what, data), rep, line in zip(plan, replies, lines):
            t = rep.split()
            ck.count(("corr", what), nontrivial=False, bucket="correspondence:" + what)
            if t[0] != "ok":
                ok = False
            elif what == "finish":
                x, tot, loads = data
                lm = [float(v) for v in parse_qlist(t[3])]
                # (the last fraction is 1 - sum of the others: compare on the scale of the total, a trace component carries the cancellation)
                ok = relerr(float(parse_q(t[2])), tot) < 1e-9 and all(abs(a - b) <= 1e-9 * tot for a, b in zip(lm, loads)) and t[4] == "true"
            elif what == "pp":
                ok = all(relerr(float(a), float(b)) < 1e-12 for a, b in zip(parse_qlist(t[1]), data))
            elif what.startswith("pcert"):
                # Lean: interpLin + exact fold over the raw data at ℚ (float logarithms as inputs)  vs  the float oracle of pgv.iastlib
                ok = len(t) == 3 and relerr(float(parse_q(t[1])), data[0]) < 1e-11 and relerr(float(parse_q(t[2])), data[1]) < 1e-10
            elif what == "resid":
                x, p0, sp, tot = data
                ok = (len(t) == 6 and all(relerr(float(a), float(b)) < 1e-12 for a, b in zip(parse_qlist(t[1]), x))
                      and all(relerr(float(a), float(b)) < 1e-12 for a, b in zip(parse_qlist(t[2]), p0))
                      and all(abs(float(d_)) <= 1e-6 * float(np.max(np.abs(sp))) for d_ in parse_qlist(t[3]))
                      and abs(float(parse_q(t[4]))) * tot <= 1e-9 and t[5] == "true")
            else:
                ok = relerr(float(parse_q(t[1])), data) < 1e-9
            if not ok:
                n_dis += 1
                if n_dis <= 3:
                    ck.broken.append({"step": f"correspondence Model/Iast.lean ({what})", "what": {"request": line[:300], "model": rep[:300], "implementation": str(data)[:300]}})
    ck.cov["correspondence_disagreements"] = n_dis
    ck.cov["worst"] = {k: float(f"{v:.3g}") for k, v in sorted(worst.items())}
    ck.cov["rule"] = ("2-4 component mixtures of IAST-capable model isotherms (8 models, BET excluded: pole) and of 500-point point isotherms, total pressure 0.05-20 bar, random gas fractions, default and user guesses, "
                      "random permutations; Henry and equal-capacity Langmuir mixtures against closed forms; reverse problem; fraction / selectivity / VLE helpers; "
                      "3-4 component mixtures from uniform / vertex / random / boundary (a zero fraction) starting guesses and reverse_iast on 2-4 component mixtures (adsorbed fractions k/16) from the default and far / boundary "
                      "gas-fraction guesses: every return certified (non-solution class above 1e-3 relative spread, 1e-6 otherwise); "
                      "hysteretic coarse point isotherms (desorption rows on the adsorption grid or on their own 4-30 point grid, stored downwards after the adsorption rows) x both branches x every entry point "
                      "(default / user guess, fraction helper, reverse problem and its inversion, selectivity and VLE helpers), each result certified from the raw rows of the requested branch "
                      "(Lean pointCertBranch at Q from the stored rows on the first cases per branch); partial pressures beyond the desorption range refused; model isotherms fitted on the desorption branch: "
                      "certified on 'des', every entry point refuses 'ads' with ParameterError; "
                      "coarse (8-40 point, regular / irregular / with origin / hysteretic) point isotherms and model isotherms (built on either branch) as OBJECTS WITH A QUERY HISTORY, called on either branch, (1-4 earlier loading_at / pressure_at / "
                      "spreading_pressure_at / accessor calls with 8 interpolation kinds, both branches, 4 fill values, other units; an earlier IAST run) against fresh objects and against the certificate "
                      "computed from the raw data (Lean pointCert at Q on the first cases); every entry point with integer-valued and quarter-valued numbers in 14 container / dtype variants "
                      "(ints, int arrays, lists, tuples, float32, 0-d arrays, mixed) against float64; verbose report; extrapolation warning; iast_binary_svp with pressures decreasing / shuffled / repeated row by row against the point calculation; reverse_iast with a requested trace fraction (1e-6 .. 5e-4) against closed forms, the equations at the requested fractions and forward(reverse), twice with the same argument objects; every IAST call leaves the caller's arrays / lists unchanged; 19 documented refusals; partial pressures above the last / below the first measured point of a point isotherm (refused with the default guess, certified when a user guess returns)")
    ck.assumptions += ["scipy.optimize.root(method='lm') is numerical: each returned result is certified against the IAST equations", "scipy.integrate.quad for the independent spreading pressure (1e-11)"]
