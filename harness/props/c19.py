"""C19 — enthalpy methods recover the enthalpy built into consistent synthetic data.

Lean: Props/C19.lean over Gen/CharR.lean (isosteric slope-to-enthalpy factor, the Whittaker brackets — regenerated from the source)
and Model/Linear.lean (least squares): Clausius-Clapeyron recovery for every affinity-scaled isotherm family and every set of
distinct temperatures, the Whittaker closed form.  Tie: translator validation of the generated formulas against the real functions,
regression correspondence (ℚ model vs isosteric_enthalpy_raw slopes).  Failing-input search: model and point isotherms generated
with a van 't Hoff affinity through isosteric_enthalpy / enthalpy_sorption_whittaker / initial_enthalpy_point.
"""
import math
from fractions import Fraction

from pgv.charlib import q, qlist, quiet_logging, tv_run


def parse_list(tok):
    inner = tok[1:-1]
    return inner.split(";") if inner else []

from pgv.core import import_pygaps
from pgv.models import logu, relerr

R = 6.02214076e23 * 1.380649e-23      # exact SI value (N_A k_B)
P_UNITS = {"Pa": 1.0, "kPa": 1e3, "bar": 1e5, "atm": 101325.0, "torr": 101325.0 / 760}
L_UNITS = {"mmol": 1e-3, "mol": 1.0, "kmol": 1e3}


def run(ck):
    pg = import_pygaps()
    import numpy as np
    import pygaps.characterisation as pgc
    from pygaps.characterisation import isosteric_enth as ie
    from pygaps.characterisation.enth_sorp_whittaker import enthalpy_sorption_whittaker
    from pygaps.characterisation.initial_enth import initial_enthalpy_point
    from pygaps.modelling import get_isotherm_model
    from pygaps.utilities.exceptions import CalculationError, ParameterError
    quiet_logging()
    np.seterr(all="ignore")
    rng = ck.rng
    thorough = ck.tier == "thorough"
    N = ck.n(40, 200)
    worst = {}

    def note(k, v):
        worst[k] = max(worst.get(k, 0.0), v)
        return v

    def model_iso(name, params, T, ads="N2", p_unit="Pa", l_unit="mmol", prange=(0.0, 1e7), lrange=(0.0, 1e3), t_unit="K"):
        model = get_isotherm_model(name, parameters={k: np.float64(v) for k, v in params.items()}, pressure_range=prange, loading_range=lrange)
        return pg.ModelIsotherm(model=model, branch="ads", material="pgv-synth", adsorbate=ads, temperature=(T if t_unit == "K" else T - 273.15),
                                pressure_mode="absolute", pressure_unit=p_unit, loading_basis="molar", loading_unit=l_unit,
                                material_basis="mass", material_unit="g", temperature_unit=t_unit)

    def gen_params(name, dH, T, K0, nm, pu, lu):
        """parameters of the family at temperature T, expressed for pressure unit pu and loading unit lu"""
        s = math.exp(dH * 1000 / (R * T)) * P_UNITS[pu]          # affinity in 1/unit
        nmu = nm * 1e-3 / L_UNITS[lu]                             # nm given in mmol
        if name == "Langmuir":
            return {"K": K0 * s, "n_m": nmu}
        if name == "Toth":
            return {"K": K0 * s, "n_m": nmu, "t": gen_params.t}
        return {"K1": K0 * s, "n_m1": nmu, "K2": K0 * s * gen_params.r2, "n_m2": nmu * gen_params.f2}

    # ------------------------------------------------------------------ 1. raw regression: correspondence + translator validation
    cases, lines, plan = [], [], []
    for i in range(N):
        k = rng.choice([2, 3, 4, 5])
        Ts = [rng.uniform(200, 400) for _ in range(k)]
        npts = rng.choice([1, 3, 6])
        press = [[logu(rng, 1, 1e6) for _ in range(k)] for _ in range(npts)]
        enth, slopes, corr, errs = ie.isosteric_enthalpy_raw(np.array(press), np.array(Ts))
        for row, sl, en in zip(press, slopes, enth):
            cases.append(("isosteric_enthalpy", {"slope": sl}, en))
            xs = [float(1 / np.float64(t)) for t in Ts]
            ys = [float(np.log(np.float64(p))) for p in row]
            lines.append(f"ols {qlist(xs)} {qlist(ys)}")
            plan.append((xs, ys, float(sl)))
        cases.append(("isosteric_inv_t", {"temperatures": Ts[0]}, 1 / np.float64(Ts[0])))
        ck.count(("raw", k, npts, i), bucket=f"raw regression:{k} temperatures")

    # ------------------------------------------------------------------ 2. isosteric: model isotherms (exact) and point isotherms (interpolation accuracy)
    for i in range(N):
        dH = rng.uniform(5, 60)
        k = rng.choice([2, 2, 3, 4, 5])
        Ts = [rng.uniform(200, 400) for _ in range(k)]
        while min(abs(a - b) for ai, a in enumerate(Ts) for b in Ts[ai + 1:]) < 3:
            Ts = [rng.uniform(200, 400) for _ in range(k)]
        name = rng.choice(["Langmuir", "Toth", "DSLangmuir"])
        gen_params.t, gen_params.r2, gen_params.f2 = rng.uniform(0.3, 1.0), logu(rng, 1e-3, 0.5), rng.uniform(0.2, 3)
        nm = rng.uniform(1, 10)                     # mmol/g
        # affinity such that K(T)*1Pa spans sensible values: K(T_mid) between 1e-7 and 1e-3 1/Pa
        Tm = sum(Ts) / k
        K0 = logu(rng, 1e-7, 1e-3) / math.exp(dH * 1000 / (R * Tm))
        pu, lu = rng.choice(list(P_UNITS)), rng.choice(list(L_UNITS))
        nm_total = nm * (1 + (gen_params.f2 if name == "DSLangmuir" else 0))
        loads_mmol = sorted(rng.uniform(0.02, 0.9) * nm_total for _ in range(rng.choice([1, 3, 8])))
        loads = [x * 1e-3 / L_UNITS[lu] for x in loads_mmol]
        kind = "model" if rng.random() < 0.65 else "point"
        sig = {"method": "isosteric", "generator": name, "kind": kind}
        ck.count(("iso", name, kind, k, pu, lu, i), bucket=f"isosteric:{name}:{kind}", sample={"dH": dH, "T": Ts, "model": name, "kind": kind, "pressure_unit": pu, "loading_unit": lu} if i % 25 == 0 else None)
        try:
            isos = [model_iso(name, gen_params(name, dH, T, K0, nm, pu, lu), T, p_unit=pu, l_unit=lu, t_unit=rng.choice(["K", "K", "°C"])) for T in Ts]
            scaled_grid = rng.random() < 0.3
            if kind == "point":
                pts = []
                for m_iso, T in zip(isos, Ts):
                    s = math.exp(dH * 1000 / (R * T)) * K0          # 1/Pa
                    jit = 1.0 if scaled_grid else rng.uniform(0.7, 1.4)
                    pgrid = np.concatenate([[0.0], np.geomspace(1e-4 / s * jit, 300 / s * jit, 400 if scaled_grid else rng.choice([300, 400, 600]))]) / P_UNITS[pu]
                    pts.append(pg.PointIsotherm.from_modelisotherm(m_iso, pressure_points=pgrid))
                isos = pts
                # loadings must lie inside every isotherm's measured range
                top = min(float(np.max(x.loading())) for x in isos)
                loads = [x for x in loads if x < 0.98 * top] or [0.5 * top]
            res = pgc.isosteric_enthalpy(isos, loading_points=loads)
        except (CalculationError, ParameterError) as e:
            ck.fail_case({**sig, "clause": "isosteric analysis refused consistent data"}, {"dH": dH, "T": Ts, "units": [pu, lu], "error": str(e)[:200]})
            continue
        except Exception as e:  # noqa
            ck.fail_case({**sig, "clause": "isosteric analysis raises a non-pyGAPS error", "error": type(e).__name__}, {"dH": dH, "T": Ts, "units": [pu, lu], "error": repr(e)[:300]})
            continue
        got = [float(x) for x in res["isosteric_enthalpy"]]
        # own-grid point isotherms: ln p carries the linear-interpolation error (~5e-4 on these grids), the slope divides it by the total
        # change of ln p over the temperature set
        spread = dH * 1000 / R * (max(1 / t_ for t_ in Ts) - min(1 / t_ for t_ in Ts))
        tol = 1e-9 if kind == "model" and name != "Toth" else (1e-6 if kind == "model" else (1e-6 if scaled_grid else 1e-3 * (1 + 1 / spread)))
        e = max(relerr(g, dH) for g in got)
        note(f"isosteric:{name}:{kind}" + ("" if kind == "model" else (":scaled grid" if scaled_grid else ":own grid")), e)
        if not (e <= tol):
            ck.fail_case({**sig, "clause": "isosteric enthalpy differs from the enthalpy of the van 't Hoff generator"},
                         {"dH": dH, "T": Ts, "params": {"K0": K0, "n_m_mmol": nm, "t": gen_params.t, "r2": gen_params.r2, "f2": gen_params.f2}, "units": [pu, lu], "loadings": loads, "got": got, "rel_error": e})

    # ------------------------------------------------------------------ 3. Whittaker closed form
    wl_lines, wl_plan = [], []
    from pygaps.core.adsorbate import Adsorbate
    for i in range(N):
        ads_name, T = rng.choice([("N2", 77.355), ("N2", 100.0), ("Ar", 87.3), ("CO2", 273.15), ("CO2", 298.15), ("CH4", 150.0)])
        ads = Adsorbate.find(ads_name)
        name = rng.choice(["Langmuir", "Toth"])
        t = 1.0 if name == "Langmuir" else rng.uniform(0.3, 1.5)
        p_c, p_t, p_sat = ads.p_critical(), ads.p_triple(), ads.saturation_pressure(temp=T)
        nm = rng.uniform(1, 10)
        K = logu(rng, 0.05, 50) / p_sat          # 1/Pa: saturation of the monolayer around a fraction of p_sat
        params = {"K": K, "n_m": nm} if name == "Langmuir" else {"K": K, "n_m": nm, "t": t}
        loads = sorted(rng.uniform(0.01, 0.995) * nm for _ in range(rng.choice([1, 4, 10])))
        if rng.random() < 0.5:
            # any order, and loadings so close to saturation that their pressure exceeds p_sat anywhere in the list
            loads = loads + [nm * (1 - 10 ** -rng.uniform(3, 9)) for _ in range(rng.randint(1, 2))]
            rng.shuffle(loads)

        def p_of(n):
            if name == "Langmuir":
                return n / (K * (nm - n))
            return n / (K * (nm ** t - n ** t) ** (1 / t))
        ck.count(("whit", ads_name, T, name, i), bucket=f"whittaker:{name}:{ads_name}", sample={"adsorbate": ads_name, "T": T, "model": name, "params": params} if i % 25 == 0 else None)
        sig = {"method": "whittaker", "model": name}
        try:
            m_iso = model_iso(name, params, T, ads=ads_name, lrange=(0.0, nm))
            res = enthalpy_sorption_whittaker(m_iso, model=name, loading=np.array(loads))
        except Exception as e:  # noqa
            ck.fail_case({**sig, "clause": "Whittaker raises", "error": type(e).__name__}, {"adsorbate": ads_name, "T": T, "params": params, "error": repr(e)[:300]})
            continue
        keep, expect = [], []
        for n in loads:
            p = p_of(n)
            if not (0 <= p <= min(p_c, p_sat)):
                continue
            h_vap = ads.enthalpy_vaporisation(press=max(p, p_t)) * 1000
            th = (n / nm) ** t
            lam = R * T * math.log(p_sat * K * (th / (1 - th)) ** ((t - 1) / t))
            keep.append(n)
            expect.append((lam + h_vap + R * T) / 1000)
            # generated brackets on the same numbers (translator validation of the pieces, chained as the code chains them)
            b = 1 / (np.float64(K) ** np.float64(t))
            fb = np.float64(p_sat) / (b ** (1 / np.float64(t)))
            cases.append(("whit_b", {"K": K, "t": t}, b))
            cases.append(("whit_first_bracket", {"p_sat": p_sat, "b": b, "t": t}, fb))
            sb = (np.float64(th) / (1 - np.float64(th))) ** ((np.float64(t) - 1) / np.float64(t))
            cases.append(("whit_second_bracket", {"theta_t": th, "t": t}, sb))
        got_l, got_h = [float(x) for x in res["loading"]], [float(x) for x in res["enthalpy_sorption"]]
        # correspondence of the loop (Model/Enthalpy.lean): the pressures the code itself reads (`pressure_at(n, 'Pa')`), zero loadings and
        # loadings beyond the capacity (NaN pressure) included; the model predicts which loadings are reported, exactly
        loop_ns = list(loads)
        if rng.random() < 0.5:
            loop_ns = loop_ns + [0.0, nm * rng.uniform(1.001, 1.5)]
            rng.shuffle(loop_ns)
        try:
            res2 = res if loop_ns == list(loads) else enthalpy_sorption_whittaker(m_iso, model=name, loading=np.array(loop_ns))
            pres = []
            for n in loop_ns:
                pv = float(m_iso.pressure_at(n, pressure_unit="Pa")) if n != 0 else 0.0
                pres.append(None if math.isnan(pv) else pv)
            if all(pv is None or abs(pv - min(p_c, p_sat)) > 1e-9 * min(p_c, p_sat) for pv in pres):
                wl_lines.append(f"whit {q(p_c)} {q(p_t)} {q(p_sat)} {qlist(loop_ns)} [" + ";".join("~" if pv is None else q(pv) for pv in pres) + "]")
                wl_plan.append(([float(x) for x in res2["loading"]], {"adsorbate": ads_name, "T": T, "params": params, "loadings": loop_ns, "pressures": pres}))
        except Exception as e:  # noqa
            ck.fail_case({**sig, "clause": "Whittaker raises", "error": type(e).__name__}, {"adsorbate": ads_name, "T": T, "params": params, "loadings": loop_ns, "error": repr(e)[:300]})
        # loadings whose pressure is within 1e-9 of a bound may legitimately fall on either side
        edge = [n for n in loads if abs(p_of(n) - min(p_c, p_sat)) <= 1e-9 * min(p_c, p_sat)]
        if [x for x in got_l if x not in edge] != [x for x in keep if x not in edge]:
            ck.fail_case({**sig, "clause": "Whittaker omits or keeps the wrong loadings"}, {"adsorbate": ads_name, "T": T, "params": params, "kept": got_l, "expected": keep, "p_sat": p_sat, "p_c": p_c})
            continue
        if got_l == keep and keep:
            e = max(relerr(a, b) for a, b in zip(got_h, expect))
            note(f"whittaker:{name}", e)
            if e > (1e-9 if name == "Langmuir" else 1e-6):
                ck.fail_case({**sig, "clause": "Whittaker enthalpy differs from the closed form lambda + dH_vap + RT"},
                             {"adsorbate": ads_name, "T": T, "params": params, "loadings": keep, "got": got_h, "expected": expect, "rel_error": e})
            for n, h in zip(keep, got_h):
                if i % 4 == 0:
                    cases.append(("whit_RT", {"T": T}, R * T))
                    cases.append(("whit_out", {"h_st": h * 1000}, h))

    # ------------------------------------------------------------------ 4. initial enthalpy: first measured enthalpy of the chosen branch
    for i in range(max(10, N // 3)):
        n_a, n_d = rng.randint(2, 12), rng.choice([0, 0, 3, 7])
        ps = sorted(rng.uniform(0.01, 10) for _ in range(n_a))
        pd_ = sorted((rng.uniform(0.01, ps[-1]) for _ in range(n_d)), reverse=True)
        ent = [rng.uniform(5, 60) for _ in range(n_a + n_d)]
        import pandas as pd
        df = pd.DataFrame({"pressure": ps + pd_, "loading": [rng.uniform(0, 5) for _ in range(n_a + n_d)], "enthalpy": ent})
        if rng.random() < 0.4:
            df.index = range(7, 7 + len(df))
        iso = pg.PointIsotherm(isotherm_data=df, pressure_key="pressure", loading_key="loading", branch=[0] * n_a + [1] * n_d, material="pgv-synth", adsorbate="N2",
                               temperature=77.355, pressure_mode="absolute", pressure_unit="bar", loading_basis="molar", loading_unit="mmol",
                               material_basis="mass", material_unit="g", temperature_unit="K")
        for br, want in (("ads", ent[0]), ("des", ent[n_a] if n_d else None)):
            if want is None:
                continue
            ck.count(("init", n_a, n_d, br, i), bucket="initial enthalpy point:" + br)
            try:
                got = float(initial_enthalpy_point(iso, "enthalpy", branch=br)["initial_enthalpy"])
            except Exception as e:  # noqa
                ck.fail_case({"method": "initial_enthalpy_point", "clause": "raises", "branch": br, "error": type(e).__name__}, {"n_ads": n_a, "n_des": n_d, "error": repr(e)[:200]})
                continue
            if got != want:
                ck.fail_case({"method": "initial_enthalpy_point", "clause": "not the first measured enthalpy of the branch", "branch": br}, {"n_ads": n_a, "n_des": n_d, "got": got, "expected": want})
            wl_lines.append(f"init {br} [" + ";".join(["0"] * n_a + ["1"] * n_d) + f"] {qlist(ent)}")
            wl_plan.append((got, {"branch": br, "n_ads": n_a, "n_des": n_d}))

    # ------------------------------------------------------------------ replies
    tv_run(ck, cases, tol=1e-11)
    n_dis = 0
    try:
        replies = ck.drive("Char", lines) if lines else []
    except Exception as e:
        replies = None
        ck.broken.append({"step": "driver Char", "what": str(e)[:600]})
    if replies is not None:
        for (xs, ys, sl), rep, line in zip(plan, replies, lines):
            t = rep.split()
            ck.count(("corr", "ols"), nontrivial=False, bucket="correspondence:ols")
            ok = False
            if t[0] == "ok":
                n_, d_ = t[1].split("/")
                ok = relerr(float(Fraction(int(n_), int(d_))), sl) <= 1e-7 or abs(float(Fraction(int(n_), int(d_))) - sl) < 1e-6
            if not ok:
                n_dis += 1
                if n_dis <= 3:
                    ck.broken.append({"step": "correspondence Model/Linear.lean (ols vs isosteric_enthalpy_raw)", "what": {"request": line[:300], "model": rep[:200], "implementation": sl}})
    # Model/Enthalpy.lean: the Whittaker loop and the initial point, exact
    try:
        wrep = ck.drive("Enthalpy", wl_lines) if wl_lines else []
    except Exception as e:
        wrep = None
        ck.broken.append({"step": "driver Enthalpy", "what": str(e)[:600]})
    if wrep is not None:
        for (impl, info), rep, line in zip(wl_plan, wrep, wl_lines):
            t = rep.split()
            kind = line.split()[0]
            ck.count(("corr", kind), nontrivial=False, bucket="correspondence:" + ("whittaker loop" if kind == "whit" else "initial point"))
            if kind == "whit":
                ok = t[0] == "ok" and [float(Fraction(x)) for x in parse_list(t[1])] == impl
            else:
                ok = t[0] == "ok" and float(Fraction(t[1])) == impl
            if not ok:
                n_dis += 1
                if n_dis <= 3:
                    ck.broken.append({"step": f"correspondence Model/Enthalpy.lean ({kind})", "what": {"request": line[:400], "model": rep[:300], "implementation": impl, "case": info}})
    ck.cov["correspondence_disagreements"] = n_dis
    ck.cov["worst_relative_errors"] = {k: float(f"{v:.3g}") for k, v in sorted(worst.items())}
    ck.cov["rule"] = ("dH 5-60 kJ/mol, 2-5 distinct temperatures in 200-400 K in random order, Langmuir / Toth / dual-site Langmuir generators with van 't Hoff affinity as model isotherms (exact) and as 400-point "
                      "point isotherms (2 %), pressure units Pa/kPa/bar/atm/torr x loading units mmol/mol/kmol x K/°C, 1-8 loadings inside the common range; Whittaker: Langmuir/Toth parameters, N2/Ar/CO2/CH4 below the "
                      "critical point, loadings up to 99.5 % of the capacity; initial enthalpy: 2-12 adsorption and 0-7 desorption points, shifted indices")
    ck.assumptions += ["scipy.stats.linregress is ordinary least squares (compared with the exact ℚ model)", "CoolProp saturation / critical / triple pressures and vaporisation enthalpy are inputs",
                       "point isotherms: interp1d linear interpolation accuracy (2 %)"]
