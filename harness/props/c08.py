"""C08 — the SQLite store behaves as a keyed collection over any operation history.

Lean: Props/C08.lean (the statement-level store model refines a dictionary; refused operations change nothing; the
committed state is a function of the target file only).  Tie: correspondence of Model/Store.lean with the real
parsing.sqlite functions over seeded operation histories on 1-3 freshly created database files: after every call
the outcome class and ALL raw tables (read through an independent connection) are compared with the model.
Failing-input search (independent of the model): dictionary rules for acceptance/refusal computed from the raw
tables before the call, "refused => tables unchanged", "uploaded => retrievable with equal content", "deleted =>
exactly that item gone", and outcome independence from other files / earlier uploads (replay on a fresh process state).
"Equal content" is judged on the NUMBERS, not only on the identifier (which is computed from rounded data): half of the point
isotherms carry full-precision doubles (`precise_value`: 15-17 digits, tiny and large magnitudes, values next to a rounding boundary
of the 6th..12th decimal), and every data column / the model dictionary / float metadata / the temperature of the retrieved isotherm
is compared exactly with the stored one (`_content_diff`), in the histories and in a dedicated round trip (`_roundtrip`: upload,
retrieve, compare, `retrieved == stored`, delete through the retrieved object, store empty).
"""
import copy
import sqlite3

from pgv import storelib as sl
from pgv.core import err_class, import_pygaps
from pgv.models import make, sample_params

WORDS = ["alpha", "beta", "zeolite", "carbon", "MOF-5", "batchA", "x.y", "note_1"]


HASH_DECIMALS = [8, 8, 8, 8, 6, 7, 9, 10, 11, 12]


def precise_value(rng, lo, hi, tiny=True):
    """A finite double of the kind measured / computed data consist of, drawn from the regions where a lossy storage format shows:
    all 15-17 significant digits; tiny magnitudes (absolute pressures in bar at high vacuum); a value next to a rounding boundary of
    the k-th decimal (k = 6..12: on either side, 10^-0.5 .. 10^-4.5 units of that decimal away - the identifier of an isotherm is
    computed from rounded data, so a store that cuts digits moves such a value across the boundary and the retrieved isotherm is
    no longer the key of what was stored); large magnitudes with all digits."""
    r = rng.random()
    if r < 0.35:
        return rng.uniform(lo, hi)
    if r < 0.5 and tiny:
        return 10 ** rng.uniform(-13, -5)
    if r < 0.85:
        k = rng.choice(HASH_DECIMALS)
        base = rng.randint(int(lo * 10 ** k) + 1, max(int(lo * 10 ** k) + 2, int(hi * 10 ** k) - 1))
        return (base + 0.5 + rng.choice([-1, 1]) * 10 ** -rng.uniform(0.5, 4.5)) / 10 ** k
    return rng.uniform(lo, hi) * 10 ** rng.randint(2, 7)


def rand_props(rng, keys, allow_none=False):
    props = {}
    for k in rng.sample(keys, rng.randint(0, min(4, len(keys)))):
        r = rng.random()
        if r < 0.1:
            props[k] = precise_value(rng, 0.1, 500)     # a number with all its digits (the store must hand it back as it was)
        elif r < 0.35:
            props[k] = round(rng.uniform(0.1, 500), 3)
        elif r < 0.5:
            props[k] = rng.randint(1, 50)
        elif r < 0.85:
            props[k] = rng.choice(WORDS)
        elif r < 0.95:
            props[k] = [rng.choice(WORDS), rng.choice(WORDS) + "2"]
        elif allow_none:
            props[k] = None
        else:
            props[k] = 1.5
    return props


def make_isotherm(pg, rng, mat, ads, kind):
    meta = {"project": rng.choice(WORDS), "n_runs": rng.randint(1, 9), "flag": rng.random() < 0.5, "user": rng.choice(WORDS), "t_act": round(rng.uniform(300, 500), 1)}
    meta = {k: v for k, v in meta.items() if rng.random() < 0.7}
    if rng.random() < 0.08:
        meta["weird"] = {"a": 1}
    if rng.random() < 0.06:
        meta["nothing"] = None
    if "t_act" in meta and rng.random() < 0.3:
        meta["t_act"] = precise_value(rng, 300, 500)
    common = dict(material=mat, adsorbate=ads, temperature=round(rng.uniform(70, 400), 2) if rng.random() < 0.7 else precise_value(rng, 70, 400, tiny=False), **meta)
    if kind == "base":
        from pygaps.core.baseisotherm import BaseIsotherm
        return BaseIsotherm(**common)
    if kind == "point":
        import pandas as pd
        n = rng.randint(2, 7)
        # half of the point isotherms carry data as instruments / computations give them (every digit of the double, tiny and
        # large magnitudes, values next to a rounding boundary), the other half short decimals
        precise = rng.random() < 0.5
        val = (lambda lo, hi: precise_value(rng, lo, hi)) if precise else (lambda lo, hi: round(rng.uniform(lo, hi), 4))
        rnd = (lambda x: x) if precise else (lambda x: round(x, 4))
        ps = sorted(set(val(0.01, 1) for _ in range(n)))
        while len(ps) < 2:
            ps = sorted(set(ps + [val(0.01, 1)]))
        ls = [val(0, 5) for _ in ps]
        r = rng.random()
        branch = "guess"
        if r < 0.3:                      # adsorption + desorption, natural order
            ps = ps + [rnd(p * 0.9) for p in reversed(ps[:-1])]
            ls = ls + [rnd(l * 1.1) for l in reversed(ls[:-1])]
        elif r < 0.45:                   # user-assigned marks that differ from what guessing would give
            ps = ps + [rnd(ps[-1] * 0.5)]
            ls = ls + [rnd(ls[-1] * 1.05)]
            branch = [0] * len(ps)
        cols = {"pressure": ps, "loading": ls, "enth": [val(1, 9) if precise else round(rng.uniform(1, 9), 2) for _ in ps]}
        # (a whole-number supplementary column is outside the storable domain: find_SQL_python_type refuses numpy.int64 with a ParsingError)
        df = pd.DataFrame(cols)
        return pg.PointIsotherm(isotherm_data=df, pressure_key="pressure", loading_key="loading", branch=branch, **common)
    name = rng.choice(["Henry", "Langmuir"])
    return pg.ModelIsotherm(model=make(pg, name, sample_params(name, rng)), **common)


# option defaults as DOCUMENTED in the docstrings of the entry points (not read from the signatures: a changed default must show)
DOCUMENTED_DEFAULTS = {"autoinsert_material": True, "autoinsert_adsorbate": True, "autoinsert_properties": True, "overwrite": False}


class Routes:
    """Every public way to reach an entry point of the store.  The property is about the operations (`isotherm.to_db`, `*_to_db`,
    `*_delete_db`, `*_from_db`), not about one spelling of them: each call of a history is routed at random through
      * the function in pygaps.parsing.sqlite, its re-export in pygaps.parsing, a re-export at top level (whichever exist), or
      * the convenience METHOD of the operand object (`<object>.to_db(...)`, `<object>.delete_db(...)`: whichever the object's class
        offers - discovered with getattr, so methods added to Material / Adsorbate later are routed through as well),
    and an option whose value is the documented default is left out at random (the defaults of every route are then exercised).
    The model line and the oracles are the same for every route; the route is part of the failing input."""

    def __init__(self, ck, pg, pgsql):
        import pygaps.parsing as pkg
        self.ck, self.rng = ck, ck.rng
        self.spaces = [("pygaps.parsing.sqlite", pgsql), ("pygaps.parsing", pkg), ("pygaps", pg)]
        self.last = None

    def routes(self, fname, operand):
        fns, meths = [], []
        for label, ns in self.spaces:
            f = getattr(ns, fname, None)
            if callable(f):
                fns.append((f"{label}.{fname}", f))
        noun, _, verb = fname.partition("_")
        if operand and verb in ("to_db", "delete_db") and not isinstance(operand[0], (str, bytes, dict, list, tuple, int, float, type(None))):
            m = getattr(operand[0], verb, None)
            if callable(m):
                meths.append((f"{type(operand[0]).__name__}.{verb}", m))
        return fns, meths

    def call(self, fname, path, *operand, **opts):
        """Call entry point `fname` on the database file `path` (operand: the item / name / type dictionary, if the entry point takes one)."""
        rng = self.rng
        fns, meths = self.routes(fname, operand)
        kw = {"db_path": path, "verbose": False}
        omitted = []
        for k, v in opts.items():
            if k in DOCUMENTED_DEFAULTS and v == DOCUMENTED_DEFAULTS[k] and rng.random() < 0.4:
                omitted.append(k)
            else:
                kw[k] = v
        if meths and rng.random() < 0.5:
            label, f = rng.choice(meths)
            args = ()
        else:
            label, f = rng.choice(fns)
            args = operand
        self.last = label + (" defaults:" + ",".join(omitted) if omitted else "")
        tally = self.ck.cov.setdefault("route_distribution", {})             # calls per route (not counted as cases)
        key = label.rsplit(".", 1)[0] + (".<method>" if not args and operand else ".<function>") + (" with an option left at its default" if omitted else "")
        tally[key] = tally.get(key, 0) + 1
        return f(*args, **kw)


def expected_refusal(kind, a, T):
    """Dictionary semantics: must this call be refused, given the raw tables T before the call?  (independent of the Lean model)"""
    if kind == "adsToDb" or kind == "matToDb":
        names = T["ads"] if kind == "adsToDb" else T["mats"]
        types = [t[0] for t in (T["adsTypes"] if kind == "adsToDb" else T["matTypes"])]
        name, props, autoins, overwrite = a
        if overwrite and name not in names:
            return "overwrite of an absent item"
        if not overwrite and name in names:
            return "duplicate"
        for k, v in props.items():
            vs = v if isinstance(v, (list, tuple)) else [v]
            if any(x is None for x in vs):
                return "null value"
            if not autoins and k not in types:
                return "unknown property type"
        return None
    if kind in ("adsDelete", "matDelete"):
        names = T["ads"] if kind == "adsDelete" else T["mats"]
        col = 3 if kind == "adsDelete" else 2
        if a[0] not in names:
            return "delete of an absent item"
        if any(r[col] == a[0] for r in T["isos"]):
            return "still referenced"
        return None
    if kind == "typeToDb":
        table, t, u, d, overwrite = a
        types = [r[0] for r in T[{"adsorbate": "adsTypes", "material": "matTypes", "isotherm": "isoTypes"}[table]]]
        if t is None and not overwrite:
            return "null type"
        if not overwrite and t in types:
            return "duplicate"
        return None
    if kind == "typeDelete":
        table, t = a
        key = {"adsorbate": "adsTypes", "material": "matTypes", "isotherm": "isoTypes"}[table]
        if t not in [r[0] for r in T[key]]:
            return "delete of an absent item"
        used = {"adsorbate": [r[1] for r in T["adsProps"]], "material": [r[1] for r in T["matProps"]], "isotherm": [r[1] for r in T["isos"]]}[table]
        return "still referenced" if t in used else None
    if kind == "isoPropType":
        # dictionary semantics of a property-type collection that is empty (nothing can ever be stored in it, see S39)
        return {"to_db": None, "from_db": None, "to_db_overwrite": "overwrite of an absent item", "delete": "delete of an absent item"}[a[0]]
    if kind == "isoDelete":
        return None if a[0] in [r[0] for r in T["isos"]] else "delete of an absent item"
    if kind == "isoToDb":
        desc, am, aa = a
        if desc["id"] in [r[0] for r in T["isos"]]:
            return "duplicate"
        if desc["cls"] not in [r[0] for r in T["isoTypes"]]:
            return "unknown isotherm type"
        if desc["material"] not in T["mats"] and not am:
            return "unknown material"
        if desc["adsorbate"] not in T["ads"] and not aa:
            return "unknown adsorbate"
        if any(p.endswith("=~") or p.endswith("=!") for p in desc["props"]):
            return "value the store cannot hold"
        return None
    return None


def run(ck):
    pg = import_pygaps()
    import pygaps.parsing.sqlite as pgsql
    from pygaps.core.baseisotherm import BaseIsotherm
    rng = ck.rng
    thorough = ck.tier == "thorough"
    files = sl.Files(pg)
    try:
        saved = (list(pg.ADSORBATE_LIST), list(pg.MATERIAL_LIST))
        try:
            _schema_tie(ck, pg, pgsql, files)
        finally:                                      # db_create and the traced calls append to the process-global lists
            pg.ADSORBATE_LIST[:], pg.MATERIAL_LIST[:] = saved
        _run(ck, pg, pgsql, BaseIsotherm, rng, thorough, files)
        _bulk(ck, pg, pgsql, rng, thorough, files)
        _roundtrip(ck, pg, pgsql, rng, files)
    finally:
        files.close()


def _schema_tie(ck, pg, pgsql, files):
    """Validation of the generator `Schema` (Gen/Schema.lean, the data the theorems of Props/C08/Schema.lean are about):
    (1) the generated schema, echoed back by the Lean driver Drv/Schema.lean, equals what PRAGMA table_xinfo / foreign_key_list /
        index_list / index_info report on a database file created by the real `db_create` of the tree under check;
    (2) the empty databases this harness works on (the pragmas alone, see storelib.Files) have that same schema;
    (3) the statements the public entry points actually hand to SQLite address only the tables the generator extracted from the AST
        (`opTables`), and every connection starts with the generated connection pragmas and issues no other PRAGMA.
    A difference is a broken tie (reported without a failing input unless the histories below find one)."""
    info = ck.gen_info.get("Schema")
    if info is None:
        ck.notes.append("schema tie: Gen/Schema.lean was not regenerated in this run; generator validation skipped")
        return
    import pygaps.utilities.sqlite_db_creator as creator
    summary = {}
    created = files.dir / "created.db"
    try:
        creator.db_create(str(created))
        real = sl.schema_lines(created)
        summary["db_create"] = "ok"
    except Exception as e:  # noqa
        ck.broken.append({"step": "schema tie: db_create of the tree under check", "what": repr(e)[:400]})
        real = None
    tmpl = sl.schema_lines(files.template)
    if real is not None and (real["tables"] != tmpl["tables"] or real["other"] != tmpl["other"]):
        ck.broken.append({"step": "schema tie: harness databases", "what": {"clause": "the empty databases of the harness (pragmas alone) have the schema db_create produces",
                                                                          "difference": _first_diff(tmpl["tables"], real["tables"])}})
    real = real or tmpl
    n = len(info["schema"]["tables"])
    try:
        rep = ck.drive("Schema", ["tables"] + [f"table {i}" for i in range(n + 1)] + ["other", "pragmas", "ops", "opsdirect"])
    except Exception as e:  # noqa
        ck.broken.append({"step": "driver Schema", "what": str(e)[:600]})
        return
    lean_tables, lean_other, lean_pragmas = rep[1:n + 1], rep[n + 2], [x for x in rep[n + 3].split("\t") if x]
    if rep[0] != str(n) or rep[n + 1] != "none":
        ck.broken.append({"step": "schema tie: generator", "what": f"Gen/Schema.lean has {rep[0]} tables, the generator reported {n}"})
    for i in range(max(len(lean_tables), len(real["tables"]))):
        a = lean_tables[i] if i < len(lean_tables) else "<no such table in Gen/Schema.lean>"
        b = real["tables"][i] if i < len(real["tables"]) else "<no such table in the database file>"
        ck.count(("schema-table", b.split("\t")[0]), bucket="schema tie: table of the real database = generated table")
        if a != b:
            ck.broken.append({"step": "schema tie: Gen/Schema.lean vs the database created by db_create",
                              "what": {"generated": a.replace("\t", " ")[:500], "database": b.replace("\t", " ")[:500]}})
    ck.count(("schema-other",), bucket="schema tie: table of the real database = generated table")
    if lean_other != real["other"]:
        ck.broken.append({"step": "schema tie: other schema objects", "what": {"generated": lean_other, "database": real["other"]}})
    summary["tables_compared"] = real["names"]

    # ---- (3) the statements really issued
    ops = {}
    for item in rep[n + 4].split("\t"):
        fn, _, tabs = item.partition("=")
        ops[fn] = set(t for t in tabs.split(",") if t)
    path = files.new()
    iso_holder = {}

    def up_iso():
        pg.Material("pgv-tie-mat", tie_prop=2.5, store=True)            # found by name (adsorbates / materials are passed by name)
        pg.Adsorbate("pgv-tie-gas", tie_prop=1.5, store=True)
        iso_holder["iso"] = pg.PointIsotherm(pressure=[0.1, 0.2, 0.3], loading=[1.0, 2.0, 3.0], material="pgv-tie-mat", adsorbate="pgv-tie-gas",
                                             temperature=300.0, note="tie")
        pgsql.isotherm_to_db(iso_holder["iso"], db_path=path, verbose=False)

    def up_iso_method():                                                 # the same entry point reached through the object's method
        iso = pg.PointIsotherm(pressure=[0.1, 0.2, 0.4], loading=[1.0, 2.0, 3.5], material="pgv-tie-mat2", adsorbate="pgv-tie-gas2", temperature=301.0, note="tie2")
        iso.to_db(db_path=path, verbose=False)
    kw = dict(db_path=path, verbose=False)
    script = [
        ("isotherm_type_to_db", lambda: pgsql.isotherm_type_to_db({"type": "pointisotherm"}, **kw)),
        ("isotherm_type_to_db", lambda: pgsql.isotherm_type_to_db({"type": "pointisotherm", "description": "d"}, overwrite=True, **kw)),
        ("isotherm_types_from_db", lambda: pgsql.isotherm_types_from_db(**kw)),
        ("adsorbate_property_type_to_db", lambda: pgsql.adsorbate_property_type_to_db({"type": "tie_t", "unit": "u"}, **kw)),
        ("adsorbate_property_type_to_db", lambda: pgsql.adsorbate_property_type_to_db({"type": "tie_t", "unit": "v"}, overwrite=True, **kw)),
        ("adsorbate_property_types_from_db", lambda: pgsql.adsorbate_property_types_from_db(**kw)),
        ("material_property_type_to_db", lambda: pgsql.material_property_type_to_db({"type": "tie_t", "unit": "u"}, **kw)),
        ("material_property_type_to_db", lambda: pgsql.material_property_type_to_db({"type": "tie_t", "unit": "v"}, overwrite=True, **kw)),
        ("material_property_types_from_db", lambda: pgsql.material_property_types_from_db(**kw)),
        ("adsorbate_to_db", lambda: pgsql.adsorbate_to_db(pg.Adsorbate("pgv-tie-a", tie_t=1.0, tie_new=2.0), **kw)),
        ("adsorbate_to_db", lambda: pgsql.adsorbate_to_db(pg.Adsorbate("pgv-tie-a", tie_t=3.0), overwrite=True, **kw)),
        ("adsorbates_from_db", lambda: pgsql.adsorbates_from_db(**kw)),
        ("material_to_db", lambda: pgsql.material_to_db(pg.Material("pgv-tie-m", tie_t=1.0, tie_new=2.0), **kw)),
        ("material_to_db", lambda: pgsql.material_to_db(pg.Material("pgv-tie-m", tie_t=3.0), overwrite=True, **kw)),
        ("materials_from_db", lambda: pgsql.materials_from_db(**kw)),
        ("isotherm_to_db", up_iso),
        ("isotherm_to_db", up_iso_method),
        ("isotherms_from_db", lambda: pgsql.isotherms_from_db(**kw)),
        ("isotherms_from_db", lambda: pgsql.isotherms_from_db(criteria={"material": "pgv-tie-mat"}, **kw)),
        ("isotherm_delete_db", lambda: pgsql.isotherm_delete_db(iso_holder["iso"].iso_id, **kw)),
        ("adsorbate_delete_db", lambda: pgsql.adsorbate_delete_db("pgv-tie-a", **kw)),
        ("material_delete_db", lambda: pgsql.material_delete_db("pgv-tie-m", **kw)),
        ("adsorbate_property_type_delete_db", lambda: pgsql.adsorbate_property_type_delete_db("tie_new", **kw)),
        ("material_property_type_delete_db", lambda: pgsql.material_property_type_delete_db("tie_new", **kw)),
        ("isotherm_type_delete_db", lambda: pgsql.isotherm_type_delete_db("pointisotherm", **kw)),
        ("isotherm_property_type_to_db", lambda: pgsql.isotherm_property_type_to_db({"type": "tie_t"}, **kw)),
        ("isotherm_property_types_from_db", lambda: pgsql.isotherm_property_types_from_db(**kw)),
        ("isotherm_property_type_delete_db", lambda: pgsql.isotherm_property_type_delete_db("tie_t", **kw)),
    ]
    seen = {}
    for fn, thunk in script:
        log = []
        sl.with_fault(pgsql, sl.Plan(log=log), thunk)       # the outcome is judged by the histories below; here only the statements matter
        ck.count(("schema-ops", fn, len(log)), nontrivial=bool(log), bucket="schema tie: statements of an entry point address the generated tables")
        norm = [" ".join(q.lower().split()) for q in log]
        if norm[:len(lean_pragmas)] != lean_pragmas or any(q.startswith("pragma") for q in norm[len(lean_pragmas):]):
            ck.broken.append({"step": "schema tie: connection pragmas", "what": {"entry point": fn, "generated": lean_pragmas, "issued": [q for q in norm if q.startswith("pragma")][:5],
                                                                               "first statement": norm[:1]}})
        used = set()
        for q in log:
            used |= sl.tables_of_sql(q)
        seen.setdefault(fn, set()).update(used)
        if fn not in ops or not used <= ops[fn]:
            ck.broken.append({"step": "schema tie: tables addressed by an entry point", "what": {"entry point": fn, "statements address": sorted(used), "generated opTables": sorted(ops.get(fn, []))}})
    public = sorted(n for n in dir(pgsql) if not n.startswith("_") and n.endswith(("_to_db", "_from_db", "_delete_db")) and callable(getattr(pgsql, n))
                    and getattr(getattr(pgsql, n), "__module__", None) == pgsql.__name__)
    if public != sorted(ops):
        ck.broken.append({"step": "schema tie: public entry points", "what": {"module": public, "generated": sorted(ops)}})
    summary["entry_points_traced"] = len(seen)
    summary["entry_points_whose_statements_reached_every_generated_table"] = sorted(fn for fn in seen if seen[fn] == ops.get(fn))
    summary["entry_points_not_traced"] = sorted(set(ops) - set(seen))
    summary["sqlite_version"] = info.get("sqlite_version")
    ck.cov["schema_tie"] = summary
    ck.assumptions += ["SQLite's PRAGMA table_xinfo / foreign_key_list / index_list / index_info report the constraints it enforces (the generated schema is read "
                       "through them; AUTOINCREMENT, CHECK, DEFERRABLE etc. through a keyword scan of the CREATE text)"]


def _first_diff(a, b):
    for i in range(max(len(a), len(b))):
        x = a[i] if i < len(a) else "<missing>"
        y = b[i] if i < len(b) else "<missing>"
        if x != y:
            return {"harness": x.replace("\t", " ")[:400], "db_create": y.replace("\t", " ")[:400]}
    return None


def _bulk(ck, pg, pgsql, rng, thorough, files):
    """A store holding more isotherms than any internal batch size: everything stored is retrievable, selectable and deletable.
    Every call below is valid on a fresh store; one that raises is a failing input (not a problem of the harness)."""
    step = {"call": "set-up"}
    try:
        _bulk_body(ck, pg, pgsql, files, step)
    except Exception as e:  # noqa
        ck.fail_case({"op": step["call"], "outcome": sl.outcome_of(e) if sl.outcome_of(e) == "parsing" else err_class(e), "clause": "valid operation refused", "bulk": True,
                      "route": getattr(step.get("rt"), "last", None)},
                     {"call": step["call"], "error": repr(e)[:400]})


def _bulk_body(ck, pg, pgsql, files, step):
    path = files.new()
    n = ck.n(130, 260)
    rt = Routes(ck, pg, pgsql)
    step["rt"] = rt
    step["call"] = "typeToDb"
    for t in ("isotherm", "pointisotherm", "modelisotherm"):
        pgsql.isotherm_type_to_db({"type": t}, db_path=path, verbose=False)
    step["call"] = "matToDb"
    pgsql.material_to_db(pg.Material("pgv-bulk"), db_path=path, verbose=False)
    step["call"] = "adsToDb"
    pgsql.adsorbate_to_db(pg.Adsorbate("pgv-bulk-gas", store=False), db_path=path, verbose=False)
    step["call"] = "isoToDb"
    ids = []
    for i in range(n):
        iso = pg.PointIsotherm(pressure=[0.1, 0.2 + i * 1e-3, 0.5], loading=[1.0, 2.0, 3.0 + i], material="pgv-bulk", adsorbate="pgv-bulk-gas", temperature=300.0,
                               pressure_mode="absolute", pressure_unit="bar", loading_basis="molar", loading_unit="mmol", material_basis="mass", material_unit="g", temperature_unit="K")
        rt.call("isotherm_to_db", path, iso)
        ids.append(iso.iso_id)
    step["call"] = "isotherms_from_db"
    got = pgsql.isotherms_from_db(db_path=path, verbose=False)
    ck.count(("bulk", n), bucket="bulk store")
    got_ids = sorted(g.iso_id for g in got)
    if got_ids != sorted(ids):
        ck.fail_case({"op": "isotherms_from_db", "clause": "what can be retrieved equals what was stored", "bulk": True}, {"stored": n, "retrieved": len(got), "missing": len(set(ids) - set(got_ids))})
    sel = pgsql.isotherms_from_db(criteria={"material": "pgv-bulk"}, db_path=path, verbose=False)
    if len(sel) != n:
        ck.fail_case({"op": "isotherms_from_db(criteria)", "clause": "what can be retrieved equals what was stored", "bulk": True}, {"stored": n, "retrieved": len(sel)})
    # the last stored one can be deleted through what was retrieved
    last = [g for g in got if g.iso_id == ids[-1]]
    if last:
        step["call"] = "isoDelete"
        rt.call("isotherm_delete_db", path, last[0])
        left = pgsql.isotherms_from_db(db_path=path, verbose=False)
        if sorted(g.iso_id for g in left) != sorted(ids[:-1]) and got_ids == sorted(ids):
            ck.fail_case({"op": "isoDelete", "clause": "deletion removes exactly that item", "bulk": True}, {"left": len(left), "expected": n - 1})


def _run(ck, pg, pgsql, BaseIsotherm, rng, thorough, files):
    nh = ck.n(25, 120)
    maxops = ck.n(25, 60)
    rt = Routes(ck, pg, pgsql)
    lines, plan = [], []
    n_dis = 0
    records = []
    for h in range(nh):
        nfiles = rng.choice([1, 1, 2, 3])
        paths = [files.new() for _ in range(nfiles)]
        # fresh process-global lists for every history (as in a fresh interpreter without shipped data)
        del pg.ADSORBATE_LIST[:]
        del pg.MATERIAL_LIST[:]
        lines.append("reset")
        plan.append(None)
        ads_names = [f"ads{h}_{i}" for i in range(4)]
        mat_names = [f"mat{h}_{i}" for i in range(4)]
        pkeys = [f"prop{i}" for i in range(5)]
        isos = []
        cur = 0
        # the three standard isotherm types in every file
        ops = []
        for fi in range(nfiles):
            for t in ("isotherm", "pointisotherm", "modelisotherm"):
                ops.append((fi, "typeToDb", ("isotherm", t, "", "", False)))
        for _ in range(rng.randint(5, maxops)):
            fi = rng.randrange(nfiles)
            r = rng.random()
            if r < 0.17:
                ops.append((fi, "adsToDb", (rng.choice(ads_names), rand_props(rng, pkeys, allow_none=rng.random() < 0.15), rng.random() < 0.8, rng.random() < 0.25)))
            elif r < 0.34:
                ops.append((fi, "matToDb", (rng.choice(mat_names), rand_props(rng, pkeys, allow_none=rng.random() < 0.15), rng.random() < 0.8, rng.random() < 0.25)))
            elif r < 0.42:
                ops.append((fi, "adsDelete", (rng.choice(ads_names), rng.random() < 0.5)))
            elif r < 0.5:
                ops.append((fi, "matDelete", (rng.choice(mat_names), rng.random() < 0.5)))
            elif r < 0.58:
                table = rng.choice(["adsorbate", "material", "isotherm"])
                t = rng.choice(pkeys + ["special", None]) if table != "isotherm" else rng.choice(["isotherm", "custom", "pointisotherm", None])
                ops.append((fi, "typeToDb", (table, t, rng.choice(["", "g/mol", "K"]), rng.choice(["", "descr"]), rng.random() < 0.3)))
            elif r < 0.64:
                table = rng.choice(["adsorbate", "material", "isotherm"])
                ops.append((fi, "typeDelete", (table, rng.choice(pkeys + ["special"]) if table != "isotherm" else rng.choice(["custom", "isotherm", "modelisotherm"]))))
            elif r < 0.67:
                # the entry points for isotherm property types (finding S39: the schema has no such table)
                ops.append((fi, "isoPropType", (rng.choice(["to_db", "to_db_overwrite", "from_db", "delete"]), rng.choice(pkeys))))
            elif r < 0.86:
                ops.append((fi, "isoToDb", (rng.choice(["base", "point", "model"]), rng.choice(mat_names), rng.choice(ads_names), rng.random() < 0.6, rng.random() < 0.6, rng.random() < 0.25)))
            else:
                ops.append((fi, "isoDelete", (rng.choice(["stored", "stored", "retrieved", "absent"]),)))
        stored = {fi: [] for fi in range(nfiles)}      # (iso object, description) uploaded successfully per file
        for (fi, kind, a) in ops:
            path = paths[fi]
            before, _, _ = sl.read_tables(path)
            line = None
            exc = None
            detail = {"file": fi, "op": kind}
            obj = None
            rt.last = None
            try:
                if kind == "adsToDb":
                    name, props, autoins, overwrite = a
                    obj = pg.Adsorbate(name, **copy.deepcopy(props))
                    full = dict(obj.to_dict())
                    full.pop("name")
                    line = " ".join(["adsToDb", name, "T" if autoins else "F", "T" if overwrite else "F"] + sl.props_tokens(full))
                    a = (name, full, autoins, overwrite)
                    rt.call("adsorbate_to_db", path, obj, autoinsert_properties=autoins, overwrite=overwrite)
                elif kind == "matToDb":
                    name, props, autoins, overwrite = a
                    obj = pg.Material(name, **copy.deepcopy(props))
                    full = dict(obj.to_dict())
                    full.pop("name")
                    line = " ".join(["matToDb", name, "T" if autoins else "F", "T" if overwrite else "F"] + sl.props_tokens(full))
                    a = (name, full, autoins, overwrite)
                    rt.call("material_to_db", path, obj, autoinsert_properties=autoins, overwrite=overwrite)
                elif kind == "adsDelete":
                    line = f"adsDelete {a[0]}"
                    rt.call("adsorbate_delete_db", path, pg.Adsorbate(a[0]) if a[1] else a[0])
                elif kind == "matDelete":
                    line = f"matDelete {a[0]}"
                    rt.call("material_delete_db", path, pg.Material(a[0]) if a[1] else a[0])
                elif kind == "typeToDb":
                    table, t, u, d, overwrite = a
                    line = " ".join(["typeToDb", table, t if t is not None else "~", u or '""', d or '""', "T" if overwrite else "F"])
                    fn = {"adsorbate": "adsorbate_property_type_to_db", "material": "material_property_type_to_db", "isotherm": "isotherm_type_to_db"}[table]
                    td = {"type": t, "description": d or None}
                    if table != "isotherm":
                        td["unit"] = u or None
                    rt.call(fn, path, td, overwrite=overwrite)
                elif kind == "typeDelete":
                    table, t = a
                    line = f"typeDelete {table} {t}"
                    fn = {"adsorbate": "adsorbate_property_type_delete_db", "material": "material_property_type_delete_db", "isotherm": "isotherm_type_delete_db"}[table]
                    rt.call(fn, path, t)
                elif kind == "isoPropType":
                    which, t = a
                    line = f"isoPropTypeOp {which}"
                    if which.startswith("to_db"):
                        rt.call("isotherm_property_type_to_db", path, {"type": t, "unit": "u", "description": "d"}, overwrite=which.endswith("overwrite"))
                    elif which == "from_db":
                        rt.call("isotherm_property_types_from_db", path)
                    else:
                        rt.call("isotherm_property_type_delete_db", path, t)
                elif kind == "isoToDb":
                    ikind, mat, ads, am, aa, again = a
                    if again and stored[fi]:
                        obj = rng.choice(stored[fi])[0]          # duplicate upload of a stored isotherm
                    else:
                        obj = make_isotherm(pg, rng, mat, ads, ikind)
                    desc = sl.iso_description(pg, obj)
                    line = sl.iso_line(desc, am, aa)
                    a = (desc, am, aa)
                    rt.call("isotherm_to_db", path, obj, autoinsert_material=am, autoinsert_adsorbate=aa)
                elif kind == "isoDelete":
                    how = a[0]
                    if how == "absent" or not stored[fi]:
                        target = "0123456789abcdef0123456789abcdef"
                        iid = target
                    elif how == "retrieved":
                        iid = rng.choice(stored[fi])[1]["id"]
                        allgot = list(rt.call("isotherms_from_db", path))
                        got = [i for i in allgot if i.iso_id == iid]
                        target = got[0] if got else iid
                        detail["via"] = "retrieved object" if got else "id (retrieved object has another id)"
                        if not got:
                            # no retrieved object carries the identifier: when the one standing for the stored isotherm has the same
                            # metadata (kinds included) and branch marks, "can be deleted through it" is put to the test all the same
                            so, sd = [s for s in stored[fi] if s[1]["id"] == iid][0]
                            tw = _twin(pg, allgot, before, sd, so)
                            if tw is not None and tw.to_dict() == so.to_dict() and not any(isinstance(v, int) and not isinstance(v, bool) for v in so.properties.values()) and (not isinstance(so, pg.PointIsotherm) or _same_branch(tw, so)):
                                target = tw
                                detail["via"] = "retrieved object (identifier differs from the stored one)"
                    else:
                        iid = rng.choice(stored[fi])[1]["id"]
                        target = iid if rng.random() < 0.5 else [s for s in stored[fi] if s[1]["id"] == iid][0][0]
                    line = f"isoDelete {iid}"
                    a = (iid,)
                    rt.call("isotherm_delete_db", path, target)
            except Exception as e:  # noqa
                exc = e
            out = sl.outcome_of(exc)
            after, integ, fk = sl.read_tables(path)
            if line is None:
                # the operation failed while its ARGUMENT was being built (before any library call on the database): nothing to hand
                # to the model; the file must be as it was
                ck.count((kind, "argument not built", repr(exc)[:80]), nontrivial=False, bucket=f"{kind}:argument could not be built")
                if before != after or integ != [("ok",)] or fk:
                    ck.fail_case({"op": kind, "outcome": err_class(exc) if exc is not None else out, "clause": "refused operation changed the database"},
                                 {"error": repr(exc)[:300], "file": fi})
                continue
            lines.append(f"use {h * 10 + fi}")
            plan.append(None)
            lines.append("op - " + line)
            plan.append((h, fi, kind, out, sl.dump_tables(after), line))
            sig = {"op": kind, "outcome": out if exc is None or out == "parsing" else err_class(exc), "route": rt.last}
            changed = before != after
            ck.count((kind, out, line), nontrivial=(out == "ok" and changed), bucket=f"{kind}:{out}",
                     sample={"op": line[:200], "outcome": out} if len(records) % 211 == 0 else None)
            records.append(1)
            # ------------------------------------------------ oracle (model-independent)
            why = expected_refusal(kind, a, before)
            if integ != [("ok",)] or fk:
                ck.fail_case({**sig, "clause": "database integrity"}, {"line": line, "integrity_check": str(integ), "foreign_key_check": str(fk)})
            if why is not None and out == "ok":
                ck.fail_case({**sig, "clause": "must be refused: " + why}, {"line": line})
            if why is None and out != "ok":
                ck.fail_case({**sig, "clause": "valid operation refused"}, {"line": line, "error": repr(exc)[:300], **({"via": detail["via"]} if "via" in detail else {})})
            if out != "ok" and changed:
                ck.fail_case({**sig, "clause": "refused operation changed the database"}, {"line": line})
            if out == "other":
                ck.fail_case({**sig, "clause": "refusal is not a ParsingError", "reason": why or ""}, {"line": line, "error": repr(exc)[:300]})
            if out == "ok":
                _check_effect(ck, pg, rt, kind, a, obj, path, before, after, sig, line, stored[fi])
        # the outcome must not depend on other files / the session: replay file 0's accepted uploads on a new file in this same session
        if nfiles > 1 and stored[0]:
            p2 = files.new()
            iso, desc = stored[0][0]
            try:
                for t in ("isotherm", "pointisotherm", "modelisotherm"):
                    pgsql.isotherm_type_to_db({"type": t}, db_path=p2, verbose=False)
                rt.call("isotherm_to_db", p2, iso)
                ok2 = True
            except Exception as e:  # noqa
                ok2 = repr(e)[:200]
            ck.count(("other-file", h), bucket="independent-of-other-files")
            if ok2 is not True:
                ck.fail_case({"op": "isoToDb", "clause": "outcome depends on other database files / the session", "route": rt.last}, {"error": ok2, "isotherm": desc["id"]})

    # ------------------------------------------------------------------ correspondence with the Lean model
    try:
        replies = ck.drive("Store", lines)
    except Exception as e:
        replies = None
        ck.broken.append({"step": "driver Store", "what": str(e)[:600]})
    if replies:
        bad_hist = set()
        for pl, rep in zip(plan, replies):
            if pl is None:
                continue
            h, fi, kind, out, dump, line = pl
            if (h, fi) in bad_hist:
                continue
            mo, _, mdump, _, _ = sl.parse_reply(rep)
            if mo != out or sl.norm_dump(mdump) != sl.norm_dump(dump):
                n_dis += 1
                bad_hist.add((h, fi))
                if n_dis <= 3:
                    ck.broken.append({"step": "correspondence Model/Store.lean", "what": {"op": line[:300], "implementation": [out, dump[:400]], "model": [mo, mdump[:400]]}})
    ck.cov["correspondence_disagreements"] = n_dis
    ck.cov["routes"] = ("every call of a history goes through a randomly chosen public route to its entry point: pygaps.parsing.sqlite.<f>, the re-export "
                        "pygaps.parsing.<f>, or the method of the operand object (<isotherm>.to_db; any to_db / delete_db method a Material / Adsorbate offers); "
                        "options at their documented default are left out at random")
    ck.cov["rule"] = ("seeded histories (quick 25 x <= 25 ops, thorough 120 x <= 60) over 1-3 freshly created database files: adsorbate/material/isotherm/property-type uploads "
                      "(overwrite, auto-insert flags, None / list / unsupported values, duplicates), deletions (by name, by object, by retrieved object, absent, still referenced), "
                      "three isotherm classes, half of the point isotherms with full-precision data (all digits, tiny / large magnitudes, values next to a rounding boundary); "
                      "retrieved content compared number by number; round trips upload / retrieve / == / delete-through-retrieved on 8 (thorough 30) stores; non-trivial = accepted call that changed a table; distinct = distinct (operation, outcome, arguments)")
    ck.assumptions += ["SQLite's own constraint enforcement and REAL/TEXT affinity (values compared after the same canonicalisation)"]


def _roundtrip(ck, pg, pgsql, rng, files):
    """The clause "an uploaded item comes back with equal content (a retrieved isotherm equals the stored one and can be deleted
    through it)" on its own, for isotherms whose numbers use the whole double (see `precise_value`): a store with a few such
    isotherms; after every upload everything stored so far is retrieved and compared number by number and by identifier; in the end
    every isotherm is deleted through the RETRIEVED object standing for it (by identifier; by position of its row when no retrieved
    object carries the identifier) and the store must be empty.  Every call is valid on a fresh store: one that raises is a failing
    input.  Integer metadata and user-assigned branch marks (recorded findings S11c / S11b) are left out here."""
    rt = Routes(ck, pg, pgsql)
    n_stores = ck.n(8, 30)
    for si in range(n_stores):
        path = files.new()
        del pg.ADSORBATE_LIST[:]
        del pg.MATERIAL_LIST[:]
        step = "set-up"
        sig0 = {"op": "isoToDb", "roundtrip": True}
        try:
            for t in ("isotherm", "pointisotherm", "modelisotherm"):
                pgsql.isotherm_type_to_db({"type": t}, db_path=path, verbose=False)
            kept = []
            for k in range(rng.randint(1, 4)):
                kind = rng.choice(["point", "point", "point", "model"])
                iso = None
                while iso is None or any(isinstance(v, int) and not isinstance(v, bool) for v in iso.properties.values()) or iso.properties.get("weird") \
                        or "nothing" in iso.properties or (kind == "point" and list(iso.data_raw["branch"]) != list(_reguessed(pg, iso))):
                    iso = make_isotherm(pg, rng, f"rt{si}_m{rng.randint(0, 1)}", f"rt{si}_g{rng.randint(0, 1)}", kind)
                if any(o.iso_id == iso.iso_id for o in kept):
                    continue
                step = "isoToDb"
                rt.call("isotherm_to_db", path, iso)
                sig = {**sig0, "class": type(iso).__name__.lower(), "route": rt.last}
                kept.append(iso)
                step = "isotherms_from_db"
                got = list(rt.call("isotherms_from_db", path))
                T, _, _ = sl.read_tables(path)
                ck.count(("roundtrip", si, k), bucket="roundtrip: stored isotherms retrieved and compared number by number")
                if len(got) != len(kept):
                    ck.fail_case({**sig, "clause": "what can be retrieved equals what was stored"}, {"stored": len(kept), "retrieved": len(got)})
                for o in kept:
                    desc = {"id": o.iso_id, "material": str(o.material), "adsorbate": str(o.adsorbate)}
                    tw = _twin(pg, got, T, desc, o)
                    if tw is None:
                        ck.fail_case({**sig, "clause": "retrieved isotherm equals the stored one"}, {"stored_id": o.iso_id, "retrieved_ids": [g.iso_id for g in got][:5], "data": _data_of(pg, o)})
                        continue
                    for where, x, y in _content_diff(pg, o, tw):
                        ck.fail_case({**sig, "clause": "retrieved data equal the stored data number for number", "where": where.split(":")[0]},
                                     {"where": where, "stored": repr(x)[:300], "retrieved": repr(y)[:300], "data": _data_of(pg, o)})
                    if not (tw == o) or tw.iso_id != o.iso_id:
                        ck.fail_case({**sig, "clause": "retrieved isotherm equals the stored one"}, {"stored_id": o.iso_id, "retrieved_id": tw.iso_id, "data": _data_of(pg, o)})
            # deletion through the retrieved objects
            while kept:
                o = kept.pop(rng.randrange(len(kept)))
                step = "isotherms_from_db"
                got = list(rt.call("isotherms_from_db", path))
                T, _, _ = sl.read_tables(path)
                tw = _twin(pg, got, T, {"id": o.iso_id, "material": str(o.material), "adsorbate": str(o.adsorbate)}, o)
                if tw is None:
                    continue                                     # reported above
                step = "isoDelete"
                sig = {"op": "isoDelete", "roundtrip": True, "class": type(o).__name__.lower()}
                try:
                    rt.call("isotherm_delete_db", path, tw)
                except Exception as e:  # noqa
                    ck.fail_case({**sig, "route": rt.last, "outcome": sl.outcome_of(e) if sl.outcome_of(e) == "parsing" else err_class(e),
                                  "clause": "stored isotherm cannot be deleted through the retrieved object"},
                                 {"error": repr(e)[:300], "stored_id": o.iso_id, "retrieved_id": tw.iso_id, "data": _data_of(pg, o)})
                    continue
                A, _, _ = sl.read_tables(path)
                ck.count(("roundtrip-delete", si, o.iso_id), bucket="roundtrip: deletion through the retrieved object")
                if any(r[0] == o.iso_id for r in A["isos"] + A["isoProps"] + A["isoData"]) or [r for r in T["isos"] if r[0] != o.iso_id] != A["isos"]:
                    ck.fail_case({**sig, "route": rt.last, "clause": "deletion removes exactly that item"}, {"stored_id": o.iso_id, "left": len(A["isos"])})
        except Exception as e:  # noqa
            ck.fail_case({"op": step, "roundtrip": True, "outcome": sl.outcome_of(e) if sl.outcome_of(e) == "parsing" else err_class(e), "clause": "valid operation refused", "route": rt.last},
                         {"call": step, "error": repr(e)[:400]})


def _reguessed(pg, iso):
    """Branch marks a retrieval will give the points (the marks are not stored, finding S11b: they are guessed again from the pressures)."""
    twin = pg.PointIsotherm(pressure=list(iso.pressure()), loading=list(iso.loading()), material="x", adsorbate="N2", temperature=300.0,
                            pressure_mode="absolute", pressure_unit="bar", loading_basis="molar", loading_unit="mmol", material_basis="mass", material_unit="g", temperature_unit="K")
    return twin.data_raw["branch"]


def _data_of(pg, iso):
    if isinstance(iso, pg.PointIsotherm):
        return {"pressure": [repr(x) for x in iso.pressure().tolist()], "loading": [repr(x) for x in iso.loading().tolist()],
                **{k: [repr(x) for x in iso.other_data(k).tolist()] for k in iso.other_keys}}
    if isinstance(iso, pg.ModelIsotherm):
        return {"model": repr(iso.model.to_dict())[:300]}
    return {}


def _retrieve(ck, rt, fname, path, sig, line):
    """`*_from_db` (through any public route) on a store whose last call was accepted: a retrieval that raises is a failing input (returns None)."""
    try:
        return list(rt.call(fname, path))
    except Exception as e:  # noqa
        ck.fail_case({**sig, "clause": "retrieval after an accepted call raises", "retrieval": fname, "retrieval_route": rt.last, "error_class": err_class(e)},
                     {"line": line[:300], "error": repr(e)[:300]})
        return None


def _check_effect(ck, pg, rt, kind, a, obj, path, before, after, sig, line, stored):
    """An accepted call has exactly the dictionary effect, and what was uploaded can be retrieved with equal content."""
    if kind in ("adsToDb", "matToDb"):
        name, props = a[0], a[1]
        key, pk = ("ads", "adsProps") if kind == "adsToDb" else ("mats", "matProps")
        rows = [(r[1], r[2]) for r in after[pk] if r[0] == name]
        exp = []
        for k, v in props.items():
            for x in (v if isinstance(v, (list, tuple)) else [v]):
                exp.append((k, sl.canon_val(x)))
        others_b = [r for r in before[pk] if r[0] != name]
        others_a = [r for r in after[pk] if r[0] != name]
        if name not in after[key] or rows != exp or others_a != others_b:
            ck.fail_case({**sig, "clause": "upload stores exactly the item"}, {"line": line, "stored": rows, "expected": exp})
        got = _retrieve(ck, rt, "adsorbates_from_db" if kind == "adsToDb" else "materials_from_db", path, sig, line)
        if got is None:
            return
        mine = [g for g in got if g.name == name]
        ok = len(mine) == 1
        if ok:
            gp = dict(mine[0].to_dict())
            gp.pop("name")
            want = {k: v for k, v in props.items()}
            ok = set(gp) == set(want) and all(_same_value(gp[k], want[k]) for k in want)
        if not ok:
            ck.fail_case({**sig, "clause": "uploaded item comes back with equal content", "list_valued": any(isinstance(v, (list, tuple)) for v in props.values())},
                         {"line": line, "retrieved": str([m.to_dict() for m in mine])[:300]})
    elif kind in ("adsDelete", "matDelete"):
        key, pk = ("ads", "adsProps") if kind == "adsDelete" else ("mats", "matProps")
        name = a[0]
        if name in after[key] or any(r[0] == name for r in after[pk]) or [x for x in before[key] if x != name] != after[key] \
                or [r for r in before[pk] if r[0] != name] != after[pk]:
            ck.fail_case({**sig, "clause": "deletion removes exactly that item"}, {"line": line})
    elif kind in ("typeToDb", "typeDelete"):
        # retrieval of the type collections: what `*_types_from_db` returns is exactly the raw table (type, unit, description), in insertion order
        table = a[0]
        key = {"adsorbate": "adsTypes", "material": "matTypes", "isotherm": "isoTypes"}[table]
        fn = {"adsorbate": "adsorbate_property_types_from_db", "material": "material_property_types_from_db", "isotherm": "isotherm_types_from_db"}[table]
        got = _retrieve(ck, rt, fn, path, sig, line)
        if got is None:
            return
        if table == "isotherm":
            rows = [(sl.key_tok(g.get("type")), g.get("description") or "") for g in got]
        else:
            rows = [(sl.key_tok(g.get("type")), g.get("unit") or "", g.get("description") or "") for g in got]
        if rows != [tuple(r) for r in after[key]]:
            ck.fail_case({**sig, "clause": "retrieved type collection equals the stored one", "table": table}, {"line": line, "retrieved": str(rows)[:300], "stored": str(after[key])[:300]})
        if kind == "typeDelete" and (a[1] in [r[0] for r in after[key]] or [r for r in before[key] if r[0] != a[1]] != after[key]):
            ck.fail_case({**sig, "clause": "deletion removes exactly that item"}, {"line": line})
    elif kind == "isoToDb":
        desc = a[0]
        stored.append((obj, desc))
        got = _retrieve(ck, rt, "isotherms_from_db", path, sig, line)
        if got is None:
            return
        mine = [g for g in got if g.iso_id == desc["id"]]
        twin = _twin(pg, got, after, desc, obj)
        if twin is not None:
            # "an uploaded item comes back with equal content": the numbers themselves, not only the identifier (which is computed
            # from rounded data) - every data column / the model parameters / the numeric metadata, bit for bit
            ck.count(("iso-content", desc["id"]), bucket="isoToDb:retrieved content compared number by number")
            for where, x, y in _content_diff(pg, obj, twin):
                ck.fail_case({**sig, "clause": "retrieved data equal the stored data number for number", "class": desc["cls"], "where": where.split(":")[0]},
                             {"line": line[:300], "where": where, "stored": repr(x)[:300], "retrieved": repr(y)[:300]})
        ints = any(isinstance(v, int) and not isinstance(v, bool) for v in obj.properties.values())
        if not mine:
            # content comparison modulo the documented format domain: numbers are REAL (ints come back as floats)
            cand = [g for g in got if str(g.material) == desc["material"] and str(g.adsorbate) == desc["adsorbate"]]
            same = [g for g in cand if _same_dict(g.to_dict(), obj.to_dict())]
            branch_diff = isinstance(obj, pg.PointIsotherm) and any(not _same_branch(g, obj) for g in same)
            ck.fail_case({**sig, "clause": "retrieved isotherm equals the stored one", "class": desc["cls"], "int_metadata": ints,
                          "content_equal_up_to_int_float": bool(same), "branch_marks_differ": bool(branch_diff)}, {"line": line[:300], "stored_id": desc["id"], "retrieved_ids": [g.iso_id for g in cand][:5]})
    elif kind == "isoDelete":
        iid = a[0]
        stored[:] = [s for s in stored if s[1]["id"] != iid]
        if any(r[0] == iid for r in after["isos"] + after["isoProps"] + after["isoData"]) or \
                [r for r in before["isos"] if r[0] != iid] != after["isos"] or [r for r in before["isoProps"] if r[0] != iid] != after["isoProps"] \
                or [r for r in before["isoData"] if r[0] != iid] != after["isoData"]:
            ck.fail_case({**sig, "clause": "deletion removes exactly that item"}, {"line": line})


def _twin(pg, got, after, desc, obj):
    """The retrieved object that stands for the isotherm just stored: the one with its identifier; when no retrieved object has it
    (the case the clause 'retrieved isotherm equals the stored one' reports), the one at the position of its row in the table."""
    mine = [g for g in got if g.iso_id == desc["id"]]
    if mine:
        return mine[0]
    idx = [i for i, r in enumerate(after["isos"]) if r[0] == desc["id"]]
    if len(idx) == 1 and len(got) == len(after["isos"]):
        g = got[idx[0]]
        if type(g) is type(obj) and str(g.material) == desc["material"] and str(g.adsorbate) == desc["adsorbate"]:
            return g
    return None


def _eq_exact(x, y):
    """Equality of nested plain values with floats compared exactly (two NaNs are equal: 'not set' comes back as 'not set')."""
    if isinstance(x, dict) and isinstance(y, dict):
        return set(x) == set(y) and all(_eq_exact(x[k], y[k]) for k in x)
    if isinstance(x, (list, tuple)) and isinstance(y, (list, tuple)):
        return len(x) == len(y) and all(_eq_exact(p, q) for p, q in zip(x, y))
    if isinstance(x, float) and isinstance(y, float) and x != x and y != y:
        return True
    return x == y


def _content_diff(pg, a, b):
    """[(where, stored, retrieved)]: numbers of the stored isotherm `a` that the retrieved one `b` does not hand back exactly."""
    import numpy as np
    out = []
    if isinstance(a, pg.PointIsotherm):
        cols = [("pressure", lambda i: i.pressure()), ("loading", lambda i: i.loading())] + [(k, (lambda i, k=k: i.other_data(k))) for k in a.other_keys]
        if sorted(a.other_keys) != sorted(b.other_keys):
            out.append(("supplementary columns", sorted(a.other_keys), sorted(b.other_keys)))
        for name, get in cols:
            try:
                x, y = np.asarray(get(a)).tolist(), np.asarray(get(b)).tolist()
            except Exception as e:  # noqa
                out.append((f"{name}: not readable from the retrieved isotherm", None, repr(e)[:200]))
                continue
            if len(x) != len(y):
                out.append((f"{name}: number of points", len(x), len(y)))
                continue
            bad = [i for i in range(len(x)) if not _eq_exact(x[i], y[i])]
            if bad:
                out.append((f"{name}: point {bad[0]} ({len(bad)} of {len(x)} differ)", x[bad[0]], y[bad[0]]))
    elif isinstance(a, pg.ModelIsotherm):
        da, db = a.model.to_dict(), b.model.to_dict()
        if not _eq_exact(da, db):
            out.append(("model: name, parameters, ranges, rmse", da, db))
    for k, v in a.properties.items():
        if isinstance(v, float) and not (b.properties.get(k) == v):
            out.append((f"metadata: {k}", v, b.properties.get(k)))
    if not (float(a.temperature) == float(b.temperature)):
        out.append(("temperature", a.temperature, b.temperature))
    return out


def _same_value(a, b):
    if isinstance(a, (list, tuple)) or isinstance(b, (list, tuple)):
        la = list(a) if isinstance(a, (list, tuple)) else [a]
        lb = list(b) if isinstance(b, (list, tuple)) else [b]
        return len(la) == len(lb) and all(_same_value(x, y) for x, y in zip(la, lb))
    return sl.canon_val(a) == sl.canon_val(b)


def _same_dict(a, b):
    ka = {k: v for k, v in a.items() if k != "material"}
    kb = {k: v for k, v in b.items() if k != "material"}
    return set(ka) == set(kb) and all(_same_value(ka[k], kb[k]) if not isinstance(ka[k], dict) else ka[k] == kb[k] for k in ka)


def _same_branch(a, b):
    try:
        return list(a.data_raw["branch"]) == list(b.data_raw["branch"])
    except Exception:
        return False
