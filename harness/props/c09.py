"""C09 — database operations are atomic under statement failures and process death.

Lean: Props/C09.lean (about `runOp` of Model/Store.lean: a failed call leaves the committed file unchanged for every
operation, statement index and fault kind; death commits nothing unless it happens after the commit; a call that
returns normally committed the fault-free effect, except for the swallowed IntegrityError inside overwrite = S28).
Props/C09/Foreign.lean: a fault raised INSTEAD of statement k leaves the body with exactly that exception (`fault_before_statement_raises`),
the outcome is the one `with_connection`'s `except` clauses give it (`fault_before_statement_outcome`), and an exception that is NO
sqlite3.Error (`FaultKind.foreign`: OverflowError / UnicodeEncodeError while a value is bound, an exception of the module between two
statements, KeyboardInterrupt, MemoryError …) at any statement commits nothing and the repeated call commits the fault-free effect
(`foreign_exception_commits_nothing`).
Tie: EXHAUSTIVE fault enumeration on the real code — every public write operation x every `cursor.execute` index
k = 0..n (n = the commit) x {IntegrityError, InterfaceError, OperationalError raised by statement k; an exception OUTSIDE the sqlite3
hierarchy raised by statement k — 'foreign': OverflowError, UnicodeEncodeError, MemoryError, ValueError, TypeError, KeyError, RecursionError,
OSError, sqlite3.Warning, the library's ParsingError; 'interrupt': KeyboardInterrupt, SystemExit, GeneratorExit, CancelledError — the
classes take turns; 'dberror' (sampled): the other sqlite3.Error classes the wrapper does not translate; process exit before /
after statement k; exit just before / after commit} on databases with prior content.  `pygaps.parsing.sqlite.sqlite3`
is replaced in this process by a counting proxy (exits run in a forked child).  After every run the file is read
through an independent connection and compared with the model's committed state; then the operation is repeated.
Model-independent oracle: tables ∈ {before, fault-free after}, integrity_check / foreign_key_check clean, prior rows
intact, retry outcome = fault-free outcome.

Crash environment (Model/Pager.lean, Props/C09/Pager.lean, driver Drv/Pager.lean; proxy in pgv/crashenv.py): "death commits
nothing" is a theorem about SQLite's pager only when the rollback journal is a file and the whole call is ONE transaction
(`death_atomic`, `power_atomic`); with a journal in memory / no journal / several transactions per call a death after SQLite has
spilled dirty pages leaves a torn file (`volatile_journal_tears`, `split_transaction_tears`).  The harness therefore
(1) reads the connection's journal_mode / synchronous / locking_mode / isolation_level / autocommit while each operation runs, counts
connections and commits and follows `in_transaction` and SQLite's own statement trace, and hands the observed environment to the
model (`Env.deathSafe`, `Env.powerSafe`): any deviation from a plain connection's defaults, or an environment for which the model
predicts a torn file, is a broken correspondence AND switches that operation to the exhaustive search;
(2) repeats the death faults (and one statement fault per position) with a SMALL PAGE CACHE (`PRAGMA cache_size` = 1 / 4 / 10 pages,
issued by the proxy right after connect: an environment parameter, not part of the code's semantics), so that pages are spilled
before the commit as they are with the default cache on megabyte uploads; thorough tier and suspicious operations also upload an
isotherm larger than the default cache;
(3) after every fault opens the file with an independent read-write connection first (what the next user finds: a hot journal is
played back), then integrity_check / foreign_key_check and the table comparison; a malformed or torn file is reported with the
operation, k, fault kind and cache size;
(4) "everything stored remains retrievable": the library's own readers (isotherms_from_db, materials_from_db, adsorbates_from_db,
isotherm_types_from_db) must not raise on the file after the fault and must return exactly what the tables hold (quick: every 6th run);
(5) DATA FAULTS (pgv/bindfault.py): the same clauses for calls that fail part-way BY THEMSELVES, run against the real sqlite3 module without any
proxy: every user value of every upload / overwrite / deletion (name, j-th property key, j-th property value or list element, j-th metadata key /
value, the properties of the auto-inserted material, name and cells of a supplementary data column, type / unit / description of a property
type, the key of a deletion) is replaced, one at a time, by a value the sqlite3 driver rejects while it binds the statement (ints outside 64 bit,
strs with a lone surrogate) or the module rejects between two statements (complex / unserialisable cells).  After the failed call: file = before,
integrity, retrievability, and the REPAIRED operation succeeds with its fault-free effect; a value that is accepted after all must be stored
completely (as many rows per table as the valid operation).  A second run under a counting proxy gives the index k of the `cursor.execute` call that
raised; the model's `runOp (k, .foreign)` of the valid operation must give the same outcome and content.
"""
import copy
import os
import shutil
import tempfile

import c08  # noqa: F401
from pgv import bindfault as bf
from pgv import crashenv as ce
from pgv import storelib as sl
from pgv.core import import_pygaps
from pgv.models import make

#: fault kinds of the harness.  The first five are raised INSTEAD of statement k; 'foreign' (an Exception subclass outside sqlite3.Error) and
#: 'interrupt' (a BaseException that is no Exception) are both `FaultKind.foreign` of Model/Store.lean, 'dberror' (a sqlite3.Error that is neither
#: Integrity- nor InterfaceError nor OperationalError; sampled) is `.operational`: the exception class of each run is drawn from crashenv.exception_classes
KINDS = ["integrity", "interface", "operational", "foreign", "interrupt", "exitBefore", "exitAfter"]
STATEMENT_KINDS = KINDS[:5]
MODEL_KIND = {"interrupt": "foreign", "dberror": "operational"}


def run(ck):
    pg = import_pygaps()
    import pygaps.parsing.sqlite as pgsql
    # scratch databases on a memory file system when there is one: with a small page cache SQLite fsyncs its journal before every
    # spill, and waiting for the platter is all that would buy (the faults exercised are process deaths: the OS keeps what was written)
    scratch = os.environ.get("PGV_DB_SCRATCH") or next((d for d in ("/dev/shm",) if os.path.isdir(d) and os.access(d, os.W_OK | os.X_OK)), None)
    saved_tmp = tempfile.tempdir
    tempfile.tempdir = scratch or saved_tmp
    try:
        files = sl.Files(pg)
    finally:
        tempfile.tempdir = saved_tmp
    ck.cov["scratch_dir"] = str(files.dir)
    try:
        _run(ck, pg, pgsql, files)
    finally:
        files.close()


def _run(ck, pg, pgsql, files):
    import numpy as np
    import pandas as pd
    from pygaps.core.baseisotherm import BaseIsotherm
    rng = ck.rng
    thorough = ck.tier == "thorough"

    # ------------------------------------------------------------------ prior content (several variants)
    def iso_point(mat, ads, extra=False):
        df = pd.DataFrame({"pressure": [0.1, 0.5, 0.9, 0.4], "loading": [1.0, 2.0, 3.0, 2.5]})
        if extra:
            df["enth"] = [5.0, 6.0, 7.0, 8.0]
        return pg.PointIsotherm(isotherm_data=df, pressure_key="pressure", loading_key="loading", material=mat, adsorbate=ads,
                                temperature=77.0, project="p1", t_act=350.5, flag=True)

    def prepare(path, variant):
        lines = []
        steps = []

        def do(kind, *a):
            steps.append((kind, a))
        for t in ("isotherm", "pointisotherm", "modelisotherm"):
            do("type", "isotherm", t)
        do("ads", "adsA", {"formula": "A2", "mass": 28.0, "alias": ["adsA", "aa"]})
        do("ads", "adsB", {"mass": 44.0})
        do("mat", "matA", {"density": 2.5, "batch": "b1"})
        do("mat", "matB", {})
        if variant >= 1:
            do("iso", BaseIsotherm(material="matA", adsorbate="adsA", temperature=100.0, user="u1"))
            do("iso", iso_point("matA", "adsB", extra=True))
        if variant >= 2:
            do("mat", "matC", {"density": 1.1, "comment": "c"})
            do("ads", "adsC", {"mass": 12.0, "formula": "C", "alias": ["adsC", "cc"]})      # unreferenced: can be deleted
            do("type", "adsorbate", "spare")
            do("type", "material", "spare")
        for kind, a in steps:
            if kind == "type":
                table, t = a
                fn = {"adsorbate": pgsql.adsorbate_property_type_to_db, "material": pgsql.material_property_type_to_db, "isotherm": pgsql.isotherm_type_to_db}[table]
                fn({"type": t}, db_path=path, verbose=False)
                lines.append(f'op - typeToDb {table} {t} "" "" F')
            elif kind == "ads":
                o = pg.Adsorbate(a[0], **copy.deepcopy(a[1]))
                pgsql.adsorbate_to_db(o, db_path=path, verbose=False)
                full = dict(o.to_dict())
                full.pop("name")
                lines.append(" ".join(["op - adsToDb", a[0], "T", "F"] + sl.props_tokens(full)))
            elif kind == "mat":
                o = pg.Material(a[0], **copy.deepcopy(a[1]))
                pgsql.material_to_db(o, db_path=path, verbose=False)
                full = dict(o.to_dict())
                full.pop("name")
                lines.append(" ".join(["op - matToDb", a[0], "T", "F"] + sl.props_tokens(full)))
            else:
                pgsql.isotherm_to_db(a[0], db_path=path, verbose=False)
                lines.append("op - " + sl.iso_line(sl.iso_description(pg, a[0]), True, True))
        # the isotherm OBJECTS that were stored: an equal-looking isotherm built later has another iso_id once its material / adsorbate
        # resolve to the uploaded ones (with their properties) through MATERIAL_LIST / ADSORBATE_LIST
        return lines, [a[0] for kind, a in steps if kind == "iso"]

    # ------------------------------------------------------------------ the write operations under test
    def operations(variant, stored_isos):
        ops = []

        def A(name, props, overwrite=False, autoins=True):
            o = pg.Adsorbate(name, **copy.deepcopy(props))
            full = dict(o.to_dict())
            full.pop("name")
            ops.append((f"adsorbate_to_db({'overwrite' if overwrite else 'new'})",
                        " ".join(["adsToDb", name, "T" if autoins else "F", "T" if overwrite else "F"] + sl.props_tokens(full)),
                        lambda p, o=o: pgsql.adsorbate_to_db(o, db_path=p, overwrite=overwrite, autoinsert_properties=autoins, verbose=False)))

        def M(name, props, overwrite=False, autoins=True):
            o = pg.Material(name, **copy.deepcopy(props))
            full = dict(o.to_dict())
            full.pop("name")
            ops.append((f"material_to_db({'overwrite' if overwrite else 'new'})",
                        " ".join(["matToDb", name, "T" if autoins else "F", "T" if overwrite else "F"] + sl.props_tokens(full)),
                        lambda p, o=o: pgsql.material_to_db(o, db_path=p, overwrite=overwrite, autoinsert_properties=autoins, verbose=False)))

        def I(iso, am=True, aa=True, label="isotherm_to_db"):
            d = sl.iso_description(pg, iso)
            ops.append((label, sl.iso_line(d, am, aa), lambda p, iso=iso: pgsql.isotherm_to_db(iso, db_path=p, autoinsert_material=am, autoinsert_adsorbate=aa, verbose=False)))
        A("adsNew", {"mass": 16.0, "alias": ["adsNew", "nn"], "newprop": "x"})
        A("adsA", {"mass": 29.0, "other": "y"}, overwrite=True)
        A("adsB", {}, overwrite=True)
        M("matNew", {"density": 3.3, "fresh": "z", "tags": ["t1", "t2"]})
        M("matA", {"density": 2.6}, overwrite=True)
        M("matB", {"density": 0.9}, overwrite=True)          # overwrite of an item without properties: the swallowed "nothing to delete"
        ops.append(("adsorbate_delete_db", "adsDelete adsB" if variant == 0 else "adsDelete adsNone", None))
        ops.append(("material_delete_db", "matDelete matB", lambda p: pgsql.material_delete_db("matB", db_path=p, verbose=False)))
        ops[-2] = ("adsorbate_delete_db", "adsDelete adsA" if variant == 0 else "adsDelete adsB",
                   (lambda p: pgsql.adsorbate_delete_db("adsA", db_path=p, verbose=False)) if variant == 0 else
                   (lambda p: pgsql.adsorbate_delete_db("adsB", db_path=p, verbose=False)))
        if variant >= 1:
            ops[-2] = ("adsorbate_delete_db", "adsDelete adsB", lambda p: pgsql.adsorbate_delete_db("adsB", db_path=p, verbose=False))   # refused: referenced
        for table, fn, dl in (("adsorbate", pgsql.adsorbate_property_type_to_db, pgsql.adsorbate_property_type_delete_db),
                              ("material", pgsql.material_property_type_to_db, pgsql.material_property_type_delete_db),
                              ("isotherm", pgsql.isotherm_type_to_db, pgsql.isotherm_type_delete_db)):
            td = {"type": "tNew", "description": "d"}
            if table != "isotherm":
                td["unit"] = "u"
            ops.append((f"{table}_type_to_db", f'typeToDb {table} tNew {"u" if table != "isotherm" else chr(34) * 2} d F', lambda p, fn=fn, td=td: fn(dict(td), db_path=p, verbose=False)))
            existing = {"adsorbate": "mass", "material": "density", "isotherm": "isotherm"}[table]
            td2 = {"type": existing, "description": "upd"}
            if table != "isotherm":
                td2["unit"] = "u2"
            ops.append((f"{table}_type_to_db(overwrite)", f'typeToDb {table} {existing} {"u2" if table != "isotherm" else chr(34) * 2} upd T',
                        lambda p, fn=fn, td2=td2: fn(dict(td2), db_path=p, overwrite=True, verbose=False)))
            spare = "spare" if (variant >= 2 and table != "isotherm") else ("modelisotherm" if table == "isotherm" else existing)
            ops.append((f"{table}_type_delete_db", f"typeDelete {table} {spare}", lambda p, dl=dl, spare=spare: dl(spare, db_path=p, verbose=False)))
        # the entry points for isotherm property types (known finding S39 of C08: the schema has no such table; they fail on their only statement)
        tdp = {"type": "tNew", "unit": "u", "description": "d"}
        ops.append(("isotherm_property_type_to_db", "isoPropTypeOp to_db", lambda p: pgsql.isotherm_property_type_to_db(dict(tdp), db_path=p, verbose=False)))
        ops.append(("isotherm_property_type_to_db(overwrite)", "isoPropTypeOp to_db_overwrite",
                    lambda p: pgsql.isotherm_property_type_to_db(dict(tdp), db_path=p, overwrite=True, verbose=False)))
        ops.append(("isotherm_property_type_delete_db", "isoPropTypeOp delete", lambda p: pgsql.isotherm_property_type_delete_db("tNew", db_path=p, verbose=False)))
        I(BaseIsotherm(material="matA", adsorbate="adsA", temperature=120.0, user="u2", n_runs=2.5), label="isotherm_to_db(base)")
        I(iso_point("matFresh", "adsFresh", extra=True), label="isotherm_to_db(point, auto-insert material+adsorbate)")
        I(pg.ModelIsotherm(model=make(pg, "Langmuir", {"K": 2.5, "n_m": 3.5}), material="matB", adsorbate="adsFresh2", temperature=90.0),
          label="isotherm_to_db(model, auto-insert adsorbate)")
        I(BaseIsotherm(material="matNope", adsorbate="adsA", temperature=120.0), am=False, label="isotherm_to_db(refused: unknown material)")
        if variant >= 1:
            stored = stored_isos[1]             # the point isotherm uploaded by prepare()
            ops.append(("isotherm_delete_db", f"isoDelete {stored.iso_id}", lambda p, i=stored.iso_id: pgsql.isotherm_delete_db(i, db_path=p, verbose=False)))
            ops.append(("isotherm_delete_db(isotherm object)", f"isoDelete {stored_isos[0].iso_id}", lambda p, i=stored_isos[0]: pgsql.isotherm_delete_db(i, db_path=p, verbose=False)))
            I(stored, label="isotherm_to_db(refused: duplicate)")
            unknown = iso_point("matA", "adsB", extra=False)
            ops.append(("isotherm_delete_db(refused: unknown id)", f"isoDelete {unknown.iso_id}", lambda p, i=unknown.iso_id: pgsql.isotherm_delete_db(i, db_path=p, verbose=False)))
        if variant >= 2:
            ops.append(("adsorbate_delete_db(with properties)", "adsDelete adsC", lambda p: pgsql.adsorbate_delete_db("adsC", db_path=p, verbose=False)))
        return ops

    def big_isotherm(variant):
        """A point isotherm whose two data columns are each larger than SQLite's default page cache (2000 KiB): ~3 MB of JSON text per column."""
        npts = 150_000
        pr = np.linspace(1e-3, 1.0, npts) + 1e-9 * (variant + 1)
        df = pd.DataFrame({"pressure": pr, "loading": 10.0 * np.sqrt(pr)})
        return pg.PointIsotherm(isotherm_data=df, pressure_key="pressure", loading_key="loading", material="matA", adsorbate="adsA",
                                temperature=87.0 + variant, project="big")

    variants = [0, 1, 2] if thorough else [1, 2]
    lines, plan = [], []
    slot = 0
    stats = {"runs": 0, "data_fault_runs": 0, "data_faults_not_constructible": 0, "data_faults_between_statements": 0, "data_fault_max_k": 0, "small_cache_runs": 0, "hot_journals_played_back": 0, "big_upload_runs": 0, "retrievals": 0, "failing_inputs_beyond_the_first_40_of_their_clause": 0}
    default_env = ce.default_env(files.new())
    env_seen = {}          # observed environment (as sent to Drv/Pager) -> first operation that ran in it
    suspicious_ops = []

    written = {}

    def report(sig, detail):
        """ck.fail_case, at most 40 replay files per clause (a broken wrapper fails at thousands of positions; all are counted)"""
        c = sig.get("clause")
        if written.get(c, 0) >= 40:
            stats["failing_inputs_beyond_the_first_40_of_their_clause"] += 1
            return
        if ck.fail_case(sig, detail):
            written[c] = written.get(c, 0) + 1

    def retrievable(sig, path, tables):
        """`*_from_db` (the readers of the library itself, plain sqlite3) return what the tables hold: every stored item, nothing else."""
        stats["retrievals"] += 1
        try:
            isos = pgsql.isotherms_from_db(db_path=path, verbose=False)
            mats = pgsql.materials_from_db(db_path=path, verbose=False)
            adss = pgsql.adsorbates_from_db(db_path=path, verbose=False)
            types = pgsql.isotherm_types_from_db(db_path=path, verbose=False)
        except Exception as e:  # noqa
            report({**sig, "clause": "what is stored in the file can no longer be retrieved"}, {"error": f"{type(e).__name__}: {e}"[:400]})
            return
        want = (sorted((r[2], r[3], float(r[4])) for r in tables["isos"]), list(tables["mats"]), list(tables["ads"]), [r[0] for r in tables["isoTypes"]])
        got = (sorted((str(i.material), str(i.adsorbate), float(i.temperature)) for i in isos), [m.name for m in mats], [a.name for a in adss], [t["type"] for t in types])
        if got != want:
            report({**sig, "clause": "what is retrieved differs from what the file holds"}, {"retrieved": str(got)[:500], "tables": str(want)[:500]})

    def after_fault(sig, path, out, out0, before, after, n, k, kind, thunk, mem0, cache=None):
        """What is in the file now (read by an independent connection), the model-independent oracle, the retry.
        -> the table dump (or None when the file cannot be read)"""
        hot, integ_rw = ce.recover(path)
        if hot:
            stats["hot_journals_played_back"] += 1
        got, integ, fk, err = ce.safe_read(path)
        if got is None or integ_rw != [("ok",)] or integ != [("ok",)] or fk:
            report({**sig, "clause": "integrity_check / foreign_key_check"},
                         {"integrity (read-write connection)": str(integ_rw)[:400], "integrity": str(integ)[:400], "fk": str(fk)[:300], "read error": err,
                          "journal file left behind": hot})
        if got is None:
            return None
        is_before, is_after = got == before, got == after
        if not (is_before or is_after):
            report({**sig, "clause": "neither the complete effect nor none of it", "outcome": out},
                         {"diff": _diff(before, after, got), "n_statements": n, "journal file left behind": hot})
        elif out in ("parsing", "other") and not is_before:
            report({**sig, "clause": "failed call changed the database", "outcome": out}, {"diff": _diff(before, after, got)})
        elif out == "died" and is_after and not is_before and not (k == n and kind == "exitAfter") and out0 == "ok":
            report({**sig, "clause": "death before the commit left the effect in the file"}, {"diff": _diff(before, after, got)})
        # ------------------------------------------------ everything stored remains retrievable (the library's own readers; sampled in the quick tier)
        if thorough or stats["runs"] % 6 == 0:
            retrievable(sig, path, got)
        # ------------------------------------------------ the same operation can be repeated
        _reset_mem_keep(pg)
        e2 = ce.with_fault(pgsql, ce.Plan(cache=cache), lambda: thunk(path))
        out2 = sl.outcome_of(e2)
        got2, integ2, fk2, err2 = ce.safe_read(path)
        if is_before and (out2 != out0 or got2 != after):
            report({**sig, "clause": "the operation cannot be repeated after the failure", "retry_outcome": out2, "fault_free_outcome": out0},
                         {"error": repr(e2)[:300], "diff": _diff(before, after, got2) if got2 is not None else err2})
        _reset_mem(pg, mem0)
        return got

    exc_classes = ce.exception_classes(pgsql)
    exc_turn = {kind: rng.randrange(len(cl)) for kind, (_, cl) in exc_classes.items()}
    exc_used = {}

    def draw_exception(kind):
        """the exception class of this run: the classes of a kind take turns (the start depends on the seed), so that every operation meets
        every class within a few statement positions -> (class name or None, factory or None)"""
        if kind not in exc_classes:
            return None, None
        cl = exc_classes[kind][1]
        exc_turn[kind] = (exc_turn[kind] + 1) % len(cl)
        name, make_exc = cl[exc_turn[kind]]
        exc_used[name] = exc_used.get(name, 0) + 1
        return name, make_exc

    def one_fault(base, thunk, k, kind, cache):
        """-> (file after the run, outcome, name of the exception class raised instead of statement k or None)"""
        path = files.new()
        shutil.copy(base, path)
        raised, make_exc = draw_exception(kind)
        fplan = ce.Plan(k, MODEL_KIND.get(kind, kind), cache=cache, exc=make_exc)
        if kind.startswith("exit"):
            out = ce.in_child(pgsql, fplan, lambda: thunk(path))
        else:
            out = ce.outcome_of(ce.with_fault(pgsql, fplan, lambda: thunk(path)), fplan.planted)
        return path, out, raised

    # ------------------------------------------------------------------ failures provoked by the input itself: no proxy, no planted fault
    turn = {"str": rng.randrange(64), "any": rng.randrange(64), "cells": rng.randrange(64)}

    def data_faults(variant, base, base_slot, before, mem0, stored_isos):
        """Every user value of every upload / overwrite / deletion replaced, one at a time, by a value the sqlite3 driver rejects while it BINDS
        the statement (int outside 64 bit: OverflowError; lone surrogate: UnicodeEncodeError) or the module rejects between two statements
        (unsupported / unserialisable column cells): the call fails at that position of its statement sequence with an exception that is no
        sqlite3.Error.  The calls run against the REAL sqlite3 module.  Afterwards: file = before, integrity, retrievability, and the repaired
        (valid) operation succeeds with its fault-free effect.  Correspondence: the same call once more under a counting proxy gives the index
        k of the `cursor.execute` call that raised; Model/Store.lean `runOp … (k, .foreign)` of the VALID operation must agree."""
        nonlocal slot
        for spec in bf.specs(variant, stored_isos):
            try:
                valid = spec.build(pg, pgsql)
            except Exception as e:  # noqa
                ck.broken.append({"step": f"data faults: the valid operation {spec.label} cannot be built", "what": repr(e)[:300]})
                continue
            p0 = files.new()
            shutil.copy(base, p0)
            plan0 = ce.Plan()
            e0 = ce.with_fault(pgsql, plan0, lambda: valid(p0))
            n, out0 = plan0.count, ce.outcome_of(e0)
            after, _, _ = sl.read_tables(p0)
            _reset_mem(pg, mem0)
            memline = f"mem [{';'.join(mem0[0])}] [{';'.join(mem0[1])}]"
            slot += 1
            lines.extend([f"copy {base_slot} {slot}", f"use {slot}", memline, "op - " + spec.model_line])
            plan.extend([None, None, None, ("free", spec.label, out0, n, sl.dump_tables(after), spec.model_line)])
            ck.count(("fault-free", spec.label, variant, "data"), bucket="fault-free:" + out0)
            for position, accepts in spec.positions():
                choices = bf.BAD_CELLS if accepts == "cells" else bf.poisons_for(accepts)
                picked = []
                for _ in range(ck.n(1, len(choices))):
                    turn[accepts] += 1
                    picked.append(choices[turn[accepts] % len(choices)])
                for pname, value in picked:
                    where = "/".join(str(x) for x in position if x is not None)
                    sig = {"operation": spec.label, "variant": variant, "rejected value": f"{pname} {value!a}"[:60], "in place of": where}
                    try:
                        thunk = spec.build(pg, pgsql, position, value)
                    except Exception:  # noqa  (the constructor of the object refuses the value: no database call takes place)
                        thunk = None
                    if thunk is None:
                        stats["data_faults_not_constructible"] += 1
                        _reset_mem(pg, mem0)
                        continue
                    path = files.new()
                    shutil.copy(base, path)
                    try:
                        thunk(path)
                        e = None
                    except BaseException as ex:  # noqa
                        e = ex
                    out = ce.outcome_of(e)
                    stats["data_fault_runs"] += 1
                    raised = type(e).__name__ if e is not None else None
                    ck.count((spec.label, variant, where, pname, repr(value)), nontrivial=True, bucket=f"data fault:{raised or 'accepted'}",
                             sample={**sig, "outcome": out, "raised": raised} if stats["data_fault_runs"] % 41 == 0 else None)
                    sig["raised"] = raised
                    hot, integ_rw = ce.recover(path)
                    got, integ, fk, err = ce.safe_read(path)
                    if got is None or integ_rw != [("ok",)] or integ != [("ok",)] or fk:
                        report({**sig, "clause": "integrity_check / foreign_key_check"},
                               {"integrity (read-write connection)": str(integ_rw)[:400], "integrity": str(integ)[:400], "fk": str(fk)[:300], "read error": err})
                    if got is None:
                        _reset_mem(pg, mem0)
                        continue
                    if e is not None and got != before:
                        report({**sig, "clause": "failed call changed the database", "outcome": out},
                               {"error": f"{type(e).__name__}: {e}"[:200], "diff": _diff(before, after, got), "n_statements of the valid operation": n})
                    elif e is None and [len(got[t]) for t in sl.ORDER] != [len(after[t]) for t in sl.ORDER]:
                        # the value was not rejected after all: then everything handed in has to be there (as many rows per table as the valid operation stores)
                        report({**sig, "clause": "neither the complete effect nor none of it", "outcome": out},
                               {"rows per table": {t: [len(before[t]), len(got[t]), len(after[t])] for t in sl.ORDER if len(got[t]) != len(after[t])},
                                "meaning": "[before, after this call, after the valid operation]", "diff": _diff(before, after, got)})
                    retrievable(sig, path, got)
                    if e is not None and got == before:
                        # "the same operation can be repeated successfully afterwards": the user repairs the value and repeats the call (same session)
                        try:
                            valid(path)
                            e2 = None
                        except BaseException as ex:  # noqa
                            e2 = ex
                        out2 = ce.outcome_of(e2)
                        got2, _, _, err2 = ce.safe_read(path)
                        if out2 != out0 or got2 != after:
                            report({**sig, "clause": "the operation cannot be repeated after the failure", "retry_outcome": out2, "fault_free_outcome": out0},
                                   {"error": repr(e2)[:300], "diff": _diff(before, after, got2) if got2 is not None else err2})
                    _reset_mem(pg, mem0)
                    if e is None:
                        continue
                    # ---------------- which statement was it?  (counting proxy, nothing planted) -> the model's run of the valid operation
                    pathc = files.new()
                    shutil.copy(base, pathc)
                    planc = ce.Plan()
                    ec = ce.with_fault(pgsql, planc, lambda: thunk(pathc))
                    _reset_mem(pg, mem0)
                    gotc, _, _, _ = ce.safe_read(pathc)
                    if type(ec) is not type(e):
                        ck.broken.append({"step": "data faults: the call behaves differently under the counting proxy", "what": {"case": sig, "without": repr(e)[:200], "with": repr(ec)[:200]}})
                        continue
                    k = planc.raised_in if planc.raised_in is not None else planc.count
                    stats["data_faults_between_statements"] += planc.raised_in is None
                    stats["data_fault_max_k"] = max(stats["data_fault_max_k"], k)
                    if gotc is not None and k < n:
                        slot += 1
                        lines.extend([f"copy {base_slot} {slot}", f"use {slot}", memline, f"op {k}:foreign " + spec.model_line])
                        plan.extend([None, None, None, ("fault", {**sig, "k": k, "fault": "foreign (raised by the call itself)"}, ce.outcome_of(ec), n, sl.dump_tables(gotc), spec.model_line)])

    for variant in variants:
        base = files.new()
        del pg.ADSORBATE_LIST[:]
        del pg.MATERIAL_LIST[:]
        try:
            prep, stored_isos = prepare(base, variant)
        except Exception as e:  # noqa
            # the prior content consists of valid uploads into a fresh store of the tree under check; a refusal there is C08's subject
            # (reported there with the failing call) - here the fault enumeration on this content cannot be carried out
            ck.broken.append({"step": f"prior content (variant {variant}): a valid upload into a fresh store was refused", "what": repr(e)[:400]})
            continue
        base_slot = 1000 * (variant + 1)
        lines += ["reset" if variant == variants[0] else f"use {base_slot}", f"use {base_slot}"] + prep
        plan += [None] * (2 + len(prep))
        before, _, _ = sl.read_tables(base)
        mem0 = (list(map(str, pg.ADSORBATE_LIST)), list(map(str, pg.MATERIAL_LIST)))
        ops = [(label, mline, thunk, True) for (label, mline, thunk) in operations(variant, stored_isos)]
        big_at = len(ops)
        for oi in range(len(ops) + 1):
            if oi == big_at:
                # an upload larger than SQLite's default page cache (spills with the DEFAULT environment): thorough tier, or as soon as
                # some operation of this variant ran in an environment the theorems do not cover
                if not (thorough or suspicious_ops):
                    break
                big = big_isotherm(variant)
                ops.append(("isotherm_to_db(point, larger than the default page cache)", None,
                            lambda p, iso=big: pgsql.isotherm_to_db(iso, db_path=p, verbose=False), False))
            label, mline, thunk, modelled = ops[oi]
            # fault-free run: statement count n, the "after" state, and the environment the code sets up
            p0 = files.new()
            shutil.copy(base, p0)
            plan0 = ce.Plan(observe=True)
            e0 = ce.with_fault(pgsql, plan0, lambda: thunk(p0))
            n = plan0.count
            after, _, _ = sl.read_tables(p0)
            out0 = sl.outcome_of(e0)
            _reset_mem(pg, mem0)
            slot += 1
            if modelled:
                lines += [f"copy {base_slot} {slot}", f"use {slot}", f"mem [{';'.join(mem0[0])}] [{';'.join(mem0[1])}]", "op - " + mline]
                plan += [None, None, None, ("free", label, out0, n, sl.dump_tables(after), mline)]
            ck.count(("fault-free", label, variant), bucket="fault-free:" + out0)
            # ------------------------------------------------ the environment of the transaction (Model/Pager.lean `Env`)
            dev = ce.deviations(plan0, default_env)
            dev_text = [t for _, t in dev]
            one_txn = not plan0.shape and plan0.connects == 1 and plan0.commits <= 1
            for env in plan0.envs or [dict(default_env, journal_mode="unobserved")]:
                jm, sy = ce.env_token(env)
                key = (jm, sy, one_txn and not ce.autocommit_on(env))
                env_seen.setdefault(key, {"operation": label, "variant": variant, "deviations": dev_text, "trace": [t[1] for t in plan0.trace[:40]]})
            suspicious = bool(dev)          # any deviation widens the search of this operation
            if suspicious:
                suspicious_ops.append(label)
            # a deviation in a setting the model represents (journal_mode, synchronous; several transactions per call) is judged by the model below;
            # anything else the model cannot speak about: the theorems were not stated for this environment
            outside = [t for key, t in dev if key not in ce.MODELLED and key != "shape"]
            if outside and sum(1 for b in ck.broken if b["step"].startswith("correspondence transaction environment (outside")) < 3:
                ck.broken.append({"step": "correspondence transaction environment (outside Model/Pager.lean `Env`: death_atomic / power_atomic are stated for a plain connection's "
                                          "locking and transaction control)",
                                  "what": {"operation": label, "variant": variant, "deviations": outside, "environment read while the operation ran": plan0.envs,
                                           "plain connection": default_env, "transaction control / PRAGMA statements as SQLite ran them": [t[1] for t in plan0.trace[:40]]}})
            exhaustive_op = thorough or (suspicious and len(ck.violations) < 40)      # off-default environment: search everything until failing inputs are at hand
            ks = list(range(n + 1))
            if not exhaustive_op and n > 14:
                ks = sorted(set(list(range(6)) + rng.sample(range(6, n + 1), 6) + [n - 1, n]))
            if not modelled:
                ks = [k for k in ks if k >= n - 3]      # the megabytes are written by the last two statements
            caches = list(ce.CACHE_PAGES)
            for k in ks:
                # the other sqlite3.Error classes the wrapper does not translate: every position in the thorough tier / off-default, else one in three
                for kind in KINDS + (["dberror"] if exhaustive_op or rng.random() < 1 / 3 else []):
                    if k == n and not kind.startswith("exit"):
                        continue           # the commit itself is only exposed to process death
                    if not modelled and not kind.startswith("exit"):
                        continue
                    path, out, raised = one_fault(base, thunk, k, kind, None)
                    stats["runs"] += 1
                    stats["big_upload_runs"] += 0 if modelled else 1
                    sig = {"operation": label, "k": k if k < n else "commit", "fault": kind, "variant": variant}
                    if raised:
                        sig["raised instead of the statement"] = raised
                    ck.count((label, k, kind, variant), nontrivial=True, bucket=f"fault:{kind}:{out}",
                             sample={**sig, "n_statements": n, "outcome": out} if stats["runs"] % 173 == 0 else None)
                    got = after_fault(sig, path, out, out0, before, after, n, k, kind, thunk, mem0)
                    slot += 1
                    if modelled and got is not None:
                        lines += [f"copy {base_slot} {slot}", f"use {slot}", f"mem [{';'.join(mem0[0])}] [{';'.join(mem0[1])}]", f"op {k}:{MODEL_KIND.get(kind, kind)} " + mline]
                        plan += [None, None, None, ("fault", sig, out, n, sl.dump_tables(got), mline)]
                # ------------------------------------------------ the same position with a small page cache: SQLite spills dirty pages into the file
                # before the commit (what it does by itself on large uploads); the two deaths, and one statement fault
                if not modelled:
                    continue
                for cache in (caches if exhaustive_op else rng.sample(caches, ck.n(1, len(caches)))):
                    kinds = ["exitBefore", "exitAfter"]
                    if k < n:
                        kinds += (STATEMENT_KINDS + ["dberror"] if exhaustive_op else [rng.choice(STATEMENT_KINDS)])
                    for kind in kinds:
                        path, out, raised = one_fault(base, thunk, k, kind, cache)
                        stats["runs"] += 1
                        stats["small_cache_runs"] += 1
                        sig = {"operation": label, "k": k if k < n else "commit", "fault": kind, "variant": variant, "page_cache_pages": cache}
                        if raised:
                            sig["raised instead of the statement"] = raised
                        ck.count((label, k, kind, variant, cache), nontrivial=True, bucket=f"fault(small cache):{kind}:{out}")
                        after_fault(sig, path, out, out0, before, after, n, k, kind, thunk, mem0, cache=cache)
        data_faults(variant, base, base_slot, before, mem0, stored_isos)
    n_runs = stats["runs"]
    # ------------------------------------------------------------------ the observed environments against the pager model
    env_keys = sorted(env_seen, key=str)
    try:
        env_replies = ck.drive("Pager", [f"env {jm} {sy} {'T' if one else 'F'}" for (jm, sy, one) in env_keys])
    except Exception as e:
        env_replies = None
        ck.broken.append({"step": "driver Pager", "what": str(e)[:600]})
    verdicts = {}
    for key, rep in zip(env_keys, env_replies or []):
        verdicts[f"journal_mode={key[0]} synchronous={key[1]} one_transaction={key[2]}"] = rep
        if rep != "death=atomic power=atomic":
            ck.broken.append({"step": "correspondence transaction environment (Drv/Pager.lean: Env.deathSafe / Env.powerSafe of the environment the code sets up)",
                              "what": {"environment": {"journal_mode": key[0], "synchronous": key[1], "one_transaction_per_call": key[2]}, "model": rep,
                                       "first seen in": env_seen[key]}})
    ck.cov["transaction_environments"] = {"plain_connection": default_env, "observed -> model verdict": verdicts, "operations_off_default": sorted(set(suspicious_ops))[:20]}
    # ------------------------------------------------------------------ correspondence with the Lean model (incl. statement counts)
    try:
        replies = ck.drive("Store", lines)
    except Exception as e:
        replies = None
        ck.broken.append({"step": "driver Store", "what": str(e)[:600]})
    n_dis = 0
    if replies:
        for pl, rep in zip(plan, replies):
            if pl is None:
                continue
            tag, sig, out, n, dump, mline = pl
            mo, mn, mdump, _, _ = sl.parse_reply(rep)
            ok = mo == out and sl.norm_dump(mdump) == sl.norm_dump(dump) and (tag != "free" or mn == n)
            if not ok:
                n_dis += 1
                if n_dis <= 3:
                    ck.broken.append({"step": "correspondence Model/Store.lean (fault run)" if tag == "fault" else "correspondence Model/Store.lean (statement count / fault-free run)",
                                      "what": {"case": sig, "op": mline[:200], "implementation": [out, n, dump[:300]], "model": [mo, mn, mdump[:300]]}})
    ck.cov["fault_runs"] = n_runs
    ck.cov["fault_run_statistics"] = stats
    ck.cov["correspondence_disagreements"] = n_dis
    ck.cov["exhaustive"] = bool(thorough)
    ck.cov["rule"] = ("every public write operation (adsorbate/material upload new + overwrite, deletions, the 9 property/isotherm-type functions, isotherm upload of the three classes with and "
                      "without auto-insert, refused uploads, isotherm deletion by id / by object / of an unknown id, the 3 isotherm-property-type entry points) x every statement index k (thorough, or the operation ran in an environment off a plain connection's defaults: "
                      "all 0..n; quick: first 6, last 2 and 6 sampled when n > 14) x 7 fault kinds (IntegrityError, InterfaceError, OperationalError, an Exception outside sqlite3.Error, a BaseException that is no Exception "
                      "- classes taking turns -, exit before / after; quick: another untranslated sqlite3.Error class at one position in three; commit: the two exits) x prior-content variants, with SQLite's default page cache; the same "
                      "positions with a page cache of 1 / 4 / 10 pages (quick: one size drawn per position, the two deaths + one statement fault; thorough / off-default: all sizes, all kinds); "
                      "thorough / off-default: deaths around the last statements of an upload larger than the default cache; each run followed by an independent read-write open "
                      "(journal playback), integrity_check, foreign_key_check, table comparison, retrieval through *_from_db (quick: every 6th run) and a fault-free retry; distinct = (operation, k, fault kind, variant[, cache size]); "
                      "data faults: 12-13 valid operations per variant x every position of a user value x values the driver / the module rejects (quick: one value per position, taking turns; thorough: all 8 / 3 / 2), "
                      "no proxy; then integrity, table comparison, retrieval, the repaired operation; distinct = (operation, variant, position, value)")
    ck.cov["exception_classes_raised_instead_of_a_statement"] = dict(sorted(exc_used.items()))
    ck.assumptions += ["SQLite's rollback journal / fsync / torn pages and death inside sqlite3_step are SQLite's contract, modelled in Model/Pager.lean (journal-before-overwrite, playback of a "
                       "hot journal by the next connection) and exercised with process death between statements and around commit under page caches of 1 / 4 / 10 pages and the default; "
                       "power loss (unsynced writes lost) is covered by the model (`power_atomic`, needs synchronous >= NORMAL, which the harness reads from the live connection) but not exercised"]


def _reset_mem(pg, mem0):
    """Process-global lists back to their state before the call (a failed call in a real session would have polluted them: S12)."""
    pg.ADSORBATE_LIST[:] = [a for a in pg.ADSORBATE_LIST if str(a) in mem0[0]][:len(mem0[0])]
    pg.MATERIAL_LIST[:] = [m for m in pg.MATERIAL_LIST if str(m) in mem0[1]][:len(mem0[1])]


def _reset_mem_keep(pg):
    """The retry happens in the SAME session: the lists keep whatever the failed call appended."""
    return None


def _diff(before, after, got):
    out = {}
    for k in sl.ORDER:
        if got[k] != before[k] and got[k] != after[k]:
            out[k] = {"before": before[k][-3:], "after": after[k][-3:], "got": got[k][-4:]}
        elif got[k] != before[k]:
            out[k] = "= after"
    return out
