"""C09 — database operations are atomic under statement failures and process death.

Lean: Props/C09.lean (about `runOp` of Model/Store.lean: a failed call leaves the committed file unchanged for every
operation, statement index and fault kind; death commits nothing unless it happens after the commit; a call that
returns normally committed the fault-free effect, except for the swallowed IntegrityError inside overwrite = S28).
Tie: EXHAUSTIVE fault enumeration on the real code — every public write operation x every `cursor.execute` index
k = 0..n (n = the commit) x {IntegrityError, InterfaceError, OperationalError raised by statement k; process exit before /
after statement k; exit just before / after commit} on databases with prior content.  `pygaps.parsing.sqlite.sqlite3`
is replaced in this process by a counting proxy (exits run in a forked child).  After every run the file is read
through an independent connection and compared with the model's committed state; then the operation is repeated.
Model-independent oracle: tables ∈ {before, fault-free after}, integrity_check / foreign_key_check clean, prior rows
intact, retry outcome = fault-free outcome.
"""
import copy
import shutil

import c08
from pgv import storelib as sl
from pgv.core import import_pygaps
from pgv.models import make

KINDS = ["integrity", "interface", "operational", "exitBefore", "exitAfter"]


def run(ck):
    pg = import_pygaps()
    import pygaps.parsing.sqlite as pgsql
    files = sl.Files(pg)
    try:
        _run(ck, pg, pgsql, files)
    finally:
        files.close()


def _run(ck, pg, pgsql, files):
    import numpy as np
    import pandas as pd
    from pygaps.core.baseisotherm import BaseIsotherm
    rng = ck.rng
    thorough = ck.tier == "thorough"

    # ------------------------------------------------------------------ prior content (several variants)
    def iso_point(mat, ads, extra=False):
        df = pd.DataFrame({"pressure": [0.1, 0.5, 0.9, 0.4], "loading": [1.0, 2.0, 3.0, 2.5]})
        if extra:
            df["enth"] = [5.0, 6.0, 7.0, 8.0]
        return pg.PointIsotherm(isotherm_data=df, pressure_key="pressure", loading_key="loading", material=mat, adsorbate=ads,
                                temperature=77.0, project="p1", t_act=350.5, flag=True)

    def prepare(path, variant):
        lines = []
        steps = []

        def do(kind, *a):
            steps.append((kind, a))
        for t in ("isotherm", "pointisotherm", "modelisotherm"):
            do("type", "isotherm", t)
        do("ads", "adsA", {"formula": "A2", "mass": 28.0, "alias": ["adsA", "aa"]})
        do("ads", "adsB", {"mass": 44.0})
        do("mat", "matA", {"density": 2.5, "batch": "b1"})
        do("mat", "matB", {})
        if variant >= 1:
            do("iso", BaseIsotherm(material="matA", adsorbate="adsA", temperature=100.0, user="u1"))
            do("iso", iso_point("matA", "adsB", extra=True))
        if variant >= 2:
            do("mat", "matC", {"density": 1.1, "comment": "c"})
            do("type", "adsorbate", "spare")
            do("type", "material", "spare")
        for kind, a in steps:
            if kind == "type":
                table, t = a
                fn = {"adsorbate": pgsql.adsorbate_property_type_to_db, "material": pgsql.material_property_type_to_db, "isotherm": pgsql.isotherm_type_to_db}[table]
                fn({"type": t}, db_path=path, verbose=False)
                lines.append(f'op - typeToDb {table} {t} "" "" F')
            elif kind == "ads":
                o = pg.Adsorbate(a[0], **copy.deepcopy(a[1]))
                pgsql.adsorbate_to_db(o, db_path=path, verbose=False)
                full = dict(o.to_dict())
                full.pop("name")
                lines.append(" ".join(["op - adsToDb", a[0], "T", "F"] + sl.props_tokens(full)))
            elif kind == "mat":
                o = pg.Material(a[0], **copy.deepcopy(a[1]))
                pgsql.material_to_db(o, db_path=path, verbose=False)
                full = dict(o.to_dict())
                full.pop("name")
                lines.append(" ".join(["op - matToDb", a[0], "T", "F"] + sl.props_tokens(full)))
            else:
                pgsql.isotherm_to_db(a[0], db_path=path, verbose=False)
                lines.append("op - " + sl.iso_line(sl.iso_description(pg, a[0]), True, True))
        return lines

    # ------------------------------------------------------------------ the write operations under test
    def operations(variant):
        ops = []

        def A(name, props, overwrite=False, autoins=True):
            o = pg.Adsorbate(name, **copy.deepcopy(props))
            full = dict(o.to_dict())
            full.pop("name")
            ops.append((f"adsorbate_to_db({'overwrite' if overwrite else 'new'})",
                        " ".join(["adsToDb", name, "T" if autoins else "F", "T" if overwrite else "F"] + sl.props_tokens(full)),
                        lambda p, o=o: pgsql.adsorbate_to_db(o, db_path=p, overwrite=overwrite, autoinsert_properties=autoins, verbose=False)))

        def M(name, props, overwrite=False, autoins=True):
            o = pg.Material(name, **copy.deepcopy(props))
            full = dict(o.to_dict())
            full.pop("name")
            ops.append((f"material_to_db({'overwrite' if overwrite else 'new'})",
                        " ".join(["matToDb", name, "T" if autoins else "F", "T" if overwrite else "F"] + sl.props_tokens(full)),
                        lambda p, o=o: pgsql.material_to_db(o, db_path=p, overwrite=overwrite, autoinsert_properties=autoins, verbose=False)))

        def I(iso, am=True, aa=True, label="isotherm_to_db"):
            d = sl.iso_description(pg, iso)
            ops.append((label, sl.iso_line(d, am, aa), lambda p, iso=iso: pgsql.isotherm_to_db(iso, db_path=p, autoinsert_material=am, autoinsert_adsorbate=aa, verbose=False)))
        A("adsNew", {"mass": 16.0, "alias": ["adsNew", "nn"], "newprop": "x"})
        A("adsA", {"mass": 29.0, "other": "y"}, overwrite=True)
        A("adsB", {}, overwrite=True)
        M("matNew", {"density": 3.3, "fresh": "z", "tags": ["t1", "t2"]})
        M("matA", {"density": 2.6}, overwrite=True)
        M("matB", {"density": 0.9}, overwrite=True)          # overwrite of an item without properties: the swallowed "nothing to delete"
        ops.append(("adsorbate_delete_db", "adsDelete adsB" if variant == 0 else "adsDelete adsNone", None))
        ops.append(("material_delete_db", "matDelete matB", lambda p: pgsql.material_delete_db("matB", db_path=p, verbose=False)))
        ops[-2] = ("adsorbate_delete_db", "adsDelete adsA" if variant == 0 else "adsDelete adsB",
                   (lambda p: pgsql.adsorbate_delete_db("adsA", db_path=p, verbose=False)) if variant == 0 else
                   (lambda p: pgsql.adsorbate_delete_db("adsB", db_path=p, verbose=False)))
        if variant >= 1:
            ops[-2] = ("adsorbate_delete_db", "adsDelete adsB", lambda p: pgsql.adsorbate_delete_db("adsB", db_path=p, verbose=False))   # refused: referenced
        for table, fn, dl in (("adsorbate", pgsql.adsorbate_property_type_to_db, pgsql.adsorbate_property_type_delete_db),
                              ("material", pgsql.material_property_type_to_db, pgsql.material_property_type_delete_db),
                              ("isotherm", pgsql.isotherm_type_to_db, pgsql.isotherm_type_delete_db)):
            td = {"type": "tNew", "description": "d"}
            if table != "isotherm":
                td["unit"] = "u"
            ops.append((f"{table}_type_to_db", f'typeToDb {table} tNew {"u" if table != "isotherm" else chr(34) * 2} d F', lambda p, fn=fn, td=td: fn(dict(td), db_path=p, verbose=False)))
            existing = {"adsorbate": "mass", "material": "density", "isotherm": "isotherm"}[table]
            td2 = {"type": existing, "description": "upd"}
            if table != "isotherm":
                td2["unit"] = "u2"
            ops.append((f"{table}_type_to_db(overwrite)", f'typeToDb {table} {existing} {"u2" if table != "isotherm" else chr(34) * 2} upd T',
                        lambda p, fn=fn, td2=td2: fn(dict(td2), db_path=p, overwrite=True, verbose=False)))
            spare = "spare" if (variant >= 2 and table != "isotherm") else ("modelisotherm" if table == "isotherm" else existing)
            ops.append((f"{table}_type_delete_db", f"typeDelete {table} {spare}", lambda p, dl=dl, spare=spare: dl(spare, db_path=p, verbose=False)))
        I(BaseIsotherm(material="matA", adsorbate="adsA", temperature=120.0, user="u2", n_runs=2.5), label="isotherm_to_db(base)")
        I(iso_point("matFresh", "adsFresh", extra=True), label="isotherm_to_db(point, auto-insert material+adsorbate)")
        I(pg.ModelIsotherm(model=make(pg, "Langmuir", {"K": 2.5, "n_m": 3.5}), material="matB", adsorbate="adsFresh2", temperature=90.0),
          label="isotherm_to_db(model, auto-insert adsorbate)")
        I(BaseIsotherm(material="matNope", adsorbate="adsA", temperature=120.0), am=False, label="isotherm_to_db(refused: unknown material)")
        if variant >= 1:
            stored = iso_point("matA", "adsB", extra=True)
            ops.append(("isotherm_delete_db", f"isoDelete {stored.iso_id}", lambda p, i=stored.iso_id: pgsql.isotherm_delete_db(i, db_path=p, verbose=False)))
            I(stored, label="isotherm_to_db(refused: duplicate)")
        return ops

    variants = [0, 1, 2] if thorough else [1, 2]
    lines, plan = [], []
    slot = 0
    n_runs = 0
    for variant in variants:
        base = files.new()
        del pg.ADSORBATE_LIST[:]
        del pg.MATERIAL_LIST[:]
        try:
            prep = prepare(base, variant)
        except Exception as e:  # noqa
            # the prior content consists of valid uploads into a fresh store of the tree under check; a refusal there is C08's subject
            # (reported there with the failing call) - here the fault enumeration on this content cannot be carried out
            ck.broken.append({"step": f"prior content (variant {variant}): a valid upload into a fresh store was refused", "what": repr(e)[:400]})
            continue
        base_slot = 1000 * (variant + 1)
        lines += ["reset" if variant == variants[0] else f"use {base_slot}", f"use {base_slot}"] + prep
        plan += [None] * (2 + len(prep))
        before, _, _ = sl.read_tables(base)
        mem0 = (list(map(str, pg.ADSORBATE_LIST)), list(map(str, pg.MATERIAL_LIST)))
        for (label, mline, thunk) in operations(variant):
            # fault-free run: statement count n and the "after" state
            p0 = files.new()
            shutil.copy(base, p0)
            plan0 = sl.Plan()
            e0 = sl.with_fault(pgsql, plan0, lambda: thunk(p0))
            n = plan0.count
            after, _, _ = sl.read_tables(p0)
            out0 = sl.outcome_of(e0)
            _reset_mem(pg, mem0)
            slot += 1
            lines += [f"copy {base_slot} {slot}", f"use {slot}", f"mem [{';'.join(mem0[0])}] [{';'.join(mem0[1])}]", "op - " + mline]
            plan += [None, None, None, ("free", label, out0, n, sl.dump_tables(after), mline)]
            ck.count(("fault-free", label, variant), bucket="fault-free:" + out0)
            ks = list(range(n + 1))
            if not thorough and n > 14:
                ks = sorted(set(list(range(6)) + rng.sample(range(6, n + 1), 6) + [n - 1, n]))
            for k in ks:
                for kind in KINDS:
                    if k == n and kind in ("integrity", "interface", "operational"):
                        continue           # the commit itself is only exposed to process death
                    path = files.new()
                    shutil.copy(base, path)
                    fplan = sl.Plan(k, kind)
                    if kind.startswith("exit"):
                        out = sl.in_child(pgsql, fplan, lambda: thunk(path))
                    else:
                        e = sl.with_fault(pgsql, fplan, lambda: thunk(path))
                        out = sl.outcome_of(e)
                    got, integ, fk = sl.read_tables(path)
                    n_runs += 1
                    sig = {"operation": label, "k": k if k < n else "commit", "fault": kind, "variant": variant}
                    ck.count((label, k, kind, variant), nontrivial=True, bucket=f"fault:{kind}:{out}",
                             sample={**sig, "n_statements": n, "outcome": out} if n_runs % 173 == 0 else None)
                    # ------------------------------------------------ model-independent oracle
                    is_before, is_after = got == before, got == after
                    if integ != [("ok",)] or fk:
                        ck.fail_case({**sig, "clause": "integrity_check / foreign_key_check"}, {"integrity": str(integ), "fk": str(fk)})
                    if not (is_before or is_after):
                        ck.fail_case({**sig, "clause": "neither the complete effect nor none of it", "outcome": out},
                                     {"diff": _diff(before, after, got), "n_statements": n})
                    elif out in ("parsing", "other") and not is_before:
                        ck.fail_case({**sig, "clause": "failed call changed the database", "outcome": out}, {"diff": _diff(before, after, got)})
                    elif out == "died" and is_after and not is_before and not (k == n and kind == "exitAfter") and out0 == "ok":
                        ck.fail_case({**sig, "clause": "death before the commit left the effect in the file"}, {"diff": _diff(before, after, got)})
                    # ------------------------------------------------ the same operation can be repeated
                    _reset_mem_keep(pg)
                    e2 = sl.with_fault(pgsql, sl.Plan(), lambda: thunk(path))
                    out2 = sl.outcome_of(e2)
                    got2, integ2, fk2 = sl.read_tables(path)
                    if is_before and (out2 != out0 or got2 != after):
                        ck.fail_case({**sig, "clause": "the operation cannot be repeated after the failure", "retry_outcome": out2, "fault_free_outcome": out0},
                                     {"error": repr(e2)[:300], "diff": _diff(before, after, got2)})
                    _reset_mem(pg, mem0)
                    slot += 1
                    lines += [f"copy {base_slot} {slot}", f"use {slot}", f"mem [{';'.join(mem0[0])}] [{';'.join(mem0[1])}]", f"op {k}:{kind} " + mline]
                    plan += [None, None, None, ("fault", sig, out, n, sl.dump_tables(got), mline)]
    # ------------------------------------------------------------------ correspondence with the Lean model (incl. statement counts)
    try:
        replies = ck.drive("Store", lines)
    except Exception as e:
        replies = None
        ck.broken.append({"step": "driver Store", "what": str(e)[:600]})
    n_dis = 0
    if replies:
        for pl, rep in zip(plan, replies):
            if pl is None:
                continue
            tag, sig, out, n, dump, mline = pl
            mo, mn, mdump, _, _ = sl.parse_reply(rep)
            ok = mo == out and sl.norm_dump(mdump) == sl.norm_dump(dump) and (tag != "free" or mn == n)
            if not ok:
                n_dis += 1
                if n_dis <= 3:
                    ck.broken.append({"step": "correspondence Model/Store.lean (fault run)" if tag == "fault" else "correspondence Model/Store.lean (statement count / fault-free run)",
                                      "what": {"case": sig, "op": mline[:200], "implementation": [out, n, dump[:300]], "model": [mo, mn, mdump[:300]]}})
    ck.cov["fault_runs"] = n_runs
    ck.cov["correspondence_disagreements"] = n_dis
    ck.cov["exhaustive"] = bool(thorough)
    ck.cov["rule"] = ("every public write operation (adsorbate/material upload new + overwrite, deletions, the 9 property/isotherm-type functions, isotherm upload of the three classes with and "
                      "without auto-insert, refused uploads, isotherm deletion) x every statement index k (thorough: all 0..n; quick: first 6, last 2 and 6 sampled when n > 14) x 5 fault "
                      "kinds (commit: the two exits) x prior-content variants; each followed by a fault-free retry; distinct = (operation, k, fault kind, variant)")
    ck.assumptions += ["SQLite's rollback journal / fsync / torn pages and death inside sqlite3_step are SQLite's contract (exits are injected between statements and around commit only)"]


def _reset_mem(pg, mem0):
    """Process-global lists back to their state before the call (a failed call in a real session would have polluted them: S12)."""
    pg.ADSORBATE_LIST[:] = [a for a in pg.ADSORBATE_LIST if str(a) in mem0[0]][:len(mem0[0])]
    pg.MATERIAL_LIST[:] = [m for m in pg.MATERIAL_LIST if str(m) in mem0[1]][:len(mem0[1])]


def _reset_mem_keep(pg):
    """The retry happens in the SAME session: the lists keep whatever the failed call appended."""
    return None


def _diff(before, after, got):
    out = {}
    for k in sl.ORDER:
        if got[k] != before[k] and got[k] != after[k]:
            out[k] = {"before": before[k][-3:], "after": after[k][-3:], "got": got[k][-4:]}
        elif got[k] != before[k]:
            out[k] = "= after"
    return out
