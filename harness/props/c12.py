"""C12 — model fitting is self-consistent.

Lean: Props/C12.lean over Model/Fit.lean (error definition, clamp of the initial guess, best-of-list rule, branch selection — run at ℚ
against the real code) and Gen/ModelsR.lean (unit-scaling laws of the generated model equations, exact data ⇒ the generator is a global
minimiser with error 0).  The optimiser is numerical: each fit is decided by the oracle below on the real classes.
Props/C12/Guess.lean: the whole loop of `ModelIsotherm.guess` (`guessIdx`: candidates in the order tried, refused fits leave no attempt) —
fed in BOTH tiers with the list of (converged?, reported error) in candidate order for every entry point (`ModelIsotherm.guess` on arrays
and on a DataFrame, `from_pointisotherm`, `modelling.model_iso`, `pygaps.model_iso` when exported) and compared with the candidate returned;
error-from-cost (`costErrSq`) differs from the reported error for every robust loss.

Quantifier of the oracles: every clause is exercised with the documented pass-through arguments (`optimization_params`: loss, f_scale,
max_nfev, ftol/xtol/gtol, method, x_scale, jac, tr_solver, verbose, Virial `add_point` - alone and in the dictionary shared by a list of
candidates; `param_guess` for all or some of the parameters; `param_bounds` that are ACTIVE, i.e. exclude the unconstrained optimum;
`verbose` with every model, also in lists), on either branch, through every constructor / entry point.
"""
import math

from pgv.charlib import optq, q, qlist, quiet_logging
from pgv.core import import_pygaps
from pgv.models import REL_ONLY, logu, make, relerr, sample_params

WELL = ["Henry", "Langmuir", "DSLangmuir", "BET", "Freundlich", "DR", "DA", "TemkinApprox", "Toth", "JensenSeaton"]
ALL = WELL + ["TSLangmuir", "GAB", "Quadratic", "Virial", "FHVST", "WVST"]
P_UNITS = {"bar": 1e5, "Pa": 1.0, "kPa": 1e3, "atm": 101325.0, "torr": 101325.0 / 760}
L_UNITS = {"mmol": 1e-3, "mol": 1.0, "kmol": 1e3}


def run(ck):
    pg = import_pygaps()
    import numpy as np
    import pandas as pd
    from pygaps.modelling import _GUESS_MODELS, get_isotherm_model
    from pygaps.utilities.exceptions import CalculationError, ParameterError
    quiet_logging()
    np.seterr(all="ignore")
    rng = ck.rng
    thorough = ck.tier == "thorough"
    N = ck.n(8, 40)
    worst = {}
    lines, plan = [], []

    import time
    laps, t_last = {}, [time.time()]

    def lap(label):
        laps[label] = round(time.time() - t_last[0], 2)
        t_last[0] = time.time()

    def note(k, v):
        worst[k] = max(worst.get(k, 0.0), v)
        return v

    def grid(name, par, n):
        """a well-posed sampling grid: from low coverage up to near saturation / the validity limit"""
        if name == "BET":
            return np.array(sorted(rng.uniform(0.005, 0.9) / par["N"] for _ in range(n)))
        if name in REL_ONLY:
            return np.array(sorted([logu(rng, 1e-6, 1e-3), rng.uniform(0.5, 0.99), rng.uniform(0.1, 0.5)] + [logu(rng, 1e-5, 0.99) for _ in range(n - 3)]))
        ks = [v for kk, v in par.items() if kk.startswith("K")] or [1.0]
        k_hi = max(ks)
        # several sites (DS / TS Langmuir): low coverage of the strongest site up to near saturation of the WEAKEST one - with the range of the
        # strongest site only, the dominant weak site stays in its Henry regime and four or six parameters are fitted to a straight line
        k_lo = min(ks) if name in ("DSLangmuir", "TSLangmuir") else k_hi
        if name == "JensenSeaton":
            k_hi = k_lo = par["K"] / par["a"]
        # one point at low coverage, one near saturation (without it 8 log-uniform points stay below K p = 2 in 4 % of the draws: such data do
        # not determine a three-parameter model and the fit is not well-posed), the rest anywhere in between
        return np.array(sorted([logu(rng, 1e-3, 1e-2) / k_hi, logu(rng, 10, 50) / k_lo] + [logu(rng, 1e-2 / k_hi, 50 / k_lo) for _ in range(n - 2)]))

    def common(name, pu="bar", lu="mmol"):
        rel = name in REL_ONLY
        return dict(material="pgv-synth", adsorbate="N2", temperature=77.355 if rel else 300.0, pressure_mode="relative" if rel else "absolute",
                    pressure_unit=None if rel else pu, loading_basis="molar", loading_unit=lu, material_basis="mass", material_unit="g", temperature_unit="K")

    def predict(model, ps, ld):
        return np.asarray(model.loading(ps), dtype=float) if model.calculates == "loading" else np.asarray(model.pressure(ld), dtype=float)

    LOSSES = ["linear", "soft_l1", "huber", "cauchy", "arctan"]

    def sample_options(res_scale, p_any=0.6, one_param=True):
        """documented pass-through to scipy.optimize.least_squares (every option that is allowed together with bounds);
        `res_scale` = size of a typical residual, so that a robust loss really bends.
        `one_param`: a one-parameter model (Henry) may receive the options: scipy 1.18 `least_squares(method='trf', tr_solver='lsmr')` raises
        IndexError for a single variable whenever its first trust-region step is not the Gauss-Newton step (reproduced without pyGAPS:
        least_squares(lambda x: x[0]*p - l, [1e-3], bounds=([0], [inf]), tr_solver='lsmr')), so 'lsmr' then comes with method='dogbox' only.
        Triage T-C12 item 7: an option combination that scipy itself cannot run is outside "models with a well-posed fit"; no clause of C12
        speaks about a fit that was never made (not a finding of pyGAPS, the region stays out)."""
        if rng.random() > p_any:
            return None
        o = {}
        if rng.random() < 0.65:
            o["loss"] = rng.choice(LOSSES)
            if o["loss"] != "linear" or rng.random() < 0.3:
                o["f_scale"] = float(res_scale * logu(rng, 0.1, 10))
        if rng.random() < 0.35:
            o["max_nfev"] = rng.choice([300, 1000, 3000])      # larger budgets only make the slow models (TSLangmuir, GAB, WVST) take seconds per fit
        if rng.random() < 0.3:
            o[rng.choice(["ftol", "xtol", "gtol"])] = rng.choice([1e-6, 1e-10, 1e-12])
        if rng.random() < 0.3:
            # (method='dogbox' stays out: when the residuals become NaN scipy's dogbox keeps calling numpy.linalg.lstsq on a NaN Jacobian -
            #  LAPACK "DLASCL parameter 4 illegal", seconds per iteration - until max_nfev: one fit then takes over an hour (seen at
            #  PGV_BOOST=2 VERIF_SEED=2); a property of scipy, no clause of C12 is about it)
            o["method"] = "trf"
        if rng.random() < 0.2:
            o["x_scale"] = "jac"
        if rng.random() < 0.2:
            o["jac"] = rng.choice(["2-point", "3-point"])
        if rng.random() < 0.15:
            o["tr_solver"] = "exact" if one_param else rng.choice(["exact", "lsmr"])
        if rng.random() < 0.15:
            o["verbose"] = 0
        return o or None

    def cp(o):
        """a fresh copy for every call (Virial.fit pops `add_point` from the caller's dictionary)"""
        return dict(o) if o else None

    def partial_guess(g):
        """a starting guess for SOME of the parameters (the documented `param_guess` is a dictionary; nothing requires every key): in 35 % of
        the guesses one to all-but-one entries are kept"""
        if len(g) < 2 or rng.random() > 0.35:
            return g
        keep = rng.sample(sorted(g), rng.randint(1, len(g) - 1))
        return {k: g[k] for k in sorted(g) if k in keep}

    import scipy.optimize as _so

    def start_vector(fn):
        """the x0 that the library hands to scipy.optimize.least_squares during fn() (None when the optimiser is never reached); the outcome
        of fn() itself is not looked at here"""
        seen, orig = [], _so.least_squares

        def rec(*a, **k):
            seen.append(np.array(k["x0"] if "x0" in k else a[1], dtype=float).copy())
            return orig(*a, **k)
        _so.least_squares = rec
        try:
            fn()
        except Exception:  # noqa
            pass
        finally:
            _so.least_squares = orig
        return seen[0] if seen else None

    def start_is_the_guess(name, make_iso, kw, sig, detail):
        """where the caller gives a starting guess the fit starts there, elsewhere at the model's default guess (Model/Fit.startGuess; the
        default is observed on the same call without `param_guess`)"""
        names = list(get_isotherm_model(name).param_names)
        user = [kw["param_guess"].get(k) for k in names]
        quiet = {k: v for k, v in kw.items() if k != "verbose"}
        x0 = start_vector(lambda: make_iso({k: (dict(v) if isinstance(v, dict) else v) for k, v in quiet.items()}))
        x0d = start_vector(lambda: make_iso({k: (dict(v) if isinstance(v, dict) else v) for k, v in quiet.items() if k != "param_guess"}))
        if x0 is None or x0d is None or len(x0) != len(names) or len(x0d) != len(names):
            return
        ck.count(("start", name, tuple(user)), nontrivial=False, bucket="start vector of a fit with a " + ("partial" if None in user else "complete") + " guess")
        want = [x0d[j] if user[j] is None else float(user[j]) for j in range(len(names))]
        if not all(float(a) == float(b) for a, b in zip(x0, want)):
            ck.fail_case({**sig, "clause": "the fit does not start from the caller's guess (where given) and the default guess (elsewhere)"},
                         {**detail, "parameters": names, "start_vector": x0.tolist(), "default_guess": x0d.tolist(), "caller_guess": user})
        if np.all(np.isfinite(x0)) and np.all(np.isfinite(x0d)):
            lines.append(f"start {qlist(x0d)} [{';'.join(optq(u) for u in user)}]")
            plan.append(("start", [float(v) for v in x0], None, None, None))

    def badly_scaled(ps, ld):
        """known finding S33: least_squares with unscaled variables and an absolute gtol stops early when the numbers are badly scaled"""
        return bool(not (1e-2 <= float(np.max(ld)) <= 1e4) or not (1e-2 <= float(np.max(ps)) <= 1e4))

    DECADES = [(0, 0), (1, 0), (0, 1), (-1, 0), (0, -1), (1, 1), (-1, -1)]

    def reproduced_in_other_units(name, ps, ld, identity_too=False):
        """control experiment for a fit that misses exact model data: the SAME data in other units - powers of ten that bring the largest pressure
        and loading to [1, 10), and one decade around that.  If one of those fits reproduces the data, the miss is the unit dependence of the
        optimiser call (root cause of known finding S33: unscaled variables, absolute gtol, default guesses that depend on the unit), not the
        fitting logic.  The scaling that leaves the data unchanged is the failing fit itself and proves nothing (skipped unless `identity_too`)."""
        b_l = 10.0 ** (-math.floor(math.log10(float(np.max(ld)))))
        b_p = 1.0 if name in REL_ONLY else 10.0 ** (-math.floor(math.log10(float(np.max(ps)))))
        for i, j in DECADES:
            s_p, s_l = (1.0 if name in REL_ONLY else b_p * 10.0 ** i), b_l * 10.0 ** j
            if s_p == 1.0 and s_l == 1.0 and not identity_too:
                continue
            try:
                m2 = pg.ModelIsotherm(pressure=ps * s_p, loading=ld * s_l, model=name, **common(name))
                e2 = float(np.max(np.abs(predict(m2.model, ps * s_p, ld * s_l) - (ld * s_l if m2.model.calculates == "loading" else ps * s_p)))) / float(np.ptp(ld * s_l))
                if e2 <= 2e-3:
                    return True
            except Exception:  # noqa
                pass
        return False

    def cured_by_rescaling(name, ps, ld):
        return reproduced_in_other_units(name, ps, ld)

    def close_figures():
        try:
            import matplotlib.pyplot as plt
            plt.close("all")
        except Exception:
            pass

    def reported_error_ok(m_iso, ps, ld, sig, detail):
        """the error reported equals the actual root-mean-square deviation, normalised as documented"""
        model = m_iso.model
        if model.name == "Virial":
            keep = (ps > 0) & (ld > 0)
            p2, l2 = ps[keep], ld[keep]
            lnpn = np.log(p2 / l2)
            frac = l2 / max(l2)
            if len(frac[frac < 0.5]) < 3:
                lnpn, l2 = np.hstack([lnpn[0], lnpn]), np.hstack([1e-1, l2])
            par = model.params
            res = par["C"] * l2 ** 3 + par["B"] * l2 ** 2 + par["A"] * l2 - np.log(par["K"]) - lnpn
            rng_ = None
        elif model.calculates == "loading":
            res, rng_ = np.asarray(model.loading(ps), dtype=float) - ld, float(max(ld) - min(ld))
        else:
            res, rng_ = np.asarray(model.pressure(ld), dtype=float) - ps, float(max(ps) - min(ps))
        actual = math.sqrt(float(np.sum(res ** 2)) / len(res)) / (rng_ if rng_ is not None else 1.0)
        e = abs(actual - float(model.rmse)) / max(actual, 1e-12)
        note("reported error vs actual:" + model.name, e if actual > 1e-9 else 0.0)
        if not (abs(actual - float(model.rmse)) <= 1e-6 * max(actual, 1e-9) + 1e-12):
            ck.fail_case({**sig, "clause": "reported error differs from the actual normalised RMS deviation"}, {**detail, "reported": float(model.rmse), "actual": actual})
        if len(res) <= 40 and np.all(np.isfinite(res)):
            if rng_ is None:
                lines.append(f"vrmse2 {qlist(res)}")
            else:
                lines.append(f"rmse2 {qlist(res)} {q(rng_)}")
            plan.append(("rmse", float(model.rmse) ** 2 if rng_ is None else None, res, rng_, float(model.rmse)))

    for name in ALL:
        for i in range(N):
            par = sample_params(name, rng)
            T = 77.355 if name in REL_ONLY else 300.0
            gen = make(pg, name, par, temp=T)
            n = rng.choice([8, 12, 20, 40, 60])
            sig = {"model": name}
            try:
                ps = grid(name, par, n)
                if gen.calculates == "loading":
                    ld = np.asarray(gen.loading(ps), dtype=float)
                else:
                    top = 0.9 * par["n_m"] if "n_m" in par else 3.0
                    ld = np.array(sorted(rng.uniform(0.02, 1.0) * top for _ in range(n)))
                    ps = np.asarray(gen.pressure(ld), dtype=float)
            except Exception:
                continue
            if not (np.all(np.isfinite(ld)) and np.all(np.isfinite(ps)) and np.all(np.diff(ps) > 0) and ps[0] > 0 and ld[0] > 0 and max(ld) > min(ld)):
                continue
            # ---------------------------------------------------------------- exact data: the fit reproduces the data
            if name in WELL:
                ck.count(("self", name, i), bucket="self-fit:" + name, sample={"model": name, "params": par, "points": n} if i == 0 else None)
                detail = {"params": par, "pressure": ps.tolist(), "loading": ld.tolist()}
                try:
                    m_iso = pg.ModelIsotherm(pressure=ps, loading=ld, model=name, **common(name))
                    e = float(np.max(np.abs(predict(m_iso.model, ps, ld) - (ld if m_iso.model.calculates == "loading" else ps)))) / float(max(ld) - min(ld))
                    note("self-fit:" + name, e)
                    if e > 2e-3:
                        ck.fail_case({**sig, "clause": "fit of exact model data does not reproduce the data", "badly_scaled": badly_scaled(ps, ld), "cured_by_rescaling": cured_by_rescaling(name, ps, ld)}, {**detail, "fitted": {k: float(v) for k, v in m_iso.model.params.items()}, "worst_relative_deviation": e})
                    for k, v in m_iso.model.params.items():
                        lo, hi = m_iso.model.param_bounds[k]
                        if not (lo <= v <= hi):
                            ck.fail_case({**sig, "clause": "fitted parameter outside the bounds in force"}, {**detail, "parameter": k, "value": float(v), "bounds": [lo, hi]})
                    reported_error_ok(m_iso, ps, ld, sig, detail)
                except CalculationError:
                    ck.count(("self-refused", name, i), nontrivial=False, bucket="self-fit refused (no convergence reported):" + name)
                except Exception as e:  # noqa
                    ck.fail_case({**sig, "clause": "fit raises a non-pyGAPS error", "error": type(e).__name__}, {**detail, "error": repr(e)[:300]})
            # ---------------------------------------------------------------- noisy data: error identity, bounds, user bounds / guesses
            noisy = ld * np.array([1 + rng.uniform(-0.03, 0.03) for _ in ld])
            if rng.random() < 0.5:
                noisy = np.maximum.accumulate(noisy)          # else: scatter may put the largest loading before the last point
            if not max(noisy) > min(noisy):
                continue
            add_pt = None
            if name == "Virial" and rng.random() < 0.4:
                add_pt = rng.random() < 0.8
                if add_pt and rng.random() < 0.6:
                    # the option is ACTIVE: at most two points below half of the largest loading, so that the fit needs the added point
                    low = np.flatnonzero(noisy < 0.5 * max(noisy))
                    keep = np.ones(len(noisy), dtype=bool)
                    keep[low[:max(0, len(low) - 2)]] = False
                    if keep.sum() >= 6:
                        ps, ld, noisy = ps[keep], ld[keep], noisy[keep]
            detail = {"params": par, "pressure": ps.tolist(), "loading": noisy.tolist()}
            kw = {}
            user_bounds = None
            if rng.random() < 0.4 and name not in ("Virial",):
                # bounds around the generating value, or ACTIVE ones that exclude it (the fit must end on the bound, not beyond)
                user_bounds = {}
                for k0 in rng.sample(sorted(par), 1 if rng.random() < 0.7 else min(2, len(par))):
                    f_lo, f_hi = rng.choice([(0.5, 2.0), (0.5, 2.0), (1.5, 4.0), (0.1, 0.6)])
                    user_bounds[k0] = (par[k0] * f_lo, par[k0] * f_hi)
                kw["param_bounds"] = user_bounds
            if rng.random() < 0.3:
                kw["param_guess"] = {k: v * rng.uniform(0.8, 1.25) for k, v in par.items()}
                for k0, (lo, hi) in (user_bounds or {}).items():
                    kw["param_guess"][k0] = lo + rng.uniform(0.05, 0.95) * (hi - lo)      # a user guess inside the user bounds
                kw["param_guess"] = partial_guess(kw["param_guess"])
            # documented pass-through options of the optimiser: the clauses hold whatever is passed
            res_scale = 0.03 * (1.0 if name == "Virial" else float(max(noisy)) if gen.calculates == "loading" else float(max(ps)))
            opts = sample_options(res_scale, 0.5, one_param=len(par) == 1)
            if add_pt is not None:
                opts = {**(opts or {}), "add_point": add_pt}
            if opts:
                kw["optimization_params"] = cp(opts)
                sig = {**sig, "options": sorted(opts)}
                detail = {**detail, "optimization_params": dict(opts)}
            if user_bounds or "param_guess" in kw:
                detail = {**detail, "param_bounds": user_bounds, "param_guess": kw.get("param_guess")}
                if "param_guess" in kw and len(kw["param_guess"]) < len(par):
                    sig = {**sig, "user_guess": "partial"}
                    ck.count(("noisy-partial-guess", name, i), nontrivial=False, bucket="error identity with a guess for some parameters only")
            if rng.random() < 0.08:
                kw["verbose"] = True                                # the fit is reported and drawn (every model, also the pressure-explicit ones)
                sig = {**sig, "verbose": True}
            ck.count(("noisy", name, i), bucket="error identity:" + name)
            if opts:
                ck.count(("noisy-opt", name, i), nontrivial=False, bucket="error identity with optimization_params" + (" (robust loss)" if opts.get("loss", "linear") != "linear" else ""))
            try:
                frozen = {k: (dict(v) if isinstance(v, dict) else v) for k, v in kw.items()}
                m_iso = pg.ModelIsotherm(pressure=ps, loading=noisy, model=name, **kw, **common(name))
                if kw.get("verbose"):
                    close_figures()
                reported_error_ok(m_iso, ps, noisy, sig, detail)
                if rng.random() < 0.15 or "add_point" in (opts or {}):
                    # the same call once more with the very same argument objects (a fit that consumes or rewrites the caller's dictionaries
                    # makes the second call another one): the optimiser is deterministic, the result must be identical
                    ck.count(("noisy-repeat", name, i), nontrivial=False, bucket="same call repeated with the same argument objects")
                    try:
                        again = pg.ModelIsotherm(pressure=ps, loading=noisy, model=name, **kw, **common(name))
                        dev = max([relerr(float(again.model.params[k]), float(v)) for k, v in m_iso.model.params.items()] + [relerr(float(again.model.rmse), float(m_iso.model.rmse))])
                        second = None if dev <= 1e-12 else {"parameters": {k: float(v) for k, v in again.model.params.items()}, "error": float(again.model.rmse)}
                    except Exception as e2:  # noqa
                        second = {"raises": repr(e2)[:300]}
                    if kw.get("verbose"):
                        close_figures()
                    if second is not None:
                        ck.fail_case({**sig, "clause": "the same call repeated with the same argument objects gives another fit"},
                                     {**detail, "arguments_changed_by_the_call": kw != frozen, "arguments_before": str(frozen)[:400], "arguments_after": str(kw)[:400], "first": {"parameters": {k: float(v) for k, v in m_iso.model.params.items()}, "error": float(m_iso.model.rmse)},
                                      "second": second})
                for k, v in m_iso.model.params.items():
                    lo, hi = (user_bounds or {}).get(k, m_iso.model.param_bounds[k])
                    if not (lo - 1e-12 * abs(lo) <= v <= hi + 1e-12 * abs(hi)):
                        ck.fail_case({**sig, "clause": "fitted parameter outside the bounds in force", "user_bounds": user_bounds is not None and k in user_bounds},
                                     {**detail, "parameter": k, "value": float(v), "bounds": [lo, hi]})
            except (CalculationError, ParameterError):
                ck.count(("noisy-refused", name, i), nontrivial=False, bucket="noisy fit refused:" + name)
            except Exception as e:  # noqa
                ck.fail_case({**sig, "clause": "fit raises a non-pyGAPS error", "error": type(e).__name__}, {**detail, "kwargs": str(kw)[:200], "error": repr(e)[:300]})
            if "param_guess" in kw and (len(kw["param_guess"]) < len(par) or rng.random() < 0.4):
                start_is_the_guess(name, lambda k2: pg.ModelIsotherm(pressure=ps, loading=noisy, model=name, **k2, **common(name)), kw, sig, detail)

    lap("exact + noisy fits")
    # -------------------------------------------------------------------- best of a list
    for i in range(N * 2):
        name = rng.choice(["Langmuir", "Toth", "DSLangmuir", "Freundlich", "TemkinApprox"])
        par = sample_params(name, rng)
        gen = make(pg, name, par)
        n = rng.choice([10, 20, 40])
        ps = grid(name, par, n)
        ld = np.asarray(gen.loading(ps), dtype=float) * np.array([1 + rng.uniform(-0.02, 0.02) for _ in range(n)])
        models = rng.sample(["Henry", "Langmuir", "DSLangmuir", "Freundlich", "Toth", "TemkinApprox", "JensenSeaton", "Quadratic", "BET"], rng.randint(2, 5))
        if rng.random() < 0.25:
            models = "guess"
        ck.count(("guess", i), bucket="best of list", sample={"generator": name, "candidates": models} if i % 10 == 0 else None)
        singles = {}
        for m in (_GUESS_MODELS if models == "guess" else models):
            try:
                singles[m] = float(pg.ModelIsotherm(pressure=ps, loading=ld, model=m, **common(name)).model.rmse)
            except CalculationError:
                pass
            except Exception as e:  # noqa
                singles[m] = None
        try:
            best = pg.ModelIsotherm.guess(pressure=ps, loading=ld, models=models, **common(name))
        except CalculationError:
            if any(v is not None for v in singles.values()):
                ck.fail_case({"clause": "guess refused although a candidate converges"}, {"candidates": models, "errors": singles})
            continue
        except Exception as e:  # noqa
            ck.fail_case({"clause": "guess raises a non-pyGAPS error", "error": type(e).__name__}, {"candidates": str(models), "errors": singles, "error": repr(e)[:300]})
            continue
        conv = {k: v for k, v in singles.items() if v is not None}
        if conv:
            lo = min(conv.values())
            if float(best.model.rmse) > lo * (1 + 1e-9) + 1e-15 or abs(conv.get(best.model.name, float("nan")) - float(best.model.rmse)) > 1e-9 * max(lo, 1e-12) + 1e-15:
                ck.fail_case({"clause": "model returned from a list does not have the smallest reported error"},
                             {"candidates": str(models), "errors": conv, "returned": best.model.name, "returned_error": float(best.model.rmse), "pressure": ps.tolist(), "loading": ld.tolist()})
            order = [m for m in (_GUESS_MODELS if models == "guess" else models) if m in conv]
            lines.append(f"best {qlist([conv[m] for m in order])}")
            plan.append(("best", order.index(best.model.name) if best.model.name in order else -1, None, None, None))
            if all(v is not None for v in singles.values()):
                cands = list(_GUESS_MODELS if models == "guess" else models)
                lines.append("guess [" + ";".join(q(conv[m]) if m in conv else "~" for m in cands) + "]")
                plan.append(("guess", cands.index(best.model.name) if best.model.name in cands else -1, None, None, None))

    lap("best of list (converging candidates)")
    # -------------------------------------------------------------------- branch selection
    for i in range(N * 2):
        pa, pd_ = {"K": logu(rng, 0.5, 5), "n_m": rng.uniform(2, 5)}, {"K": logu(rng, 8, 40), "n_m": rng.uniform(6, 9)}
        na, nd = rng.randint(8, 20), rng.randint(8, 20)
        ps_a = np.array(sorted(logu(rng, 1e-3, 30) for _ in range(na)))
        ps_d = np.array(sorted((logu(rng, 1e-3, float(ps_a[-1])) for _ in range(nd)), reverse=True))
        la = pa["n_m"] * pa["K"] * ps_a / (1 + pa["K"] * ps_a)
        ldd = pd_["n_m"] * pd_["K"] * ps_d / (1 + pd_["K"] * ps_d)
        df = pd.DataFrame({"pressure": np.concatenate([ps_a, ps_d]), "loading": np.concatenate([la, ldd])})
        explicit = rng.random() < 0.5
        if explicit:
            df["branch"] = [0] * na + [1] * nd
        if rng.random() < 0.4:
            df.index = range(11, 11 + len(df))
        for br, want in (("ads", pa), ("des", pd_)):
            ck.count(("branch", br, explicit, i), bucket="branch selection:" + br)
            try:
                m_iso = pg.ModelIsotherm(isotherm_data=df, pressure_key="pressure", loading_key="loading", branch=br, model="Langmuir", **common("Langmuir"))
                got = {k: float(v) for k, v in m_iso.model.params.items()}
                bp, bl = (ps_a, la) if br == "ads" else (ps_d, ldd)
                reported_error_ok(m_iso, np.asarray(bp, dtype=float), np.asarray(bl, dtype=float), {"model": "Langmuir", "branch": br}, {"generator": want})
                if float(m_iso.model.rmse) < 0:
                    ck.fail_case({"clause": "reported error is negative", "branch": br}, {"reported": float(m_iso.model.rmse)})
                if max(relerr(got["K"], want["K"]), relerr(got["n_m"], want["n_m"])) > 1e-4:
                    ck.fail_case({"clause": "fit used points of another branch", "branch": br, "branch_column": explicit}, {"generator": want, "fitted": got, "n_ads": na, "n_des": nd})
            except Exception as e:  # noqa
                ck.fail_case({"clause": "branch fit raises", "branch": br, "error": type(e).__name__}, {"error": repr(e)[:300], "n_ads": na, "n_des": nd})
        bs = [0] * na + [1] * nd
        lines.append(f"branch [{';'.join(map(str, bs))}] 1")
        plan.append(("branch", list(range(na, na + nd)), None, None, None))

    lap("branch selection")
    # -------------------------------------------------------------------- point <-> model conversion and unit covariance
    for i in range(N * 3):
        name = rng.choice(["Langmuir", "Toth", "DSLangmuir", "Freundlich", "Henry", "TemkinApprox", "JensenSeaton"])
        par = sample_params(name, rng)
        n = rng.choice([10, 25, 50])
        ps = grid(name, par, n)
        gen = get_isotherm_model(name, parameters={k: np.float64(v) for k, v in par.items()}, pressure_range=(float(ps[0]), float(ps[-1])), loading_range=(0.0, 10.0))
        meta = {"project": "pgv", "n_runs": 3, "comment": "two words", "is_real": True}
        m_iso = pg.ModelIsotherm(model=gen, branch="ads", **meta, **common(name, pu=rng.choice(list(P_UNITS)), lu=rng.choice(list(L_UNITS))))
        ck.count(("conv", name, i), bucket="point<->model:" + name)
        try:
            p_iso = pg.PointIsotherm.from_modelisotherm(m_iso, pressure_points=ps)
        except Exception as e:  # noqa
            ck.fail_case({"clause": "from_modelisotherm raises", "model": name, "error": type(e).__name__}, {"params": par, "error": repr(e)[:300]})
            continue
        on_model = np.allclose(p_iso.loading(), np.asarray(gen.loading(ps), dtype=float), rtol=1e-12, atol=0) and np.allclose(p_iso.pressure(), ps, rtol=0, atol=0)
        if not on_model:
            ck.fail_case({"clause": "generated point isotherm does not lie on the model", "model": name}, {"params": par})
        d_m, d_p = m_iso.to_dict(), p_iso.to_dict()
        missing = {k: (d_m.get(k), d_p.get(k)) for k in list(meta) + ["pressure_mode", "pressure_unit", "loading_basis", "loading_unit", "material_basis", "material_unit", "temperature_unit", "temperature", "material", "adsorbate"]
                   if d_m.get(k) != d_p.get(k)}
        if missing:
            ck.fail_case({"clause": "generated point isotherm loses metadata or units", "model": name, "key": sorted(missing)[0]}, {"differences": {k: [str(a), str(b)] for k, (a, b) in missing.items()}})
        try:
            refit = pg.ModelIsotherm.from_pointisotherm(p_iso, model=name)
            e = float(np.max(np.abs(np.asarray(refit.model.loading(ps), dtype=float) - np.asarray(gen.loading(ps), dtype=float)))) / float(np.ptp(np.asarray(gen.loading(ps), dtype=float)))
            note("refit:" + name, e)
            if e > 2e-3:
                ld_on = np.asarray(gen.loading(ps), dtype=float)
                ck.fail_case({"clause": "re-fitting the generated points does not return the same curve", "model": name, "badly_scaled": badly_scaled(ps, ld_on), "cured_by_rescaling": cured_by_rescaling(name, ps, ld_on)},
                             {"params": par, "refit": {k: float(v) for k, v in refit.model.params.items()}, "deviation": e, "pressure": ps.tolist(), "loading": ld_on.tolist(),
                              "units": [m_iso.pressure_unit, m_iso.loading_unit]})
        except CalculationError:
            ck.count(("refit-refused", name, i), nontrivial=False, bucket="refit refused:" + name)
            continue
        # unit covariance: the same data in other units gives the same curve up to the unit change
        pu2, lu2 = rng.choice(list(P_UNITS)), rng.choice(list(L_UNITS))
        try:
            conv = pg.PointIsotherm(isotherm_data=p_iso.data_raw.copy(), pressure_key=p_iso.pressure_key, loading_key=p_iso.loading_key, **p_iso.to_dict())
            conv.convert(pressure_unit=pu2, loading_unit=lu2)
            if rng.random() < 0.3:
                conv.convert_temperature(unit_to="°C")
            refit2 = pg.ModelIsotherm.from_pointisotherm(conv, model=name)
            a = np.asarray(refit.loading_at(ps), dtype=float)
            fp = P_UNITS[p_iso.pressure_unit] / P_UNITS[pu2]
            fl = L_UNITS[p_iso.loading_unit] / L_UNITS[lu2]
            b = np.asarray(refit2.loading_at(ps * fp), dtype=float) / fl
            e = float(np.max(np.abs(a - b)) / np.ptp(a))
            note("unit covariance:" + name, e)
            if e > 5e-3:
                # control experiment (see reproduced_in_other_units): the converted data are the original data times the harness's own unit
                # factors, and EACH of the two data sets (as the library presents them, fitted by the plain constructor) is reproduced in some
                # power-of-ten units.  Then conversion and fitting logic are right and the difference is the unit dependence of the optimiser
                # call (known finding S33).  A wrong conversion is never "cured".
                try:
                    pa, la = np.asarray(p_iso.pressure(), dtype=float), np.asarray(p_iso.loading(), dtype=float)
                    pb, lb = np.asarray(conv.pressure(), dtype=float), np.asarray(conv.loading(), dtype=float)
                    # 1e-4: the library's torr is 133.322 Pa, the harness's 101325/760 (3e-6 apart); the oracle itself only sees differences above 5e-3
                    same_data = np.allclose(pb, ps * fp, rtol=1e-4, atol=0) and np.allclose(lb, la * fl, rtol=1e-4, atol=0) and np.allclose(la, np.asarray(gen.loading(ps), dtype=float), rtol=1e-9, atol=0)
                    cured = bool(same_data and reproduced_in_other_units(name, pa, la, identity_too=True) and reproduced_in_other_units(name, pb, lb, identity_too=True))
                except Exception:  # noqa
                    cured = False
                ck.fail_case({"clause": "fit of the same data in other units differs by more than the unit change", "model_kind": "nonlinear",
                              "badly_scaled": bool(not (1e-2 <= float(np.max(conv.loading())) <= 1e4) or not (1e-2 <= float(np.max(conv.pressure())) <= 1e4)),
                              "cured_by_rescaling": cured},
                             {"params": par, "units": [p_iso.pressure_unit, p_iso.loading_unit, pu2, lu2], "deviation": e, "pressure": ps.tolist()})
        except CalculationError:
            ck.count(("unit-refused", name, i), nontrivial=False, bucket="unit refit refused:" + name)
        except Exception as e:  # noqa
            ck.fail_case({"clause": "fit in other units raises", "model": name, "error": type(e).__name__}, {"params": par, "units": [pu2, lu2], "error": repr(e)[:300]})

    lap("point<->model, refit, unit covariance")
    # ==================================================================== data with one or two branches, shared by the sections below
    import pygaps.modelling as pgm
    GEN_ABS = ["Langmuir", "Toth", "DSLangmuir", "Freundlich", "TemkinApprox", "JensenSeaton", "Quadratic", "Henry"]

    def branch_data(two_branch, regime, noise=0.02):
        """noisy data of an absolute-pressure isotherm; adsorption rows first (increasing pressure), then - if asked - a desorption branch
        (decreasing pressure, hysteresis: more loading).  regime 'high' keeps only the upper part of the coverage range."""
        for _ in range(20):
            name = rng.choice(GEN_ABS)
            par = sample_params(name, rng)
            gen = make(pg, name, par)
            n = rng.choice([10, 16, 24, 40])
            try:
                ps = grid(name, par, n)
                la = np.asarray(gen.loading(ps), dtype=float)
            except Exception:
                continue
            if regime == "high" and name != "Henry":
                keep = la >= 0.55 * np.max(la)
                if keep.sum() >= 8:
                    ps, la = ps[keep], la[keep]
            la = la * np.array([1 + rng.uniform(-noise, noise) for _ in la])
            if not (np.all(np.isfinite(la)) and np.all(np.diff(ps) > 0) and ps[0] > 0 and np.min(la) > 0 and np.ptp(la) > 0):
                continue
            pd_a, ld_a = ps, la
            if two_branch:
                nd = rng.randint(8, 20)
                pdes = np.array(sorted((logu(rng, float(ps[0]), float(ps[-1]) * 0.999) for _ in range(nd)), reverse=True))
                if len(set(pdes.tolist())) != nd:
                    continue
                h = rng.uniform(0.15, 0.5)
                ldes = np.asarray(gen.loading(pdes), dtype=float) * (1 + h) * np.array([1 + rng.uniform(-noise, noise) for _ in pdes])
                if not (np.all(np.isfinite(ldes)) and np.min(ldes) > 0 and np.ptp(ldes) > 0):
                    continue
            else:
                pdes, ldes = np.array([]), np.array([])
            return {"generator": name, "params": par, "ads": (pd_a, ld_a), "des": (pdes, ldes),
                    "pressure": np.concatenate([pd_a, pdes]), "loading": np.concatenate([ld_a, ldes])}
        return None

    def as_frame(d, branch_column, shifted_index):
        df = pd.DataFrame({"pressure": d["pressure"], "loading": d["loading"]})
        if branch_column:
            df["branch"] = [0] * len(d["ads"][0]) + [1] * len(d["des"][0])
        if shifted_index:
            df.index = range(7, 7 + len(df))
        return df

    EXTRA = {"project": "pgv", "n_runs": 3, "comment": "two words"}

    def as_point(d, cm):
        return pg.PointIsotherm(pressure=d["pressure"], loading=d["loading"], **EXTRA, **cm)

    def keeps_properties(iso, cm, where):
        got = iso.to_dict()
        want = {**{k: v for k, v in cm.items() if k not in ("adsorbate",)}, **EXTRA}
        diff = {k: [str(v), str(got.get(k))] for k, v in want.items() if got.get(k) != v}
        if str(iso.adsorbate).lower() not in ("n2", "nitrogen"):
            diff["adsorbate"] = ["N2", str(iso.adsorbate)]
        if diff:
            ck.fail_case({"clause": "model isotherm created from an isotherm loses metadata or units", "entry": where, "key": sorted(diff)[0]}, {"differences": diff})

    def outcome(model, bp, bl, br, opts, cm, **kw):
        """one candidate / one reference fit, exactly as the library does it inside a list: ('ok', error, isotherm) | ('refused',) | ('error', type)"""
        try:
            iso = pg.ModelIsotherm(pressure=bp, loading=bl, model=model, branch=br, optimization_params=cp(opts), **kw, **cm)
            return ("ok", float(iso.model.rmse), iso)
        except CalculationError:
            return ("refused", None, None)
        except Exception as e:  # noqa
            return ("error", type(e).__name__ + ": " + repr(e)[:200], None)

    # ==================================================================== best of a list: failing candidates at every position, every entry point
    entries = {
        "ModelIsotherm.guess(arrays)": lambda d, df, piso, cm, br, models, opts, vb: pg.ModelIsotherm.guess(
            pressure=d[br][0], loading=d[br][1], branch=br, models=models, optimization_params=cp(opts), verbose=vb, **cm),
        "ModelIsotherm.guess(DataFrame)": lambda d, df, piso, cm, br, models, opts, vb: pg.ModelIsotherm.guess(
            isotherm_data=df, pressure_key="pressure", loading_key="loading", branch=br, models=models, optimization_params=cp(opts), verbose=vb, **cm),
        "ModelIsotherm.from_pointisotherm": lambda d, df, piso, cm, br, models, opts, vb: pg.ModelIsotherm.from_pointisotherm(
            piso, branch=br, model=models, optimization_params=cp(opts), verbose=vb),
        "modelling.model_iso": lambda d, df, piso, cm, br, models, opts, vb: pgm.model_iso(
            piso, branch=br, model=models, optimization_params=cp(opts), verbose=vb),
    }
    if hasattr(pg, "model_iso"):
        entries["pygaps.model_iso"] = lambda d, df, piso, cm, br, models, opts, vb: pg.model_iso(
            piso, branch=br, model=models, optimization_params=cp(opts), verbose=vb)
    entry_names = sorted(entries)
    turn = rng.randrange(len(entry_names))

    # the predicate that documents which models 'guess' tries agrees with the list that is tried (any spelling of the case)
    from pygaps.modelling import _MODELS, is_model_guess
    for m in list(_MODELS) + ["NoSuchModel", ""]:
        for spelled in (m, m.lower(), m.upper()):
            ck.count(("is_model_guess", spelled), nontrivial=False, bucket="is_model_guess")
            if bool(is_model_guess(spelled)) != (spelled.lower() in [g.lower() for g in _GUESS_MODELS]):
                ck.fail_case({"clause": "is_model_guess disagrees with the models tried by 'guess'", "model": spelled}, {"is_model_guess": bool(is_model_guess(spelled)), "guess_models": list(_GUESS_MODELS)})

    for i in range(ck.n(5, 40)):
        two = rng.random() < 0.5
        d = branch_data(two, "high" if i % 2 == 0 else "full")
        if d is None:
            continue
        cm = common(d["generator"])
        br = "des" if two and rng.random() < 0.5 else "ads"
        bp, bl = d[br]
        opts = None
        r = rng.random()
        if r < 0.35:
            opts = sample_options(0.02 * float(np.max(bl)), 1.0)
        elif r < 0.45:
            opts = {"max_nfev": rng.choice([1, 2, 3, 5, 8])}         # most or all candidates are refused
        # `add_point` is the Virial fit's own key of optimization_params ("You can pass add_point=True in optimization_params"); a list that
        # contains Virial receives it in the one dictionary that every candidate of the list is fitted with
        opts_virial = {**(opts or {}), "add_point": rng.random() < 0.85} if rng.random() < 0.5 else opts
        df = as_frame(d, rng.random() < 0.5, rng.random() < 0.3)
        piso = as_point(d, cm)
        single = {m: outcome(m, bp, bl, br, opts_virial if m == "Virial" else opts, cm) for m in ALL}
        okm = sorted((m for m in ALL if single[m][0] == "ok"), key=lambda m: single[m][1])
        bad = [m for m in ALL if single[m][0] == "refused"]
        for m in ALL:
            if single[m][0] == "error":
                ck.fail_case({"model": m, "clause": "fit raises a non-pyGAPS error", "error": single[m][1].split(":")[0], "branch": br},
                             {"pressure": bp.tolist(), "loading": bl.tolist(), "optimization_params": opts, "error": single[m][1]})
        usable = [m for m in ALL if single[m][0] != "error"]
        kinds = ["random", "failed-first", "failed-before-best", "failed-between", "failed-last"]
        rng.shuffle(kinds)
        kinds = kinds[:ck.n(3, 5)] + ["pressure-explicit"] + (["guess"] if i % 3 == 0 else []) + (["all-failed"] if bad and i % 4 == 1 else [])
        for kind in kinds:
            if kind == "guess":
                models = "guess"
                cands = list(_GUESS_MODELS)
            elif kind == "pressure-explicit":
                # loading-explicit and pressure-explicit candidates in one list, in any order (the candidates share the options and, when the
                # call is verbose, one figure)
                cands = rng.sample([m for m in usable if m not in ("Virial", "FHVST", "WVST")], rng.randint(1, 3)) + ["Virial"] + [m for m in ("FHVST", "WVST") if m in usable and rng.random() < 0.3]
                rng.shuffle(cands)
                models = list(cands)
            elif kind == "all-failed":
                cands = rng.sample(bad, min(len(bad), rng.randint(1, 3)))
                models = list(cands)
            else:
                n_ok = rng.randint(1, min(4, len(okm))) if okm else 0
                n_bad = rng.randint(1, min(3, len(bad))) if bad else 0
                good, failed = rng.sample(okm, n_ok), rng.sample(bad, n_bad)
                if kind == "random" or not failed or not good:
                    cands = rng.sample(usable, min(len(usable), rng.randint(2, 6)))
                elif kind == "failed-first":
                    cands = failed + good
                elif kind == "failed-last":
                    cands = good + failed
                else:
                    good.sort(key=lambda m: -single[m][1])                  # the best candidate stands last
                    if kind == "failed-before-best":
                        cands = good[:-1] + failed + good[-1:]
                    else:
                        cands = list(good)
                        for f in failed:
                            cands.insert(rng.randint(0, len(cands) - 1), f)
                models = list(cands)
                if rng.random() < 0.15:
                    models = tuple(models)
                if rng.random() < 0.15:
                    models = [m.lower() if rng.random() < 0.5 else m for m in models]     # model names are case-insensitive
            if any(single[m][0] == "error" for m in cands):
                continue
            entry = entry_names[turn % len(entry_names)]
            turn += 1
            # verbose lists contain every model, also those whose loading() is found numerically (findings S45-C12a/b, repaired: the plot of
            # the attempts evaluated Virial / FHVST / WVST on the pressure points)
            vb = rng.random() < (0.5 if kind == "pressure-explicit" else 0.2)
            with_virial = any(m.lower() == "virial" for m in cands)
            opts_call = opts_virial if with_virial else opts
            conv = [(j, single[m][1]) for j, m in enumerate(cands) if single[m][0] == "ok"]
            expect = min(conv, key=lambda t: (t[1], t[0]))[0] if conv else None
            has_bad_before = expect is not None and any(single[m][0] == "refused" for m in cands[:expect])
            ck.count(("list", i, kind, entry), bucket="best of list via " + entry, sample={"entry": entry, "candidates": list(cands), "branch": br} if i == 0 else None)
            ck.count(("list-kind", i, kind), nontrivial=False, bucket="best of list: " + ("a refused candidate stands before the best one" if has_bad_before else "no candidate converges" if expect is None else
                                                                                         "refused candidates elsewhere" if len(conv) < len(cands) else "every candidate converges"))
            sig = {"entry": entry, "branch": br, "options": sorted(opts_call) if opts_call else None, "verbose": vb}
            detail = {"candidates": list(models) if models != "guess" else "guess", "candidate_errors_in_order": [[m, single[m][1] if single[m][0] == "ok" else "refused"] for m in cands],
                      "optimization_params": opts_call, "pressure": bp.tolist(), "loading": bl.tolist(), "generator": d["generator"], "list_kind": kind}
            if vb:
                ck.count(("list-verbose", i, kind), nontrivial=False, bucket="best of list, verbose" + (" (with a model whose loading is numerical)" if any(m in ("Virial", "FHVST", "WVST") for m in cands) else ""))
            if with_virial and opts_call and "add_point" in opts_call:
                ck.count(("list-add-point", i, kind), nontrivial=False, bucket="best of list with Virial's add_point in the shared options" + (" (a least-squares model stands before Virial)" if cands[0] != "Virial" else ""))
            try:
                best = entries[entry](d, df, piso, cm, br, models, opts_call, vb)
                got = [j for j, m in enumerate(cands) if m == best.model.name]
                got = got[0] if got else -1
                if vb:
                    close_figures()
            except CalculationError:
                got = None
                if vb:
                    close_figures()
            except Exception as e:  # noqa
                if vb:
                    close_figures()
                ck.fail_case({**sig, "clause": "guess raises a non-pyGAPS error", "error": type(e).__name__, "refused_before_best": has_bad_before}, {**detail, "error": repr(e)[:300]})
                continue
            lines.append("guess [" + ";".join(q(single[m][1]) if single[m][0] == "ok" else "~" for m in cands) + "]")
            plan.append(("guess", -2 if got is None else got, None, None, None))
            if expect is None:
                if got is not None:
                    ck.fail_case({**sig, "clause": "a model is returned although no candidate converges"}, {**detail, "returned": best.model.name})
                continue
            if got is None:
                ck.fail_case({**sig, "clause": "guess refused although a candidate converges", "refused_before_best": has_bad_before}, detail)
                continue
            lo = conv and min(e for _, e in conv)
            if got != expect or abs(float(best.model.rmse) - lo) > 1e-9 * max(lo, 1e-12) + 1e-15:
                ck.fail_case({**sig, "clause": "model returned from a list does not have the smallest reported error", "refused_before_best": has_bad_before},
                             {**detail, "returned": best.model.name, "returned_error": float(best.model.rmse), "expected": cands[expect], "smallest_error": lo})
                continue
            reported_error_ok(best, bp, bl, {**sig, "model": best.model.name}, detail)
            if best.branch != br:
                ck.fail_case({**sig, "clause": "fit used points of another branch", "what": "branch label"}, {**detail, "label": best.branch})
            if entry in ("ModelIsotherm.from_pointisotherm", "modelling.model_iso", "pygaps.model_iso"):
                keeps_properties(best, cm, entry)

    lap("best of list (refused candidates, entry points)")
    # ==================================================================== one model through every entry point: branch, ACTIVE bounds, guesses, options
    single_entries = {
        "ModelIsotherm(DataFrame)": lambda d, df, piso, cm, br, kw: pg.ModelIsotherm(isotherm_data=df, pressure_key="pressure", loading_key="loading", branch=br, **kw, **cm),
        "ModelIsotherm.from_pointisotherm": lambda d, df, piso, cm, br, kw: pg.ModelIsotherm.from_pointisotherm(piso, branch=br, **kw),
        "modelling.model_iso": lambda d, df, piso, cm, br, kw: pgm.model_iso(piso, branch=br, **kw),
        "ModelIsotherm.from_isotherm(arrays)": lambda d, df, piso, cm, br, kw: pg.ModelIsotherm.from_isotherm(piso, pressure=d[br][0], loading=d[br][1], branch=br, **kw),
        "ModelIsotherm.from_isotherm(DataFrame)": lambda d, df, piso, cm, br, kw: pg.ModelIsotherm.from_isotherm(piso, isotherm_data=df, pressure_key="pressure", loading_key="loading", branch=br, **kw),
    }
    if hasattr(pg, "model_iso"):
        single_entries["pygaps.model_iso"] = lambda d, df, piso, cm, br, kw: pg.model_iso(piso, branch=br, **kw)
    single_names = sorted(single_entries)
    for i in range(ck.n(8, 60)):
        d = branch_data(True, "full", noise=0.03)
        if d is None:
            continue
        cm = common(d["generator"])
        br = rng.choice(["ads", "des"])
        bp, bl = d[br]
        model = rng.choice(["Langmuir", "Toth", "Freundlich", "Henry", "DSLangmuir", "TemkinApprox", "JensenSeaton", "Quadratic", "TSLangmuir"])
        free = outcome(model, bp, bl, br, None, cm)
        if free[0] != "ok":
            continue
        star = {k: float(v) for k, v in free[2].model.params.items()}
        kw = {"model": model}
        user_bounds = None
        if rng.random() < 0.7:
            # bounds that EXCLUDE the unconstrained optimum: the constrained fit must stop on them
            user_bounds = {}
            for k0 in rng.sample(sorted(star), 1 if rng.random() < 0.7 else min(2, len(star))):
                if not (star[k0] > 0 and math.isfinite(star[k0])):
                    continue
                f_lo, f_hi = rng.choice([(1.3, 3.0), (0.2, 0.75), (0.6, 1.7)])
                dlo, dhi = free[2].model.param_bounds[k0]
                lo, hi = max(star[k0] * f_lo, dlo), min(star[k0] * f_hi, dhi)
                if lo < hi:
                    user_bounds[k0] = (lo, hi)
            if user_bounds:
                kw["param_bounds"] = user_bounds
            else:
                user_bounds = None
        if rng.random() < 0.5:
            g = {k: (v * rng.uniform(0.8, 1.25) if v != 0 else 0.01) for k, v in star.items()}
            for k0, (lo, hi) in (user_bounds or {}).items():
                g[k0] = lo + rng.uniform(0.05, 0.95) * (hi - lo)
            kw["param_guess"] = partial_guess(g)
        opts = sample_options(0.03 * float(np.max(bl)), 0.5, one_param=model == "Henry")
        vb = rng.random() < 0.15
        ref = outcome(model, bp, bl, br, opts, cm, **{k: (dict(v) if isinstance(v, dict) else v) for k, v in kw.items() if k != "model"})
        df = as_frame(d, rng.random() < 0.5, rng.random() < 0.3)
        piso = as_point(d, cm)
        for entry in [single_names[(turn + j) % len(single_names)] for j in range(2)]:
            turn += 1
            ck.count(("entry", i, entry), bucket="single model via " + entry + ":" + br)
            sig = {"entry": entry, "model": model, "branch": br, "options": sorted(opts) if opts else None,
                   "user_bounds": user_bounds is not None, "user_guess": ("partial" if len(kw["param_guess"]) < len(star) else True) if "param_guess" in kw else False}
            detail = {"pressure": bp.tolist(), "loading": bl.tolist(), "other_branch": [x.tolist() for x in d["ads" if br == "des" else "des"]],
                      "param_bounds": user_bounds, "param_guess": kw.get("param_guess"), "optimization_params": opts, "unconstrained_fit": star}
            call_kw = {k: (dict(v) if isinstance(v, dict) else v) for k, v in kw.items()}
            call_kw["optimization_params"] = cp(opts)
            call_kw["verbose"] = vb
            try:
                got = single_entries[entry](d, df, piso, cm, br, call_kw)
                if vb:
                    close_figures()
            except (CalculationError, ParameterError) as e:
                if ref[0] == "ok":
                    ck.fail_case({**sig, "clause": "entry point refuses a fit that the constructor performs on the same data and arguments"}, {**detail, "error": repr(e)[:300]})
                else:
                    ck.count(("entry-refused", i, entry), nontrivial=False, bucket="single model refused")
                continue
            except Exception as e:  # noqa
                ck.fail_case({**sig, "clause": "fit raises a non-pyGAPS error", "error": type(e).__name__}, {**detail, "error": repr(e)[:300]})
                continue
            reported_error_ok(got, bp, bl, sig, detail)
            for k, v in got.model.params.items():
                lo, hi = (user_bounds or {}).get(k, got.model.param_bounds[k])
                if not (lo - 1e-12 * abs(lo) <= v <= hi + 1e-12 * abs(hi)):
                    ck.fail_case({**sig, "clause": "fitted parameter outside the bounds in force"}, {**detail, "parameter": k, "value": float(v), "bounds": [lo, hi]})
            if got.branch != br:
                ck.fail_case({**sig, "clause": "fit used points of another branch", "what": "branch label"}, {**detail, "label": got.branch})
            if ref[0] == "ok":
                # the same data, branch and arguments: the same fit (this is how a dropped / swapped argument or the wrong branch shows)
                dev = max([relerr(float(got.model.params[k]), float(v)) for k, v in ref[2].model.params.items()] + [relerr(float(got.model.rmse), ref[1])])
                note("entry point vs constructor", dev)
                if dev > 1e-9:
                    other_p, other_l = d["ads" if br == "des" else "des"]
                    o_other = outcome(model, other_p, other_l, "ads" if br == "des" else "des", opts, cm, **{k: (dict(v) if isinstance(v, dict) else v) for k, v in kw.items() if k != "model"})
                    is_other = o_other[0] == "ok" and max(relerr(float(got.model.params[k]), float(v)) for k, v in o_other[2].model.params.items()) <= 1e-9
                    ck.fail_case({**sig, "clause": "fit used points of another branch" if is_other else "entry point does not fit the requested branch with the arguments passed"},
                                 {**detail, "fitted": {k: float(v) for k, v in got.model.params.items()}, "constructor_on_the_branch": {k: float(v) for k, v in ref[2].model.params.items()},
                                  "error": float(got.model.rmse), "constructor_error": ref[1]})
            elif ref[0] == "refused":
                ck.fail_case({**sig, "clause": "entry point does not fit the requested branch with the arguments passed", "what": "constructor refuses"}, detail)
            if entry != "ModelIsotherm(DataFrame)":
                keeps_properties(got, cm, entry)
            if "param_guess" in kw and len(kw["param_guess"]) < len(star):
                start_is_the_guess(model, lambda k2, entry=entry: single_entries[entry](d, df, piso, cm, br, k2), call_kw, sig, detail)

    lap("single model through entry points")
    # ==================================================================== models that calculate pressure: point isotherm from loading points; Virial with an added point
    for i in range(ck.n(4, 30)):
        name = rng.choice(["Virial", "FHVST", "WVST"])
        par = sample_params(name, rng)
        gen = get_isotherm_model(name, parameters={k: np.float64(v) for k, v in par.items()})
        top = 0.9 * par["n_m"] if "n_m" in par else 3.0
        lds = np.array(sorted(rng.uniform(0.02, 1.0) * top for _ in range(rng.choice([8, 15, 30]))))
        try:
            want_p = np.asarray(gen.pressure(lds), dtype=float)
        except Exception:
            continue
        if not (np.all(np.isfinite(want_p)) and np.all(np.diff(want_p) > 0) and want_p[0] > 0):
            continue
        meta = {"project": "pgv", "n_runs": 3, "comment": "two words", "is_real": True}
        cmx = common(name, pu=rng.choice(list(P_UNITS)), lu=rng.choice(list(L_UNITS)))
        m_iso = pg.ModelIsotherm(model=gen, branch="ads", **meta, **cmx)
        ck.count(("conv-p", name, i), bucket="point<->model (loading points):" + name)
        try:
            p_iso = pg.PointIsotherm.from_modelisotherm(m_iso, loading_points=lds)
        except Exception as e:  # noqa
            ck.fail_case({"clause": "from_modelisotherm raises", "model": name, "error": type(e).__name__}, {"params": par, "loading_points": lds.tolist(), "error": repr(e)[:300]})
            continue
        if not (np.allclose(p_iso.pressure(), want_p, rtol=1e-12, atol=0) and np.allclose(p_iso.loading(), lds, rtol=0, atol=0)):
            ck.fail_case({"clause": "generated point isotherm does not lie on the model", "model": name}, {"params": par, "loading_points": lds.tolist()})
        d_m, d_p = m_iso.to_dict(), p_iso.to_dict()
        missing = {k: [str(d_m.get(k)), str(d_p.get(k))] for k in list(meta) + list(cmx) if d_m.get(k) != d_p.get(k)}
        if missing:
            ck.fail_case({"clause": "generated point isotherm loses metadata or units", "model": name, "key": sorted(missing)[0]}, {"differences": missing})
        if name == "Virial":
            # one pressure point: the loading is found numerically (Nelder-Mead started at x0 = pressure).
            # Not generated, by decision of the triage (T-C12 item 5): C12's clause "a point isotherm generated from a model isotherm lies on the
            # model" is quantified over the ten models with a well-posed fit, all loading-explicit; Virial is outside it.  What Virial.loading does
            # with other arguments belongs to C10 (known finding S24 there: outside 0.5 <= loading/pressure <= 10 the search ends on non-roots
            # although success is reported; an array of more than one pressure raises ValueError - numerical inverses take one number, C10 does
            # not demand arrays of them).  Only the region where the start value is adequate is generated here.
            ok_pts = [j for j in range(len(lds)) if 0.5 <= lds[j] / want_p[j] <= 10]
            if ok_pts:
                j = rng.choice(ok_pts)
                ck.count(("conv-p1", name, i), bucket="point<->model (one pressure point):Virial")
                try:
                    one = pg.PointIsotherm.from_modelisotherm(m_iso, pressure_points=[float(want_p[j])])
                    back = float(np.ravel(gen.pressure(np.asarray(one.loading(), dtype=float)))[0])
                    e = abs(back - float(want_p[j])) / float(want_p[j])
                    note("Virial point from one pressure", e)
                    if not (e <= 5e-3 and float(np.ravel(one.pressure())[0]) == float(want_p[j])):
                        ck.fail_case({"clause": "generated point isotherm does not lie on the model", "model": name, "points": "one pressure"},
                                     {"params": par, "pressure": float(want_p[j]), "loading_on_model": float(lds[j]), "loading_returned": float(np.ravel(one.loading())[0]), "relative_pressure_mismatch": e})
                except Exception as e:  # noqa
                    ck.fail_case({"clause": "from_modelisotherm raises", "model": name, "error": type(e).__name__, "points": "one pressure"}, {"params": par, "pressure": float(want_p[j]), "error": repr(e)[:300]})

    lap("pressure models")
    # -------------------------------------------------------------------- clamp of the initial guess
    base = get_isotherm_model("Langmuir")
    for i in range(N * 4):
        lo, hi = rng.choice([(0.0, float("inf")), (1.0, 5.0), (-float("inf"), 2.0), (0.5, 0.5), (5.0, 1.0)])
        v = rng.choice([lo if math.isfinite(lo) else -7.0, hi if math.isfinite(hi) else 9.0, rng.uniform(-3, 8)])
        base.param_bounds["K"] = (lo, hi)
        got = base.initial_guess_bounds({"K": v})["K"]
        lines.append(f"clamp {optq(lo if math.isfinite(lo) else None)} {optq(hi if math.isfinite(hi) else None)} {q(v)}")
        plan.append(("clamp", float(got), None, None, None))
        ck.count(("clamp", lo, hi, v), nontrivial=False, bucket="initial guess clamp")

    lap("clamp")
    # -------------------------------------------------------------------- correspondence
    n_dis = 0
    try:
        replies = ck.drive("Fit", lines) if lines else []
    except Exception as e:
        replies = None
        ck.broken.append({"step": "driver Fit", "what": str(e)[:600]})
    if replies is not None:
        from pgv.charlib import parse_q, parse_qlist
        for (what, a, res, rng_, rep_err), rep, line in zip(plan, replies, lines):
            t = rep.split()
            ck.count(("corr", what), nontrivial=False, bucket="correspondence:" + what)
            if what == "rmse":
                ok = t[0] == "ok" and abs(math.sqrt(float(parse_q(t[1]))) - rep_err) <= 1e-9 * max(rep_err, 1e-12) + 1e-15
            elif what == "best":
                ok = t[0] == "ok" and int(t[1]) == a
            elif what == "guess":
                ok = (t[0] == "none" and a == -2) or (t[0] == "ok" and int(t[1]) == a)
            elif what == "branch":
                ok = t[0] == "ok" and [int(x) for x in t[1][1:-1].split(";") if x] == a
            elif what == "start":
                ok = t[0] == "ok" and [float(x) for x in parse_qlist(t[1])] == a
            else:
                ok = t[0] == "ok" and float(parse_q(t[1])) == a
            if not ok:
                n_dis += 1
                if n_dis <= 3:
                    ck.broken.append({"step": f"correspondence Model/Fit.lean ({what})", "what": {"request": line[:300], "model": rep[:200], "implementation": str(a if what != 'rmse' else rep_err)[:200]}})
    lap("correspondence (Lean driver)")
    ck.cov["section_wall_s"] = laps
    ck.cov["correspondence_disagreements"] = n_dis
    ck.cov["worst"] = {k: float(f"{v:.3g}") for k, v in sorted(worst.items())}
    ck.cov["rule"] = ("10 well-posed models x generating parameters in bounds x grids of 8-60 points spanning low coverage to near saturation (exact data); all 16 models on noisy data (3 %) with user bounds "
                      "(around the optimum and ACTIVE ones that exclude it), user guesses (for all or for some of the parameters) and optimization_params (loss, f_scale, max_nfev, ftol/xtol/gtol, method, x_scale, jac, "
                      "tr_solver, verbose, Virial add_point with data that need the point) for the error identity and bounds, verbose, the same call repeated with the same argument objects; candidate lists of 1-6 of all 16 "
                      "models and 'guess' with refused candidates first / between / immediately before the best / last / everywhere, verbose with every model, Virial's add_point in the shared options, through "
                      "ModelIsotherm.guess (arrays, DataFrame), from_pointisotherm, modelling.model_iso, on either branch, fed to Model/Fit.guessIdx in candidate order; one model through every entry point (constructor, "
                      "from_pointisotherm, model_iso, from_isotherm) with branch, active bounds, full and partial guesses, options, verbose; two-branch data with and without a branch column; point<->model conversion (pressure points; loading points for the "
                      "pressure-explicit models) and refits in 5 pressure x 3 loading units and degC")
    ck.assumptions += ["scipy.optimize.least_squares is numerical: a reported non-convergence (CalculationError) is an honest refusal and is counted, not flagged",
                       "scipy 1.18 least_squares(method='trf', tr_solver='lsmr') raises IndexError for a one-variable problem (upstream, reproduced without pyGAPS): 'lsmr' reaches Henry only together "
                       "with method='dogbox'; the combination is outside the property's domain (no fit is made)",
                       "Virial point isotherms from pressure points: one pressure inside 0.5 <= loading/pressure <= 10 only (Virial is outside the quantifier of the point-isotherm clause; its numerical "
                       "inverse is the subject of C10, known finding S24)"]
