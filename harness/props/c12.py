"""C12 — model fitting is self-consistent.

Lean: Props/C12.lean over Model/Fit.lean (error definition, clamp of the initial guess, best-of-list rule, branch selection — run at ℚ
against the real code) and Gen/ModelsR.lean (unit-scaling laws of the generated model equations, exact data ⇒ the generator is a global
minimiser with error 0).  The optimiser is numerical: each fit is decided by the oracle below on the real classes.
"""
import math

from pgv.charlib import qlist, quiet_logging
from pgv.core import import_pygaps
from pgv.models import REL_ONLY, logu, make, relerr, sample_params

WELL = ["Henry", "Langmuir", "DSLangmuir", "BET", "Freundlich", "DR", "DA", "TemkinApprox", "Toth", "JensenSeaton"]
ALL = WELL + ["TSLangmuir", "GAB", "Quadratic", "Virial", "FHVST", "WVST"]
P_UNITS = {"bar": 1e5, "Pa": 1.0, "kPa": 1e3, "atm": 101325.0, "torr": 101325.0 / 760}
L_UNITS = {"mmol": 1e-3, "mol": 1.0, "kmol": 1e3}


def run(ck):
    pg = import_pygaps()
    import numpy as np
    import pandas as pd
    from pygaps.modelling import _GUESS_MODELS, get_isotherm_model
    from pygaps.utilities.exceptions import CalculationError, ParameterError
    quiet_logging()
    np.seterr(all="ignore")
    rng = ck.rng
    thorough = ck.tier == "thorough"
    N = ck.n(8, 40)
    worst = {}
    lines, plan = [], []

    def note(k, v):
        worst[k] = max(worst.get(k, 0.0), v)
        return v

    def grid(name, par, n):
        """a well-posed sampling grid: from low coverage up to near saturation / the validity limit"""
        if name == "BET":
            return np.array(sorted(rng.uniform(0.005, 0.9) / par["N"] for _ in range(n)))
        if name in REL_ONLY:
            return np.array(sorted([logu(rng, 1e-6, 1e-3), rng.uniform(0.5, 0.99), rng.uniform(0.1, 0.5)] + [logu(rng, 1e-5, 0.99) for _ in range(n - 3)]))
        k = max([v for kk, v in par.items() if kk.startswith("K")] or [1.0])
        if name == "JensenSeaton":
            k = par["K"] / par["a"]
        return np.array(sorted([logu(rng, 1e-3, 1e-2) / k] + [logu(rng, 1e-2, 50) / k for _ in range(n - 1)]))

    def common(name, pu="bar", lu="mmol"):
        rel = name in REL_ONLY
        return dict(material="pgv-synth", adsorbate="N2", temperature=77.355 if rel else 300.0, pressure_mode="relative" if rel else "absolute",
                    pressure_unit=None if rel else pu, loading_basis="molar", loading_unit=lu, material_basis="mass", material_unit="g", temperature_unit="K")

    def predict(model, ps, ld):
        return np.asarray(model.loading(ps), dtype=float) if model.calculates == "loading" else np.asarray(model.pressure(ld), dtype=float)

    def reported_error_ok(m_iso, ps, ld, sig, detail):
        """the error reported equals the actual root-mean-square deviation, normalised as documented"""
        model = m_iso.model
        if model.name == "Virial":
            keep = (ps > 0) & (ld > 0)
            p2, l2 = ps[keep], ld[keep]
            lnpn = np.log(p2 / l2)
            frac = l2 / max(l2)
            if len(frac[frac < 0.5]) < 3:
                lnpn, l2 = np.hstack([lnpn[0], lnpn]), np.hstack([1e-1, l2])
            par = model.params
            res = par["C"] * l2 ** 3 + par["B"] * l2 ** 2 + par["A"] * l2 - np.log(par["K"]) - lnpn
            rng_ = None
        elif model.calculates == "loading":
            res, rng_ = np.asarray(model.loading(ps), dtype=float) - ld, float(max(ld) - min(ld))
        else:
            res, rng_ = np.asarray(model.pressure(ld), dtype=float) - ps, float(max(ps) - min(ps))
        actual = math.sqrt(float(np.sum(res ** 2)) / len(res)) / (rng_ if rng_ is not None else 1.0)
        e = abs(actual - float(model.rmse)) / max(actual, 1e-12)
        note("reported error vs actual:" + model.name, e if actual > 1e-9 else 0.0)
        if not (abs(actual - float(model.rmse)) <= 1e-6 * max(actual, 1e-9) + 1e-12):
            ck.fail_case({**sig, "clause": "reported error differs from the actual normalised RMS deviation"}, {**detail, "reported": float(model.rmse), "actual": actual})
        if len(res) <= 40 and np.all(np.isfinite(res)):
            if rng_ is None:
                lines.append(f"vrmse2 {qlist(res)}")
            else:
                from pgv.charlib import q
                lines.append(f"rmse2 {qlist(res)} {q(rng_)}")
            plan.append(("rmse", float(model.rmse) ** 2 if rng_ is None else None, res, rng_, float(model.rmse)))

    for name in ALL:
        for i in range(N):
            par = sample_params(name, rng)
            T = 77.355 if name in REL_ONLY else 300.0
            gen = make(pg, name, par, temp=T)
            n = rng.choice([8, 12, 20, 40, 60])
            sig = {"model": name}
            try:
                ps = grid(name, par, n)
                if gen.calculates == "loading":
                    ld = np.asarray(gen.loading(ps), dtype=float)
                else:
                    top = 0.9 * par["n_m"] if "n_m" in par else 3.0
                    ld = np.array(sorted(rng.uniform(0.02, 1.0) * top for _ in range(n)))
                    ps = np.asarray(gen.pressure(ld), dtype=float)
            except Exception:
                continue
            if not (np.all(np.isfinite(ld)) and np.all(np.isfinite(ps)) and np.all(np.diff(ps) > 0) and ps[0] > 0 and ld[0] > 0 and max(ld) > min(ld)):
                continue
            # ---------------------------------------------------------------- exact data: the fit reproduces the data
            if name in WELL:
                ck.count(("self", name, i), bucket="self-fit:" + name, sample={"model": name, "params": par, "points": n} if i == 0 else None)
                detail = {"params": par, "pressure": ps.tolist(), "loading": ld.tolist()}
                try:
                    m_iso = pg.ModelIsotherm(pressure=ps, loading=ld, model=name, **common(name))
                    e = float(np.max(np.abs(predict(m_iso.model, ps, ld) - (ld if m_iso.model.calculates == "loading" else ps)))) / float(max(ld) - min(ld))
                    note("self-fit:" + name, e)
                    if e > 2e-3:
                        ck.fail_case({**sig, "clause": "fit of exact model data does not reproduce the data"}, {**detail, "fitted": {k: float(v) for k, v in m_iso.model.params.items()}, "worst_relative_deviation": e})
                    for k, v in m_iso.model.params.items():
                        lo, hi = m_iso.model.param_bounds[k]
                        if not (lo <= v <= hi):
                            ck.fail_case({**sig, "clause": "fitted parameter outside the bounds in force"}, {**detail, "parameter": k, "value": float(v), "bounds": [lo, hi]})
                    reported_error_ok(m_iso, ps, ld, sig, detail)
                except CalculationError:
                    ck.count(("self-refused", name, i), nontrivial=False, bucket="self-fit refused (no convergence reported):" + name)
                except Exception as e:  # noqa
                    ck.fail_case({**sig, "clause": "fit raises a non-pyGAPS error", "error": type(e).__name__}, {**detail, "error": repr(e)[:300]})
            # ---------------------------------------------------------------- noisy data: error identity, bounds, user bounds / guesses
            noisy = ld * np.array([1 + rng.uniform(-0.03, 0.03) for _ in ld])
            if rng.random() < 0.5:
                noisy = np.maximum.accumulate(noisy)          # else: scatter may put the largest loading before the last point
            if not max(noisy) > min(noisy):
                continue
            detail = {"params": par, "pressure": ps.tolist(), "loading": noisy.tolist()}
            kw = {}
            user_bounds = None
            if rng.random() < 0.4 and name not in ("Virial",):
                k0 = rng.choice(sorted(par))
                user_bounds = {k0: (par[k0] * 0.5, par[k0] * 2.0)}
                kw["param_bounds"] = user_bounds
            if rng.random() < 0.3:
                kw["param_guess"] = {k: v * rng.uniform(0.8, 1.25) for k, v in par.items()}
            ck.count(("noisy", name, i), bucket="error identity:" + name)
            try:
                m_iso = pg.ModelIsotherm(pressure=ps, loading=noisy, model=name, **kw, **common(name))
                reported_error_ok(m_iso, ps, noisy, sig, detail)
                for k, v in m_iso.model.params.items():
                    lo, hi = (user_bounds or {}).get(k, m_iso.model.param_bounds[k])
                    if not (lo - 1e-12 * abs(lo) <= v <= hi + 1e-12 * abs(hi)):
                        ck.fail_case({**sig, "clause": "fitted parameter outside the bounds in force", "user_bounds": user_bounds is not None and k in user_bounds},
                                     {**detail, "parameter": k, "value": float(v), "bounds": [lo, hi]})
            except (CalculationError, ParameterError):
                ck.count(("noisy-refused", name, i), nontrivial=False, bucket="noisy fit refused:" + name)
            except Exception as e:  # noqa
                ck.fail_case({**sig, "clause": "fit raises a non-pyGAPS error", "error": type(e).__name__}, {**detail, "kwargs": str(kw)[:200], "error": repr(e)[:300]})

    # -------------------------------------------------------------------- best of a list
    for i in range(N * 2):
        name = rng.choice(["Langmuir", "Toth", "DSLangmuir", "Freundlich", "TemkinApprox"])
        par = sample_params(name, rng)
        gen = make(pg, name, par)
        n = rng.choice([10, 20, 40])
        ps = grid(name, par, n)
        ld = np.asarray(gen.loading(ps), dtype=float) * np.array([1 + rng.uniform(-0.02, 0.02) for _ in range(n)])
        models = rng.sample(["Henry", "Langmuir", "DSLangmuir", "Freundlich", "Toth", "TemkinApprox", "JensenSeaton", "Quadratic", "BET"], rng.randint(2, 5))
        if rng.random() < 0.25:
            models = "guess"
        ck.count(("guess", i), bucket="best of list", sample={"generator": name, "candidates": models} if i % 10 == 0 else None)
        singles = {}
        for m in (_GUESS_MODELS if models == "guess" else models):
            try:
                singles[m] = float(pg.ModelIsotherm(pressure=ps, loading=ld, model=m, **common(name)).model.rmse)
            except CalculationError:
                pass
            except Exception as e:  # noqa
                singles[m] = None
        try:
            best = pg.ModelIsotherm.guess(pressure=ps, loading=ld, models=models, **common(name))
        except CalculationError:
            if any(v is not None for v in singles.values()):
                ck.fail_case({"clause": "guess refused although a candidate converges"}, {"candidates": models, "errors": singles})
            continue
        except Exception as e:  # noqa
            ck.fail_case({"clause": "guess raises a non-pyGAPS error", "error": type(e).__name__}, {"candidates": str(models), "errors": singles, "error": repr(e)[:300]})
            continue
        conv = {k: v for k, v in singles.items() if v is not None}
        if conv:
            lo = min(conv.values())
            if float(best.model.rmse) > lo * (1 + 1e-9) + 1e-15 or abs(conv.get(best.model.name, float("nan")) - float(best.model.rmse)) > 1e-9 * max(lo, 1e-12) + 1e-15:
                ck.fail_case({"clause": "model returned from a list does not have the smallest reported error"},
                             {"candidates": str(models), "errors": conv, "returned": best.model.name, "returned_error": float(best.model.rmse), "pressure": ps.tolist(), "loading": ld.tolist()})
            order = [m for m in (_GUESS_MODELS if models == "guess" else models) if m in conv]
            lines.append(f"best {qlist([conv[m] for m in order])}")
            plan.append(("best", order.index(best.model.name) if best.model.name in order else -1, None, None, None))

    # -------------------------------------------------------------------- branch selection
    for i in range(N * 2):
        pa, pd_ = {"K": logu(rng, 0.5, 5), "n_m": rng.uniform(2, 5)}, {"K": logu(rng, 8, 40), "n_m": rng.uniform(6, 9)}
        na, nd = rng.randint(8, 20), rng.randint(8, 20)
        ps_a = np.array(sorted(logu(rng, 1e-3, 30) for _ in range(na)))
        ps_d = np.array(sorted((logu(rng, 1e-3, float(ps_a[-1])) for _ in range(nd)), reverse=True))
        la = pa["n_m"] * pa["K"] * ps_a / (1 + pa["K"] * ps_a)
        ldd = pd_["n_m"] * pd_["K"] * ps_d / (1 + pd_["K"] * ps_d)
        df = pd.DataFrame({"pressure": np.concatenate([ps_a, ps_d]), "loading": np.concatenate([la, ldd])})
        explicit = rng.random() < 0.5
        if explicit:
            df["branch"] = [0] * na + [1] * nd
        if rng.random() < 0.4:
            df.index = range(11, 11 + len(df))
        for br, want in (("ads", pa), ("des", pd_)):
            ck.count(("branch", br, explicit, i), bucket="branch selection:" + br)
            try:
                m_iso = pg.ModelIsotherm(isotherm_data=df, pressure_key="pressure", loading_key="loading", branch=br, model="Langmuir", **common("Langmuir"))
                got = {k: float(v) for k, v in m_iso.model.params.items()}
                bp, bl = (ps_a, la) if br == "ads" else (ps_d, ldd)
                reported_error_ok(m_iso, np.asarray(bp, dtype=float), np.asarray(bl, dtype=float), {"model": "Langmuir", "branch": br}, {"generator": want})
                if float(m_iso.model.rmse) < 0:
                    ck.fail_case({"clause": "reported error is negative", "branch": br}, {"reported": float(m_iso.model.rmse)})
                if max(relerr(got["K"], want["K"]), relerr(got["n_m"], want["n_m"])) > 1e-4:
                    ck.fail_case({"clause": "fit used points of another branch", "branch": br, "branch_column": explicit}, {"generator": want, "fitted": got, "n_ads": na, "n_des": nd})
            except Exception as e:  # noqa
                ck.fail_case({"clause": "branch fit raises", "branch": br, "error": type(e).__name__}, {"error": repr(e)[:300], "n_ads": na, "n_des": nd})
        bs = [0] * na + [1] * nd
        lines.append(f"branch [{';'.join(map(str, bs))}] 1")
        plan.append(("branch", list(range(na, na + nd)), None, None, None))

    # -------------------------------------------------------------------- point <-> model conversion and unit covariance
    for i in range(N * 3):
        name = rng.choice(["Langmuir", "Toth", "DSLangmuir", "Freundlich", "Henry", "TemkinApprox", "JensenSeaton"])
        par = sample_params(name, rng)
        n = rng.choice([10, 25, 50])
        ps = grid(name, par, n)
        gen = get_isotherm_model(name, parameters={k: np.float64(v) for k, v in par.items()}, pressure_range=(float(ps[0]), float(ps[-1])), loading_range=(0.0, 10.0))
        meta = {"project": "pgv", "n_runs": 3, "comment": "two words", "is_real": True}
        m_iso = pg.ModelIsotherm(model=gen, branch="ads", **meta, **common(name, pu=rng.choice(list(P_UNITS)), lu=rng.choice(list(L_UNITS))))
        ck.count(("conv", name, i), bucket="point<->model:" + name)
        try:
            p_iso = pg.PointIsotherm.from_modelisotherm(m_iso, pressure_points=ps)
        except Exception as e:  # noqa
            ck.fail_case({"clause": "from_modelisotherm raises", "model": name, "error": type(e).__name__}, {"params": par, "error": repr(e)[:300]})
            continue
        on_model = np.allclose(p_iso.loading(), np.asarray(gen.loading(ps), dtype=float), rtol=1e-12, atol=0) and np.allclose(p_iso.pressure(), ps, rtol=0, atol=0)
        if not on_model:
            ck.fail_case({"clause": "generated point isotherm does not lie on the model", "model": name}, {"params": par})
        d_m, d_p = m_iso.to_dict(), p_iso.to_dict()
        missing = {k: (d_m.get(k), d_p.get(k)) for k in list(meta) + ["pressure_mode", "pressure_unit", "loading_basis", "loading_unit", "material_basis", "material_unit", "temperature_unit", "temperature", "material", "adsorbate"]
                   if d_m.get(k) != d_p.get(k)}
        if missing:
            ck.fail_case({"clause": "generated point isotherm loses metadata or units", "model": name, "key": sorted(missing)[0]}, {"differences": {k: [str(a), str(b)] for k, (a, b) in missing.items()}})
        try:
            refit = pg.ModelIsotherm.from_pointisotherm(p_iso, model=name)
            e = float(np.max(np.abs(np.asarray(refit.model.loading(ps), dtype=float) - np.asarray(gen.loading(ps), dtype=float)))) / float(np.ptp(np.asarray(gen.loading(ps), dtype=float)))
            note("refit:" + name, e)
            if e > 2e-3:
                ck.fail_case({"clause": "re-fitting the generated points does not return the same curve", "model": name}, {"params": par, "refit": {k: float(v) for k, v in refit.model.params.items()}, "deviation": e})
        except CalculationError:
            ck.count(("refit-refused", name, i), nontrivial=False, bucket="refit refused:" + name)
            continue
        # unit covariance: the same data in other units gives the same curve up to the unit change
        pu2, lu2 = rng.choice(list(P_UNITS)), rng.choice(list(L_UNITS))
        try:
            conv = pg.PointIsotherm(isotherm_data=p_iso.data_raw.copy(), pressure_key=p_iso.pressure_key, loading_key=p_iso.loading_key, **p_iso.to_dict())
            conv.convert(pressure_unit=pu2, loading_unit=lu2)
            if rng.random() < 0.3:
                conv.convert_temperature(unit_to="°C")
            refit2 = pg.ModelIsotherm.from_pointisotherm(conv, model=name)
            a = np.asarray(refit.loading_at(ps), dtype=float)
            fp = P_UNITS[p_iso.pressure_unit] / P_UNITS[pu2]
            fl = L_UNITS[p_iso.loading_unit] / L_UNITS[lu2]
            b = np.asarray(refit2.loading_at(ps * fp), dtype=float) / fl
            e = float(np.max(np.abs(a - b)) / np.ptp(a))
            note("unit covariance:" + name, e)
            if e > 5e-3:
                ck.fail_case({"clause": "fit of the same data in other units differs by more than the unit change", "model_kind": "nonlinear",
                              "badly_scaled": bool(not (1e-2 <= float(np.max(conv.loading())) <= 1e4) or not (1e-2 <= float(np.max(conv.pressure())) <= 1e4))},
                             {"params": par, "units": [p_iso.pressure_unit, p_iso.loading_unit, pu2, lu2], "deviation": e})
        except CalculationError:
            ck.count(("unit-refused", name, i), nontrivial=False, bucket="unit refit refused:" + name)
        except Exception as e:  # noqa
            ck.fail_case({"clause": "fit in other units raises", "model": name, "error": type(e).__name__}, {"params": par, "units": [pu2, lu2], "error": repr(e)[:300]})

    # -------------------------------------------------------------------- clamp of the initial guess
    base = get_isotherm_model("Langmuir")
    for i in range(N * 4):
        lo, hi = rng.choice([(0.0, float("inf")), (1.0, 5.0), (-float("inf"), 2.0), (0.5, 0.5), (5.0, 1.0)])
        v = rng.choice([lo if math.isfinite(lo) else -7.0, hi if math.isfinite(hi) else 9.0, rng.uniform(-3, 8)])
        base.param_bounds["K"] = (lo, hi)
        got = base.initial_guess_bounds({"K": v})["K"]
        from pgv.charlib import optq, q
        lines.append(f"clamp {optq(lo if math.isfinite(lo) else None)} {optq(hi if math.isfinite(hi) else None)} {q(v)}")
        plan.append(("clamp", float(got), None, None, None))
        ck.count(("clamp", lo, hi, v), nontrivial=False, bucket="initial guess clamp")

    # -------------------------------------------------------------------- correspondence
    n_dis = 0
    try:
        replies = ck.drive("Fit", lines) if lines else []
    except Exception as e:
        replies = None
        ck.broken.append({"step": "driver Fit", "what": str(e)[:600]})
    if replies is not None:
        from pgv.charlib import parse_q
        for (what, a, res, rng_, rep_err), rep, line in zip(plan, replies, lines):
            t = rep.split()
            ck.count(("corr", what), nontrivial=False, bucket="correspondence:" + what)
            if what == "rmse":
                ok = t[0] == "ok" and abs(math.sqrt(float(parse_q(t[1]))) - rep_err) <= 1e-9 * max(rep_err, 1e-12) + 1e-15
            elif what == "best":
                ok = t[0] == "ok" and int(t[1]) == a
            elif what == "branch":
                ok = t[0] == "ok" and [int(x) for x in t[1][1:-1].split(";") if x] == a
            else:
                ok = t[0] == "ok" and float(parse_q(t[1])) == a
            if not ok:
                n_dis += 1
                if n_dis <= 3:
                    ck.broken.append({"step": f"correspondence Model/Fit.lean ({what})", "what": {"request": line[:300], "model": rep[:200], "implementation": str(a if what != 'rmse' else rep_err)[:200]}})
    ck.cov["correspondence_disagreements"] = n_dis
    ck.cov["worst"] = {k: float(f"{v:.3g}") for k, v in sorted(worst.items())}
    ck.cov["rule"] = ("10 well-posed models x generating parameters in bounds x grids of 8-60 points spanning low coverage to near saturation (exact data); all 16 models on monotone noisy data (3 %) with user bounds and "
                      "guesses for the error identity and bounds; candidate lists of 2-5 models and 'guess'; two-branch data with and without a branch column; point<->model conversion and refits in 5 pressure x 3 loading units and °C")
    ck.assumptions += ["scipy.optimize.least_squares is numerical: a reported non-convergence (CalculationError) is an honest refusal and is counted, not flagged"]
