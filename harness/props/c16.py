"""C16 — mesopore size distributions conserve volume and follow the Kelvin equation.

Lean: Props/C16.lean over Model/Meso.lean (the three recurrences, statement by statement) and Gen/CharR.lean (Kelvin and thickness
formulas regenerated from the source).  Tie: the ℚ model is run against the real psd_pygapsdh / psd_bjh / psd_dollimore_heal on the
same arrays; the generated Kelvin/thickness formulas are run against the real functions.  Failing-input search: the property
clauses on psd_mesoporous (isotherm entry point) with an independent SI-unit Kelvin equation and liquid-volume bookkeeping.
"""
import math

from pgv.charlib import optq, parse_qlist, q, qlist, quiet_logging, tv_run
from pgv.core import import_pygaps
from pgv.models import logu, relerr

R = 6.02214076e23 * 1.380649e-23      # exact SI value (N_A k_B)
FACTOR = {"cylindrical": 2.0, "hemispherical": 1.0, "hemicylindrical": 0.5}
# published table (Rouquerol et al.; docstring of get_meniscus_geometry): condensation in an open cylinder proceeds from a cylindrical film,
# everything else from / to a hemispherical meniscus, slits have hemicylindrical menisci
MENISCUS = {("ads", "slit"): "hemicylindrical", ("ads", "cylinder"): "cylindrical", ("ads", "halfopen-cylinder"): "hemispherical", ("ads", "sphere"): "hemispherical",
            ("des", "slit"): "hemicylindrical", ("des", "cylinder"): "hemispherical", ("des", "halfopen-cylinder"): "hemispherical", ("des", "sphere"): "hemispherical"}


def kelvin_si(p, factor, T, rho, M, gamma):
    """r [nm] from ln(p) = - 2 γ V_m / (f r R T) in SI units."""
    vm = M / rho * 1e-6          # m3/mol
    g = gamma * 1e-3             # N/m
    return -2 * g * vm / (factor * R * T * math.log(p)) * 1e9


def agree(a, b, tol=1e-9):
    if len(a) != len(b):
        return False
    scale = max([abs(float(x)) for x in b] + [1e-300])
    return all(abs(float(x) - float(y)) <= tol * max(scale, abs(float(y))) for x, y in zip(a, b))


def run(ck):
    pg = import_pygaps()
    import numpy as np
    import pygaps.characterisation as pgc
    from pygaps.characterisation import models_kelvin as mk
    from pygaps.characterisation import models_thickness as mt
    from pygaps.characterisation import psd_meso as pm
    from pygaps.utilities.exceptions import CalculationError, ParameterError
    quiet_logging()
    np.seterr(all="ignore")
    rng = ck.rng
    thorough = ck.tier == "thorough"
    N = ck.n(80, 300)

    # ------------------------------------------------------------------ 1. translator validation (Kelvin, thickness) + tables
    cases, lines, plan = [], [], []
    for _ in range(ck.n(15, 60)):
        p, T, rho, M, g = rng.uniform(0.01, 0.995), rng.uniform(60, 320), rng.uniform(0.3, 2), rng.uniform(2, 150), rng.uniform(1, 40)
        if rng.random() < 0.35:
            p = 1 - logu(rng, 1e-7, 1e-2) if rng.random() < 0.6 else logu(rng, 1e-8, 1e-2)      # both ends of (0, 1)
        for mg, f in FACTOR.items():
            py = mk.kelvin_radius(p, mg, T, rho, M, g)
            cases.append(("kelvin_radius", {"pressure": p, "temperature": T, "adsorbate_surface_tension": g, "adsorbate_molar_density": M / rho, "geometry_factor": f}, py))
            ck.count(("kelvin-si", mg, p, T), bucket="oracle:Kelvin equation " + mg)
            if relerr(py, kelvin_si(p, f, T, rho, M, g)) > 1e-9:
                ck.fail_case({"clause": "Kelvin radius does not obey the Kelvin equation", "meniscus": mg}, {"p": p, "T": T, "rho": rho, "M": M, "gamma": g, "got": float(py), "expected": kelvin_si(p, f, T, rho, M, g)})
        cases.append(("kelvin_molar_density", {"adsorbate_molar_mass": M, "liquid_density": rho}, M / rho))
        cases.append(("kelvin_radius_kjs", {"pressure": p, "temperature": T, "adsorbate_surface_tension": g, "adsorbate_molar_density": M / rho},
                      mk.kelvin_radius_kjs(p, "cylindrical", T, rho, M, g)))
        if relerr(mk.kelvin_radius_kjs(p, "cylindrical", T, rho, M, g), kelvin_si(p, 1.0, T, rho, M, g) + 0.3) > 1e-9:
            ck.fail_case({"clause": "Kelvin-KJS radius is not the hemispherical Kelvin radius + 0.3 nm"}, {"p": p, "T": T})
        cases.append(("thickness_halsey", {"pressure": p}, mt.thickness_halsey(p)))
        cases.append(("thickness_harkins_jura", {"pressure": p}, mt.thickness_harkins_jura(p)))
    tv_run(ck, cases)
    for (b, g), want in MENISCUS.items():
        got = mk.get_meniscus_geometry(b, g)
        ck.count(("mg", b, g), bucket="oracle:meniscus table")
        if got != want:
            ck.fail_case({"clause": "meniscus geometry table", "branch": b, "pore_geometry": g}, {"got": got, "expected": want})
        lines.append(f"mg {b} {g}")
        plan.append(("mg", got))
    for mg in FACTOR:
        lines.append(f"gf {mg}")
        plan.append(("gf", None))

    # ------------------------------------------------------------------ 2. recurrence correspondence: ℚ model vs the three real functions
    def table_fn(ps, vals):
        tab = {float(p): float(v) for p, v in zip(ps, vals)}
        return lambda arr: np.array([tab[float(x)] for x in np.atleast_1d(arr)])

    for i in range(N):
        n = rng.choice([2, 3, 4, 6, 10, 16])
        ps = sorted({round(rng.uniform(0.05, 0.99), 6) for _ in range(n)})
        n = len(ps)
        if n < 2:
            continue
        zero_t = rng.random() < 0.3
        thick = [0.0] * n if zero_t else sorted(rng.uniform(0.2, 2.0) for _ in range(n))
        kel = sorted(rng.uniform(0.5, 20.0) for _ in range(n))
        vol = sorted(rng.uniform(0, 1.0) for _ in range(n)) if rng.random() < 0.8 else [rng.uniform(0, 1) for _ in range(n)]
        method = rng.choice(["pygaps-DH", "pygaps-DH", "BJH", "DH"])
        geo = rng.choice(["slit", "cylinder", "sphere"]) if method == "pygaps-DH" else rng.choice(["cylinder", "cylinder", "slit"])
        fn = {"pygaps-DH": pm.psd_pygapsdh, "BJH": pm.psd_bjh, "DH": pm.psd_dollimore_heal}[method]
        try:
            r = fn(np.array(vol), np.array(ps), geo, table_fn(ps, thick), table_fn(ps, kel))
            got = ("ok", r)
        except ParameterError:
            got = ("refused", None)
        lines.append(f"meso {method} {geo} {qlist(vol)} {qlist(thick)} {qlist(kel)}")
        plan.append(("meso", (method, geo, vol, thick, kel, got)))
        ck.count(("rec", method, geo, n, zero_t, i), bucket=f"recurrence:{method}:{geo}:{'zero-t' if zero_t else 't>0'}",
                 sample={"method": method, "geometry": geo, "n": n} if i % 60 == 0 else None)

    # ------------------------------------------------------------------ 3. property oracle on psd_mesoporous (isotherm entry point)
    from pygaps.core.adsorbate import Adsorbate
    worst = {}

    def note(k, v):
        worst[k] = max(worst.get(k, 0.0), v)
        return v

    for i in range(N):
        ads_name = rng.choice(["N2", "N2", "Ar", "CO2"])
        T = {"N2": 77.355, "Ar": 87.3, "CO2": rng.choice([195.0, 273.15])}[ads_name]
        ads = Adsorbate.find(ads_name)
        try:
            M, rho, gamma = ads.molar_mass(), ads.liquid_density(T), ads.surface_tension(T)
        except Exception:
            continue
        n = rng.choice([6, 10, 20, 40, 80])
        ps = sorted({rng.uniform(0.02, 0.995) for _ in range(n)} | ({1 - logu(rng, 1e-6, 4e-3)} if rng.random() < 0.3 else set()))
        n = len(ps)
        step_case = rng.random() < 0.25
        if step_case:
            j0 = rng.randrange(1, n - 1)
            base, jump = rng.uniform(0.5, 5), rng.uniform(1, 20)
            load = [base if j <= j0 else base + jump for j in range(n)]
        else:
            inc = [rng.uniform(0, 1) ** 3 * rng.uniform(0.01, 3) for _ in range(n)]
            load = list(np.cumsum(inc) + rng.uniform(0, 2))
        branch = rng.choice(["ads", "des"])
        pa, la = np.array(ps), np.array(load)
        if branch == "des":
            # full loop: adsorption up (lower curve), desorption down along `load`
            p_all = np.concatenate([pa, pa[::-1]])
            l_all = np.concatenate([la * 0.9, la[::-1]])
            br = [0] * n + [1] * n
        else:
            p_all, l_all, br = pa, la, [0] * n
        iso = pg.PointIsotherm(pressure=p_all, loading=l_all, branch=br, material="pgv-synth", adsorbate=ads_name, temperature=T,
                               pressure_mode="relative", pressure_unit=None, loading_basis="molar", loading_unit="mmol",
                               material_basis="mass", material_unit="g", temperature_unit="K")
        method = rng.choice(["pygaps-DH", "pygaps-DH", "BJH", "DH"])
        geo = rng.choice(["slit", "cylinder", "sphere"]) if method == "pygaps-DH" else "cylinder"
        men = rng.choice([None, None, "hemicylindrical", "cylindrical", "hemispherical"])
        tname = rng.choice(["zero thickness", "zero thickness", "Halsey", "Harkins/Jura"])
        kname = "Kelvin"
        lim = None if rng.random() < 0.4 else (rng.choice([None, 0, rng.uniform(0.02, 0.5)]), rng.choice([None, rng.uniform(0.5, 0.999)]))
        sig = {"method": method, "geometry": geo, "thickness": tname}
        ck.count(("psd", method, geo, men, tname, branch, n, i), bucket=f"oracle:{method}:{geo}:{tname}:{branch}" + (":step" if step_case else ""),
                 sample={"method": method, "geometry": geo, "meniscus": men, "thickness": tname, "branch": branch, "n": n, "limits": lim} if i % 40 == 0 else None)
        lo, hi = (0.1, 0.99) if lim is None else lim
        sel_strict = [j for j, p in enumerate(ps) if (not lo or p > lo) and (not hi or p < hi)]
        sel_loose = [j for j, p in enumerate(ps) if (not lo or p >= lo) and (not hi or p <= hi)]
        try:
            r = pgc.psd_mesoporous(iso, psd_model=method, pore_geometry=geo, meniscus_geometry=men, branch=branch, thickness_model=tname, kelvin_model=kname, p_limits=lim)
        except CalculationError:
            if len(sel_strict) >= 3:
                ck.fail_case({**sig, "clause": "refused although three or more points lie strictly inside the limits"}, {"pressure": ps, "limits": lim})
            continue
        except Exception as e:  # noqa
            ck.fail_case({**sig, "clause": "psd_mesoporous raises a non-pyGAPS error", "error": type(e).__name__}, {"pressure": ps, "limits": lim, "error": repr(e)[:200]})
            continue
        a, b = int(r["limits"][0]), int(r["limits"][1])
        used = list(range(a, b + 1))
        detail = {"adsorbate": ads_name, "T": T, "pressure": ps, "loading_mmol_g": load, "branch": branch, "meniscus": men, "limits": lim, "used": [a, b]}
        if len(sel_loose) < 3 or not (set(sel_strict) <= set(used) <= set(sel_loose)):
            ck.fail_case({**sig, "clause": "points used are not the points inside the pressure limits"}, detail)
            continue
        pu = [ps[j] for j in used]
        vliq = [load[j] * 1e-3 * M / rho for j in used]           # cm3/g of liquid
        mg = men or MENISCUS[(branch, geo)]
        tfun = {"zero thickness": lambda p: 0.0, "Halsey": lambda p: float(mt.thickness_halsey(p)), "Harkins/Jura": lambda p: float(mt.thickness_harkins_jura(p))}[tname]
        w_exp = [2 * (kelvin_si(p, FACTOR[mg], T, rho, M, gamma) + tfun(p)) for p in pu]
        widths, vols, dist, cum = (np.asarray(r[k], dtype=float) for k in ("pore_widths", "pore_volumes", "pore_distribution", "pore_volume_cumulative"))
        m = len(pu) - 1
        if not (len(widths) == len(vols) == len(dist) == len(cum) == m):
            ck.fail_case({**sig, "clause": "result arrays do not have one entry per pressure interval"}, {**detail, "lengths": [len(widths), len(vols), len(dist), len(cum)]})
            continue
        # widths: 2 (r_K + t) at the measured pressures, increasing with pressure
        e = max(relerr(w, x) for w, x in zip(widths, w_exp[:m]))
        note("width", e)
        if e > 1e-6:
            ck.fail_case({**sig, "clause": "pore widths are not twice (Kelvin radius + thickness) at the measured pressures", "meniscus": mg}, {**detail, "got": widths[:5].tolist(), "expected": w_exp[:5]})
        if np.any(np.diff(widths) <= 0):
            ck.fail_case({**sig, "clause": "pore widths do not increase with pressure"}, {**detail, "widths": widths.tolist()[:10]})
        # distribution * width increments = volumes
        dw = np.diff(np.asarray(w_exp))
        scale = max(np.max(np.abs(vols)), 1e-300)
        e = float(np.max(np.abs(dist * dw - vols)) / scale)
        note("dist*dw-vol", e)
        if e > 1e-6:
            ck.fail_case({**sig, "clause": "distribution times width increments differs from the pore volumes"}, {**detail, "worst": e})
        # cumulative curve ends at the volume adsorbed at the highest pressure used, and is the running sum
        e = relerr(cum[-1], vliq[-1])
        note("cum-end", e)
        if e > 1e-9:
            ck.fail_case({**sig, "clause": "cumulative curve does not end at the volume adsorbed at the highest pressure used"}, {**detail, "got": float(cum[-1]), "expected": vliq[-1]})
        if float(np.max(np.abs(np.diff(cum) - vols[1:]))) > 1e-9 * max(scale, abs(vliq[-1])):
            ck.fail_case({**sig, "clause": "cumulative curve is not the running sum of the pore volumes"}, detail)
        if tname == "zero thickness":
            dv = np.diff(np.asarray(vliq))
            e = float(np.max(np.abs(vols - dv)) / max(np.max(np.abs(dv)), 1e-300))
            note("zero-t volumes", e)
            if e > 1e-9:
                ck.fail_case({**sig, "clause": "zero thickness: pore volumes are not the successive changes of adsorbed liquid volume"}, {**detail, "got": vols[:6].tolist(), "expected": dv[:6].tolist()})
            if relerr(float(np.sum(vols)), vliq[-1] - vliq[0]) > 1e-9 and abs(vliq[-1] - vliq[0]) > 1e-12:
                ck.fail_case({**sig, "clause": "zero thickness: pore volumes do not sum to the total change"}, {**detail, "sum": float(np.sum(vols)), "expected": vliq[-1] - vliq[0]})
            if step_case and used[0] <= j0 < used[-1]:
                k = j0 - used[0]
                nz = [j for j in range(m) if abs(vols[j]) > 1e-12 * scale]
                if nz != [k]:
                    ck.fail_case({**sig, "clause": "single condensation step does not give a single peak"}, {**detail, "nonzero": nz, "expected": [k]})
                elif not (w_exp[k] * (1 - 1e-9) <= widths[k] <= w_exp[k + 1] * (1 + 1e-9)):
                    ck.fail_case({**sig, "clause": "single peak is not at the Kelvin-predicted width"}, {**detail, "width": float(widths[k]), "bracket": [w_exp[k], w_exp[k + 1]]})
        # the wrapper against the ℚ model on the same arrays (correspondence of the whole pipeline)
        if i % 3 == 0 and m <= 40:
            thick_arr = [tfun(p) for p in pu]
            kel_arr = [float(x) for x in mk.kelvin_radius(np.array(pu), mg, T, rho, M, gamma)]
            lines.append(f"meso {method} {geo} {qlist(vliq)} {qlist(thick_arr)} {qlist(kel_arr)}")
            plan.append(("wrapper", (method, geo, r)))
        if i % 2 == 0:
            lines.append(f"win meso {'N' if lim is None else 'L'} {optq(None if lim is None else lim[0])} {optq(None if lim is None else lim[1])} {qlist(ps)} []")
            plan.append(("win", (a, b)))

    # ------------------------------------------------------------------ correspondence replies
    n_dis = 0
    try:
        replies = ck.drive("Char", lines) if lines else []
    except Exception as e:
        replies = None
        ck.broken.append({"step": "driver Char", "what": str(e)[:600]})
    if replies is not None:
        for (what, data), rep, line in zip(plan, replies, lines):
            t = rep.split()
            ck.count(("corr", what), nontrivial=False, bucket="correspondence:" + what)
            ok = True
            if what == "mg":
                ok = t == ["ok", data]
            elif what == "gf":
                ok = t[0] == "ok" and float(parse_qlist("[" + t[1] + "]")[0]) == FACTOR[line.split()[1]]
            elif what == "win":
                ok = t[0] == "ok" and (int(t[1]), int(t[2])) == data
            elif what == "meso":
                method, geo, vol, thick, kel, got = data
                if got[0] == "refused":
                    ok = t[0] == "refused"
                elif t[0] != "ok":
                    ok = False
                else:
                    arrs = [parse_qlist(x) for x in t[1:6]]
                    r = got[1]
                    ok = all(agree(np.asarray(r[k], dtype=float), arr, 1e-7) for k, arr in zip(("pore_widths", "pore_areas", "pore_volumes", "pore_distribution"), arrs) if np.all(np.isfinite(np.asarray(r[k], dtype=float))))
            elif what == "wrapper":
                method, geo, r = data
                if t[0] != "ok":
                    ok = False
                else:
                    arrs = [parse_qlist(x) for x in t[1:6]]
                    ok = all(agree(np.asarray(r[k], dtype=float), arr, 1e-6) for k, arr in zip(("pore_widths", "pore_areas", "pore_volumes", "pore_distribution", "pore_volume_cumulative"), arrs))
            if not ok:
                n_dis += 1
                if n_dis <= 3:
                    ck.broken.append({"step": f"correspondence Model/Meso.lean ({what})", "what": {"request": line[:300], "model": rep[:300], "implementation": str(data)[:300]}})
    ck.cov["correspondence_disagreements"] = n_dis
    ck.cov["worst_relative_errors"] = {k: float(f"{v:.3g}") for k, v in sorted(worst.items())}
    ck.cov["rule"] = ("random strictly increasing relative-pressure grids (6-80 points) with non-decreasing loading incl. single-step isotherms, N2/Ar/CO2 property sets, 3 methods x admissible pore geometries x "
                      "explicit or inferred meniscus geometry x zero / Halsey / Harkins-Jura thickness, ads and des branches, any pressure limits; recurrences also on 2-16 point arrays with arbitrary model arrays")
    ck.assumptions += ["CoolProp liquid density / surface tension are inputs", "tabulated thickness isotherms (SiO2, carbon black) are not exercised"]
